#!/usr/bin/env python3
"""Seeded-change bookkeeping.
  mutant.py confirm <ID> <mN>   -- in the scratch worktree /tmp/mut/wt-<ID>: demo fails with the patch, passes without; pinned suite passes with the patch
  mutant.py check <ID> <mN> [check ids...] -- apply the patch to /repo, run bin/check <id> quick for each id (default: <ID>), revert; prints verdicts
Patches live in /tmp/mut/out/<ID>/<mN>/ (fresh from the sub-agent) or /verif/seeded/<ID>-<mN>/ (kept)."""
import os, subprocess, sys, glob, shutil, json, time

def sh(cmd, cwd=None, timeout=3600):
    p = subprocess.run(cmd, shell=True, cwd=cwd, capture_output=True, text=True, timeout=timeout,
                       env=dict(os.environ, CARGO_NET_OFFLINE='true', CARGO_BUILD_JOBS=os.environ.get('CARGO_BUILD_JOBS', '8')))
    return p.returncode, p.stdout + p.stderr

def src(idm):
    ID, m = idm
    # round 2 of the campaign: `r2m1` lives in /tmp/mut/out2/<ID>/m1 and is developed in /tmp/mut/wt2-<ID>
    # later rounds alike: `r3m1` -> /tmp/mut/out3/<ID>/m1, /tmp/mut/wt3-<ID>
    fresh = '/tmp/mut/out%s/%s/%s' % (m[1], ID, m[2:]) if m.startswith('r') else '/tmp/mut/out/%s/%s' % (ID, m)
    for d in ('/verif/seeded/%s-%s' % (ID, m), fresh):
        if os.path.exists(d + '/patch.diff'):
            return d
    sys.exit('no patch for %s %s' % idm)

def features(d):
    import re
    try:
        # the LONGEST feature list named anywhere in RUN.md (a prose mention of one feature may come first)
        ms = re.findall(r'--features[ =]("[^"]+"|[A-Za-z0-9_,/-]+)', open(d + '/demo/RUN.md').read())
        m = None
        if ms:
            class _M:
                def __init__(self, g): self._g = g
                def group(self, i): return self._g
            m = _M(max(ms, key=len))
        return ' --features ' + m.group(1) if m else ''
    except Exception:
        return ''

def demo_tests(d):
    out = []
    for f in glob.glob(d + '/demo/**/*.rs', recursive=True):
        rel = os.path.relpath(f, d + '/demo')
        parts = rel.split('/')
        if 'tests' in parts:
            out.append((rel, parts[0], os.path.splitext(parts[-1])[0]))
    return out

def confirm(ID, m):
    d = src((ID, m)); wt = (('/tmp/mut/wt%s-' % m[1]) + '%s' if m.startswith('r') else '/tmp/mut/wt-%s') % ID
    res = {}
    sh('git checkout -- . && git clean -fdq -e Cargo.lock -e target', wt)
    tests = demo_tests(d)
    for rel, crate, name in tests:
        os.makedirs(os.path.dirname(wt + '/' + rel), exist_ok=True)
        shutil.copy(d + '/demo/' + rel, wt + '/' + rel)
    def run_demos():
        ok = True; log = ''
        for rel, crate, name in tests:
            rc, o = sh('cargo test --offline -p %s%s --test %s 2>&1 | tail -15' % (crate, features(d), name), wt)
            passed = 'test result: ok' in o and 'FAILED' not in o
            ok = ok and passed; log += o[-600:]
        return ok, log
    ok0, log0 = run_demos()
    res['demo_passes_unchanged'] = ok0
    rc, o = sh('git apply %s/patch.diff' % d, wt)
    res['patch_applies'] = rc == 0
    ok1, log1 = run_demos()
    res['demo_fails_changed'] = not ok1
    # remove the demos before the pinned suite (they are not part of the change)
    for rel, crate, name in tests:
        os.remove(wt + '/' + rel)
    base = '/tmp/mut/baseline.sh' if os.path.exists('/tmp/mut/baseline.sh') else os.path.join(os.path.dirname(os.path.abspath(__file__)), 'baseline-wt.sh')
    rc, o = sh('sh %s %s' % (base, wt), timeout=7200)
    res['baseline'] = o.strip().splitlines()[-1] if o.strip() else ''
    res['baseline_ok'] = 'missing: []' in o
    sh('git checkout -- . && git clean -fdq -e Cargo.lock -e target', wt)
    print(json.dumps(res, indent=1))
    if not ok0: print(log0)
    if ok1: print(log1)
    return res

def check(ID, m, ids):
    d = src((ID, m))
    rc, o = sh('git -C /repo status --porcelain --untracked-files=no')
    if o.strip():
        sys.exit('/repo is dirty: ' + o)
    rc, o = sh('git -C /repo apply %s/patch.diff' % d)
    if rc != 0:
        sys.exit('patch does not apply: ' + o)
    out = {}
    # evidence files describe runs against the unchanged tree: keep them out of the way of the mutant runs
    saved = {}
    for cid in ids:
        ev = '/verif/evidence/%s.json' % cid
        if os.path.exists(ev): saved[ev] = open(ev).read()
    try:
        for cid in ids:
            t = time.time()
            rc, o = sh('bin/check %s quick' % cid, '/verif')
            lines = [l for l in o.splitlines() if l.startswith(('VIOLATION', 'KNOWN-FINDING', cid + ' quick'))]
            out[cid] = {'rc': rc, 'lines': lines[:6], 'wall': round(time.time() - t, 1)}
            # keep the replay of the first violation for the record
            for l in lines:
                if l.startswith('VIOLATION') and 'replay=' in l:
                    rp = l.split('replay=')[1].split()[0]
                    if os.path.exists(rp):
                        os.makedirs('/verif/.cache/mutant-replays', exist_ok=True)
                        shutil.copy(rp, '/verif/.cache/mutant-replays/%s-%s-%s.case' % (ID, m, cid))
                    break
    finally:
        sh('git -C /repo checkout -- .')
        for ev, txt in saved.items():
            open(ev, 'w').write(txt)
    print(json.dumps(out, indent=1))
    return out

def keep(ID, m, caught_by, missed_by, note):
    d = src((ID, m)); dst = '/verif/seeded/%s-%s' % (ID, m)
    if d != dst:
        shutil.copytree(d, dst, dirs_exist_ok=True)
    meta = {'property': ID, 'id': '%s-%s' % (ID, m), 'origin': 'sub-agent given only the property text and a scratch worktree',
            'confirmed': 'demo fails with the patch and passes without; pinned 69 tests pass with the patch (tools/mutant.py confirm)',
            'caught_by': caught_by, 'missed_by': missed_by, 'note': note}
    json.dump(meta, open(dst + '/meta.json', 'w'), indent=1)
    print('kept', dst)

if __name__ == '__main__':
    cmd = sys.argv[1]
    if cmd == 'confirm': confirm(sys.argv[2], sys.argv[3])
    elif cmd == 'check': check(sys.argv[2], sys.argv[3], sys.argv[4:] or [sys.argv[2]])
    elif cmd == 'keep': keep(sys.argv[2], sys.argv[3], sys.argv[4].split(',') if sys.argv[4] != '-' else [], sys.argv[5].split(',') if sys.argv[5] != '-' else [], sys.argv[6])
