#!/usr/bin/env python3
"""Records the sha256 of every source file of /repo's crates (tracked files at HEAD) in lib/fingerprints.json.
bin/check compares the working tree with it: a property whose crates differ from the recorded tree gets a deeper quick run
(change-directed escalation, DESIGN §11.9).  Run after every commit to /repo:  tools/fingerprint.py update"""
import hashlib, json, os, subprocess, sys
sys.path.insert(0, os.path.join(os.path.dirname(os.path.abspath(__file__)), '..', 'lib'))
import vlib
if __name__ == '__main__':
    head = subprocess.run(['git', '-C', '/repo', 'rev-parse', 'HEAD'], capture_output=True, text=True).stdout.strip()
    dirty = subprocess.run(['git', '-C', '/repo', 'status', '--porcelain', '--untracked-files=no'], capture_output=True, text=True).stdout.strip()
    if dirty:
        sys.exit('/repo has uncommitted changes to tracked files: fingerprint the committed tree only\n' + dirty)
    json.dump(dict(commit=head, files=vlib.source_hashes()), open(vlib.FINGERPRINTS, 'w'), indent=0, sort_keys=True)
    print('fingerprinted', head)
