#!/bin/sh
# usage: baseline.sh <worktree>  - pinned suite (guard off) in that tree vs BASELINE stable_pass
WT=${1:-/repo}
mkdir -p /tmp/mut; OUT=/tmp/mut/baseline_run.$$.txt
cd $WT && CARGO_NET_OFFLINE=true cargo test --workspace --no-fail-fast --offline 2>&1 | grep -E "^test " > $OUT
python3 - $OUT <<'PY'
import json,re,sys
base=json.load(open('/root/.vp/BASELINE.json'))
ok=set()
for l in open(sys.argv[1]):
    m=re.match(r'test (\S+) \.\.\. ok',l)
    if m: ok.add(m.group(1))
missing=[]
for t in base['stable_pass']:
    name=t.split('::',1)[1]
    name=re.sub(r'^bin/[^:]+::','',name)
    if name not in ok and name.split('::')[-1] not in ok: missing.append(t)
print('stable_pass: %d, passing now: %d, missing: %s'%(len(base['stable_pass']),len(base['stable_pass'])-len(missing),missing))
PY
rm -f $OUT
