#!/bin/sh
# Runs /repo's pinned suite (guard off) and compares with /root/.vp/BASELINE.json stable_pass.
cd /repo && cargo test --workspace --no-fail-fast --offline 2>&1 | grep -E "^test " > /tmp/baseline_run.txt
python3 - <<'PY'
import json,re
base=json.load(open('/root/.vp/BASELINE.json'))
ok=set()
for l in open('/tmp/baseline_run.txt'):
    m=re.match(r'test (\S+) \.\.\. ok',l)
    if m: ok.add(m.group(1))
missing=[]
for t in base['stable_pass']:
    name=t.split('::',1)[1]
    name=re.sub(r'^bin/[^:]+::','',name)
    if name not in ok and name.split('::')[-1] not in ok: missing.append(t)
print('stable_pass: %d, passing now: %d, missing: %s'%(len(base['stable_pass']),len(base['stable_pass'])-len(missing),missing))
PY
