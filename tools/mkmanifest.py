#!/usr/bin/env python3
"""Regenerates /verif/MANIFEST.json from the table below (keeps it schema-valid)."""
import json, os, subprocess
V = os.path.dirname(os.path.dirname(os.path.abspath(__file__)))
props = [json.loads(l)['id'] for l in open(os.path.join(V, 'properties.jsonl'))]

CLAIMED = {
 'C09': dict(
   text='Lean 4 theorems about an executable model of HLCTimestamp::send/recv (every clock value, wall reading incl. stalled/backwards, remote stamp; histories of any length by induction): strict increase, node id, drift bound, exact error characterisation, failed calls leave the clock unchanged. The model is tied to the code on every run by differential execution of generated call sequences with injected wall clock.',
   note='Trusted: Lean kernel + {propext, Classical.choice, Quot.sound}; hand-written model of timestamp.rs checked by the correspondence run (sampling); wall clock injected via hook H1; theorems assume WallOk (multiple of 4 ms, before year 2159).',
   technique='Lean 4 proof (induction over call histories) + model/implementation correspondence check',
   ref='§8 C09'),
 'C10': dict(
   text='Lean 4 theorems about the executable model of pack/accessors/Display/FromStr/archive: field and archive round trips for every valid triple, packed order = lexicographic (time, counter, node) for all u64, print-then-parse identity for every valid timestamp (own printer/parser lemmas by induction on digits), and totality of the parser (never panics) for every text. Tied to the code by differential execution over exhaustive boundary grids, random u64 and a malformed-text stream.',
   note='Trusted: Lean kernel + standard axioms; hand-written model incl. Rust integer-parser semantics (parseUnsigned) and rkyv little-endian layout, both tied by the correspondence run; the SQLite column path reuses the same FromStr.',
   technique='Lean 4 proof (round-trip / order / totality theorems) + model/implementation correspondence check',
   ref='§8 C10'),
 'C04': dict(
   text='Lean 4 theorems about the executable model of insert_with_source/delete_with_source/will_apply (any forgiveness F, any number of sources): every accepted operation is exactly one LWW join on its key (refinement step), hence by induction any arrival order of any operation list leaves the LWW record of every key; the per-origin window condition implies acceptance for every permutation; return value <-> record changed; will_apply = return value. Negation witness for the pinned acceptance rule (D1). Tied to the code by differential execution incl. exhaustive small universes and all permutations of small multisets, with the Lean LWW function as oracle.',
   note='Trusted: Lean kernel + standard axioms; hand-written model of orswot.rs (BTreeMap/HashMap as finite maps) tied by the correspondence run; stamps valid and after the first 4 ms of 2023; FORGIVENESS_PERIOD of a non-test build.',
   technique='Lean 4 proof (step refinement to an LWW join-semilattice + induction over operation lists) + model/implementation correspondence check',
   ref='§8 C04'),
 'C03': dict(
   text='Lean 4 theorems about the executable model of OrSWotSet::merge (time-sorted log loop, left-over loop, NodeVersions::merge): per-key characterisation of merge (merge_get), merge = per-key maximum of the two records under soundness (merge_view), and the representation theorem merge_rep: the merged state is the LWW state of the union of what both replicas had applied. From it, for all states reachable by insert/delete/merge over any history under either alternative of the precondition (per-origin window, or gap-free prefixes): commutativity, associativity, idempotence, any order/repetition of merges, indistinguishability of replicas that applied the same operations. Witness that the precondition is needed. Tied to the code by differential execution of merge scripts with the Lean LWW-of-union function as oracle.',
   note='Trusted: Lean kernel + standard axioms; hand-written model of merge (HashMap iteration order irrelevant by the key-local fold lemma; sort_by_key as stable insertion sort) tied by the correspondence run; purge excluded as in the property; valid stamps.',
   technique='Lean 4 proof (refinement of merge to LWW over the union of applied operations; induction over reachable states) + model/implementation correspondence check',
   ref='§8 C03'),
 'C05': dict(
   text='Lean 4 theorems: diff_exact (no hypotheses, any two states: the two lists are exactly the peer records the replica lacks, by the literal definition of the property), no key listed twice, modifications and removals disjoint, the LWW reading of "lacks", and applying a listed modification closes it. The second sentence (one exchange repairs, any split/interleaving of the batches) is decided by the differential run with the Lean model and the LWW oracle over window and gap-free constructions; its theorem (apply_diff_closes) is stated in DESIGN.md and not yet proved - see level_note.',
   note='PARTIAL at proof level: diff_exact and the per-item closure are proved; the whole-exchange closure and convergence are validated by exhaustive/ random differential runs (all batch orders, 64 seeded interleavings) but not yet a theorem. Trusted: Lean kernel + standard axioms; model tied by the correspondence run; the difference is applied on a source that direct replication does not advance (as the store does).',
   technique='Lean 4 proof (diff characterisation) + model/implementation correspondence check with LWW oracle',
   ref='§8 C05'),
 'C08': dict(
   text='Lean 4 theorems: purge_local (purge changes no live entry and no version vector; returns exactly the tombstones older than the safe cut-off of their origin; keeps exactly the others), purged_stays_refused (any operation of the deleting node not newer than a purged delete is refused by will_apply/insert/delete in the purging state and every later state whose cut-offs have not decreased). The cluster statement (timely histories with purges converge to the never-purging result) is evaluated on the implementation by the differential run against the Lean LWW oracle, printed only when the arrival order is timely; its theorem is not yet proved - see level_note.',
   note='PARTIAL at proof level: local facts proved for all states; cluster statement validated differentially (timely constructions with purges at arbitrary points, 1-3 replicas, both sources). Trusted: Lean kernel + standard axioms; model tied by the correspondence run.',
   technique='Lean 4 proof (purge characterisation, refusal after purge) + model/implementation correspondence check with LWW oracle',
   ref='§8 C08'),
 'C12': dict(
   text='Lean 4 theorems about the frame layer (bitwise CRC-32/ISO-HDLC model, to_view_bytes trailer, DataView::using incl. the length guard): frame_roundtrip and value_roundtrip (with the codec assumption), single_bit_flip_rejected for EVERY body of any length and EVERY bit of body or trailer (the CRC register update is affine over GF(2) and the zero-input update is injective at 0 - proved by hand, no bv_decide), short_frame_rejected for every frame below root+trailer, no handler on a refused frame. Tied to the code by differential execution at byte level (crc32fast and DataView::using vs model) plus implementation-side value round trips with exhaustive bit flips/truncations of real rkyv frames up to 2 KiB (strided to 1 MiB) and end-to-end echo/error calls over loopback.',
   note='PARTIAL where the truth is in the runtime: rkyv layout/alignment/unchecked cast are a codec assumption for the model and are only observed; hyper/h2 transport is exercised, not modelled. Trusted: Lean kernel + standard axioms; model of crc32fast and of DataView::using tied by the correspondence run.',
   technique='Lean 4 proof (CRC linearity over GF(2), frame round trip, length guard) + model/implementation correspondence check',
   ref='§8 C12'),
 'C13': dict(
   text='Lean 4 theorems about the executable model of ServerState (services map, handlers map, add_handlers, remove_handlers, get_handler): after ANY sequence of add/remove events, a key of service n is served iff n was added and not removed since (and by the most recently added instance); keys nobody owns are never served; removing a service neither disables others nor leaves anything behind. Negation witness for the pinned retain predicate (D4). Tied to the code by a real Server on loopback: all event sequences up to length 3 (quick) / 5 (thorough) with all four (service, message) pairs sent after every event.',
   note='Trusted: Lean kernel + standard axioms; SipHash injectivity on the URIs in play (disjoint key sets per service name); transport exercised, not modelled.',
   technique='Lean 4 proof (invariant over registry histories, refinement to a last-event spec) + model/implementation correspondence check',
   ref='§8 C13'),
 'C14': dict(
   text='Lean 4 theorems about a protocol-level model of one RPC path (RpcNet: client send_inner with one stream per request, optional timeout and error mapping; an at-most-once stream transport that may lose or delay; server dispatch and handler; replies matched to their stream): protocol_runs_satisfy_spec — EVERY run of the model (any length, any interleaving of any number of requests, any placement of losses, delays, timeouts, connection errors) satisfies the trace specification Spec: each completion is the reply the handler computed for that very request or a connection/timeout error (timeout only when configured), no call completes twice, no handler runs twice or unasked, no reply without a handler run, and with a timeout configured the call returns by send+tau+slack. The model is tied to the code by trace inclusion: every event trace observed on the real RpcClient/Server running over turmoil (feature `simulation`) under seeded partition/hold/release/repair schedules must be accepted by the model (accepted_trace_satisfies_spec) and by the independently verified monitor (monitor_sound/complete). PARTIAL: the behaviour of hyper/h2/turmoil assumed by the model is checked on sampled schedules, not proved.',
   note='Partial: schedules are sampled (160 quick / 8000 thorough simulations). Trusted: Lean kernel + standard axioms; dcsim trace recording; slack 25 ms on the timeout bound (turmoil tick + latency). Defect D14 (concurrent first requests panicked in LazyClient) found by this check and fixed.',
   technique='Lean 4 proof (invariant over all runs of a labelled transition system; verified trace monitor) + trace-inclusion correspondence check against the real code under a deterministic network simulator',
   ref='§8 C14'),
 'C15': dict(
   text='Lean 4 theorems about the executable model of NodeCycler, select_n_nodes, DCAwareSelector::select_nodes and the selector actor: select_sound (for every well-formed layout, local position, level, cursor state = every history of earlier selections, and every outcome of the random choice: an Ok result has no duplicates, excludes the local node, lies in the installed layout, has at least the required size and exactly n for One/Two/Three; never panics; never changes the layout), after_update_only_current (after a membership update every later answer, cached or fresh, lies in the updated layout: departed nodes and data centres are never selected again). Completeness (NotEnoughNodes only when too few peers) is REFUTED for the unchanged code by extra_skip_counterexample (decide) and replayed on the implementation: known finding D11. Tied to the code through the real selector actor with the random DC choice recorded by a hook.',
   note='Known finding D11 (select_n_nodes extra-node loop) is reported as KNOWN-FINDING; completeness is proved for no level and claimed for none (None/All/LocalQuorum/EachQuorum never fail by construction). Trusted: Lean kernel + standard axioms; layouts well-formed (distinct DC names, unique addresses, local node in its own DC); 2 s cache expiry exercised only by sleeping cases.',
   technique='Lean 4 proof (loop invariant of select_n_nodes over all cursor states; actor invariant over request histories) + model/implementation correspondence check',
   ref='§8 C15'),
 'C16': dict(
   text='Lean 4 theorems about the executable model of watch_membership_changes, the latest-value channel and a delta-applying subscriber: delta_exact (left = members of the previous snapshot that are absent or re-addressed, with the address they had; joined = new or re-addressed ones), delta_applies (applying the delta to the previous membership gives exactly the new one), lossless_subscriber_tracks (a subscriber present from the first snapshot and reading after every publication holds exactly the live set after every snapshot, for snapshot sequences of any length). The FULL statement (any subscription point, any read placement) is REFUTED for the unchanged code: slow_subscriber_counterexample and late_subscriber_counterexample (decide), replayed on the implementation: known finding D9 (deltas on a tokio watch channel). Negation witness for the pinned left-lookup (D8, fixed).',
   note='Known finding D9 is reported as KNOWN-FINDING; the proved part is exactly the lossless-subscriber case. Trusted: Lean kernel + standard axioms; tokio::sync::watch = version + latest value; snapshots have distinct node ids.',
   technique='Lean 4 proof (set-level characterisation of deltas, induction over snapshot sequences; counterexamples by decide) + model/implementation correspondence check',
   ref='§8 C16'),
 'C11': dict(
   text='Lean 4 theorems: the clock actor is a fold of HLCTimestamp::send/recv over the queue of processed events, so every interleaving of any number of callers is some event list; for EVERY event list with arbitrary (stalled/backwards) wall readings: replies to get_time are strictly increasing in processing order hence pairwise distinct, every subsequence (one task\'s own replies) is strictly increasing, a get_time processed after an accepted register_ts(r) replies above r, replies carry the node id. Tied to the code by replaying the processed-event log of the real actor (hook) through the model and by checking the property on what 1-32 concurrent tasks actually received on a multi-threaded runtime.',
   note='PARTIAL where the truth is in the runtime: FIFO/single-consumer behaviour of flume and delivery of each oneshot reply to its caller are assumed by the model and observed by the run, not proved. Trusted: Lean kernel + standard axioms; injected wall clock.',
   technique='Lean 4 proof (corollaries of the clock history theorem over all event lists) + actor-log replay through the model',
   ref='§8 C11'),
 'C17': dict(
   text='The claim "each backend behaves like the reference model" is a refinement between external programs (SQLite, LMDB, an in-memory map) and a model, so it is decided differentially: identical call sequences (u64 boundary ids, empty/large payloads, tombstone-before-document, remove-then-reuse, real close+reopen at arbitrary points) through the three real backends and through the executable Lean reference model, observations compared after every call, the keyspace list through the relation listOk. What IS proved in Lean is that the reference model is a sound specification: keyspace isolation, put/get and tombstone/metadata exactness for every id and payload, bulk = fold of singles.',
   note='PARTIAL at proof level by nature: SQLite/LMDB internals and power-loss durability are outside any Lean model; the proof is about the specification, the backends are tied to it by the correspondence run only. Out-of-contract calls (remove_tombstones on a live id) are not generated. Trusted: Lean kernel + standard axioms.',
   technique='differential refinement against a Lean reference model (theorems about the model: isolation, exact read-back)',
   ref='§8 C17'),
 'C18': dict(
   text='Lean 4 theorems about a small-step interleaving machine of get_or_create_keyspace (lookup under the read lock, spawn without lock, insert under the write lock, one mutation through the obtained mailbox): one_state - for EVERY number of tasks and EVERY schedule (any list of task ids) every task that obtained a mailbox obtained the one registered in the map, and every mutation whose send completed is in the set of that instance; same_instance; negation witness legacy_race for the pinned unconditional insert (D7). Tied to the code by running the real KeyspaceGroup under deterministic yield schedules on a current_thread runtime and under 2/8-worker runtimes.',
   note='PARTIAL where the truth is in the runtime: lock and mailbox semantics of parking_lot/puppet are assumed; the correspondence is outcome-level (the theorem makes the outcome schedule-independent). Trusted: Lean kernel + standard axioms (grind used in the invariant step).',
   technique='Lean 4 proof (invariant over all interleavings of a small-step machine) + outcome-level correspondence on real runtimes',
   ref='§8 C18'),
 'C02': dict(
   text='Lean 4 theorems about the executable model of the KeyspaceActor handlers over the reference store, with storage failures as explicit oracle arguments (single call fails without effect; a failing bulk call has written an arbitrary reported sub-list; tombstone removal fails partially): Agree (per id: live@t in the set <=> document@t in the store, tombstone@t <=> tombstone row@t) is preserved by on_set, on_del (no hypotheses), on_multi_set, on_multi_del (distinct ids; entries not refused when their turn comes) and on_purge_tombstones (all failure modes), hence by induction after every request of every history (agree_reachable); applied-to-both-or-neither; negation witness for the pinned acceptance rule (D1) and the D13 witness showing why distinct ids are required. Tied to the code by real actors over a fault-injecting Storage wrapper, set and store printed after every request.',
   note='Hypotheses of the bulk theorems: pairwise distinct ids in one request (public API guarantees it; D13 otherwise) and `Accepted` for the stamp-sorted entries (automatic when all stamps of an origin lie within the forgiveness window: C04.accepted_of_window_aux; in general it follows from the ascending application order - argued in DESIGN.md, not yet a Lean lemma). Trusted: Lean kernel + standard axioms; storage failure contract as documented on BulkMutationError.',
   technique='Lean 4 proof (handler-by-handler invariant preservation, induction over request histories) + model/implementation correspondence check with fault injection',
   ref='§8 C02'),
 'C07': dict(
   text='Lean 4 theorems: load_exact (for every store whose metadata rows form a map, the set rebuilt by load_states_from_storage has exactly the live ids and tombstones of the store with the same stamps - for ANY replay order, every operation on source 0 of an empty two-source set is accepted), crash_anywhere (for every well-formed store - in particular every store reachable at any crash point, between requests or between the storage write and the set update inside a request - the restarted node agrees with its store), acked_survives. Tied to the code by real restarts (fresh KeyspaceGroup + load_states_from_storage on the same MemStore/SQLite file) at every position and inside requests (storage call parked after the inner write).',
   note='The crash is a crash of the process state, not of the disk: durability of SQLite/LMDB under power loss is outside the model. Convergence of the restarted node with its peers is C01 with this node state. Trusted: Lean kernel + standard axioms.',
   technique='Lean 4 proof (reload refines the store for all replay orders; crash = reload of any well-formed store) + model/implementation correspondence check with real restarts',
   ref='§8 C07'),
 'C01': dict(
   text='Lean 4 theorem `convergence` for any number of nodes at the level of the replicated sets: for every history of operations with valid stamps inside one forgiveness period, every admissible event sequence - operations applied at any node through any source any number of times or never (local writes, delivered / duplicated / reordered / batched messages), anti-entropy exchanges against the current state of any peer with the items of the difference in any order (removals first, modifications first, interleaved) - after which every ordered pair of distinct nodes has completed an exchange following the point where each operation was applied at its origin: every node holds, for every key, exactly the LWW record of the whole history. Built on exchange_dominates (an exchange makes the replica dominate the peer), knows_run (records only grow), good_run (every node always represents what it applied). Negation witness for the pinned acceptance rule. The executable cluster model (real handlers, fetch from the peer store, tracker, purge) is tied to the real code by the correspondence run - 2-4 real nodes over loopback RPC, message loss/duplication/reordering/batching, all orders of exchange halves incl. the concurrent production path - which also evaluates the final statement (documents = LWW documents incl. bytes) on the implementation with the Lean lww as oracle.',
   note='Proved rung of the fallback ladder: exchanges are atomic w.r.t. the peer (the fetch returns the snapshot documents); halves in any order/interleaved; late deliveries and other exchanges between exchanges. The store side (set = store after every request) is C02, document bytes are the storage contract (C17). Timers (1 s batching, repair interval) and chitchat are not modelled: events are what they trigger. Trusted: Lean kernel + standard axioms; cluster model tied by the correspondence run.',
   technique='Lean 4 proof (representation invariant over all event histories + winner propagation) + model/implementation correspondence on real multi-node clusters with LWW oracle',
   ref='§8 C01'),
 'C06': dict(
   text='Lean 4 theorems: ack_put_holds / ack_del_holds (a replica whose handler returns Ok holds the mutation or a record of that id with a stamp at least as new - it wrote it, or will_apply refused it because something newer is recorded), distribute_spec (handle_consistency_distribution returns Ok iff every selected replica acknowledged, otherwise the error carries exactly the number of acknowledgements and of selected replicas), ok_means_stored (Ok => the issuer and every selected replica hold the document or a newer record), failure_keeps_local. Which replicas a level selects is C15.select_sound. Tied to the code by real 2-4 node clusters: every operation kind x every selected set x every failing subset, Storage::get on every node right after the call.',
   note='Hypothesis hfresh: the write is not older than the replica purge cut-off for its origin (true of every fresh write: stamps of an origin increase, C09). No RPC timeout exists in put/del (liveness not claimed). Trusted: Lean kernel + standard axioms; Agree (C02) for every node.',
   technique='Lean 4 proof (handler acknowledgement => stored-or-newer; ack counting) + model/implementation correspondence on real clusters with failing replicas',
   ref='§8 C06'),
 'C19': dict(
   text='The state crosses the wire through rkyv (codec assumption) - that it arrives unchanged is decided by the correspondence run: real GetState round trips over loopback, received state compared with the sender own state on every live id, tombstone, stamp and per-origin cut-off, for states from empty to 20 000 entries, many origins, both sources, purged. What is logic is proved in Lean: obs_queries / obs_diff / obs_apply / obs_equiv_forever - a state whose four maps answer look-ups like the sender is observably identical: same get, will_apply, diff, same result and again-identical successor for ANY further operation sequence. "An undecodable state is reported as an error" is FALSE of the unchanged code: known finding D12 (unchecked nested decode).',
   note='PARTIAL: memory safety / alignment of the zero-copy access are runtime facts, observed not proved. Known finding D12 reported as KNOWN-FINDING. Trusted: Lean kernel + standard axioms; rkyv as a codec.',
   technique='Lean 4 proof (observational equivalence from equal maps, closed under all operations) + real state-transfer round trips',
   ref='§8 C19'),
}
NA_REASON = 'check not built yet (work in progress; see DESIGN.md section 8)'

def commits():
    try:
        out = subprocess.run(['git', '-C', '/repo', 'log', '--format=%H %s'], capture_output=True, text=True).stdout
        return [l.split()[0] for l in out.splitlines() if 'verif hooks' in l]
    except Exception:
        return []

m = {"version": 1, "setup_cmd": "bin/setup",
 "hooks": {"guard": "cargo feature `verif` (datacake-crdt, datacake-node, datacake-rpc, datacake-eventual-consistency); off by default",
           "enable": "the harness crates under /verif depend on /repo's crates by path with features=[\"verif\"]; bin/check runs `cargo build --offline` in /verif/harness on every invocation, which rebuilds from /repo's working tree",
           "baseline_off_cmd": "cd /repo && cargo test --workspace --no-fail-fast --offline",
           "source_commits": commits(), "add_only": True},
 "engines": [{"name": "lean-proofs", "path": "lean/Datacake", "serves_properties": sorted(CLAIMED), "kind_free_text": "Lean 4.33 models (Model/), helper lemmas (Lemmas/), property theorems (Props/<id>.lean); audited with #print axioms on every run"},
             {"name": "correspondence", "path": "bin/check", "serves_properties": sorted(CLAIMED), "kind_free_text": "python driver: generates cases, runs dcharness (real Rust code, hooks on) and dcdriver (compiled Lean model) on the same lines, diffs, shrinks, searches for property violations"}],
 "checks": [], "not_applicable": [],
 "notes": "All checks: `bin/check <ID> quick|thorough`; replay: `bin/check <ID> --replay <file>`. Known findings: known_findings.jsonl."}
for p in props:
    if p in CLAIMED:
        c = CLAIMED[p]
        m['checks'].append({"property_id": p, "quick_cmd": "bin/check %s quick" % p, "thorough_cmd": "bin/check %s thorough" % p,
            "evidence_file": "/verif/evidence/%s.json" % p, "replay_cmd_template": "bin/check %s --replay {path}" % p,
            "engine": "lean-proofs+correspondence",
            "level_claimed": {"category": "proof", "text": c['text'], "design_ref": c['ref']},
            "level_note": c['note'], "technique": c['technique']})
    else:
        m['not_applicable'].append({"property_id": p, "reason": NA_REASON})
json.dump(m, open(os.path.join(V, 'MANIFEST.json'), 'w'), indent=1)
print('claimed:', sorted(CLAIMED))
