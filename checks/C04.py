"""C04 — per key the greatest timestamp wins, whatever order operations arrive in."""
import itertools
from checks.tsutil import *
from checks.orswotgen import *

ID = 'C04'
RULE = ('one case = one fresh OrSWotSet<1|2>, 1-12 inserts/deletes with pairwise distinct stamps from <=3 origins on <=4 keys through ' 'random sources (a third of the cases re-deliver 1-3 operations unchanged, through the same or the other source), '
        'in a random or exhaustively permuted arrival order; before each op `will_apply`, after it the return value and a dump; '
        'at the end the dump is compared with the Lean LWW oracle (printed only when the decidable Window hypothesis holds) and the cut-offs are probed; '
        'half of the cases also contain out-of-window stamps (gaps F, F+4, 2F) where only model/implementation agreement is checked; '
        'non-trivial = at least two operations on one key arriving in descending stamp order or an insert/delete conflict; distinct by hash')
ASSUMPTIONS = ['FORGIVENESS_PERIOD = 3600 s (non-test build of datacake-crdt); stamps are valid clock outputs (fractional < 250); since fix D17 histories may start at the datacake epoch itself',
               'BTreeMap/HashMap are finite maps; iteration order is canonicalised (sorted) before comparison']
TRUSTED_BASE = ['correspondence: dcharness (real OrSWotSet::insert_with_source/delete_with_source/will_apply/get/diff) vs dcdriver (Datacake.OrSwot model); '
                'LWW oracle = Datacake.Lww.lww evaluated by dcdriver']
THEOREM_NOTE = 'Datacake.OrSwot.tryUpdateMax/insertCore/deleteCore/willApply (Model/Orswot.lean); theorems apply_ops_lww, accepted_of_origin_window, order_independent, result_iff_changed, will_apply_predicts'
EXHAUSTIVE = {'thorough': True}


def lines_for(ops, n, idx, probe_nodes):
    lines = ['case %d orswot %d' % (idx, n)]
    for (kind, src, k, t) in ops:
        lines.append('will 0 %d %d' % (k, t))
        lines.append('%s 0 %d %d %d' % (kind, src, k, t))
        lines.append('dump 0')
    lines.append('lww 0')
    for nd in probe_nodes:
        lines.append('cut 0 %d' % nd)
    lines.append('end')
    return lines


def gen_ops(rng, window):
    pool = StampPool(rng, origins=rng.range(1, 3), window=window)
    n = rng.range(1, 2)
    keys = [1, 2, 3, 4][:rng.range(1, 4)]
    ops = []
    for _ in range(rng.range(1, 12)):
        ops.append((rng.choice(['ins', 'ins', 'del']), rng.below(n), rng.choice(keys), pool.stamp()))
    # re-deliveries: the same operation (same key and stamp) reaches the replica again, through the same or the other source
    if rng.chance(1, 3):
        for _ in range(rng.range(1, 3)):
            kind, _, k, t = rng.choice(ops)
            ops.insert(rng.range(0, len(ops)), (kind, rng.below(n), k, t))
    return ops, n, pool.origins


def generate(rng, tier):
    cases, idx = [], 0
    n_random = dict(quick=1500, thorough=300000, search=20000)[tier]
    for _ in range(n_random):
        r = rng.fork()
        ops, n, origins = gen_ops(r, window=r.chance(1, 2))
        if r.chance(1, 3):
            ops.sort(key=lambda o: -o[3])       # fully descending arrival
        cases.append(lines_for(ops, n, idx, origins)); idx += 1
        if len(ops) <= 4 and r.chance(1, 2):     # all permutations of a small multiset
            for perm in itertools.permutations(ops):
                cases.append(lines_for(list(perm), n, idx, origins)); idx += 1
    # bounded universe: keys {1,2}, origins {0,1}, 4 stamps, <= 3 (quick) / 4 (thorough) ops, both sources
    stamps = [pack(T0, 0, 0), pack(T0 + 4, 0, 0), pack(T0, 0, 1), pack(T0 + F_MS - 4, 1, 1)]
    atoms = [(kd, k, t) for kd in ('ins', 'del') for k in (1, 2) for t in stamps]
    maxlen = 3 if tier == 'quick' else 4
    for ln in range(1, maxlen + 1):
        for combo in itertools.permutations(atoms, ln):
            if len({c[2] for c in combo}) != ln:
                continue
            if tier == 'quick' and ln == 3 and rng.below(4) != 0:
                continue
            if ln == 4 and rng.below(6) != 0:
                continue
            srcs = [rng.below(2) for _ in combo]
            ops = [(c[0], s, c[1], c[2]) for c, s in zip(combo, srcs)]
            cases.append(lines_for(ops, 2, idx, [0, 1])); idx += 1
    return cases


def oracle(case, impl):
    """Return value = 'the record changed' = will_apply's prediction (distinct stamps)."""
    bad = []
    prev = ({}, {})
    will = None
    opset = {(l.split()[0], l.split()[3], l.split()[4]) for l in case if l.split()[0] in ('ins', 'del')}
    distinct = len({o[2] for o in opset}) == len(opset)      # exact re-deliveries allowed; two different operations never share a stamp
    for i, (line, out) in enumerate(zip(case, impl)):
        t = line.split()
        if out.startswith(('crash', 'panic')):
            bad.append('%s: %s' % (line, out)); continue
        if t[0] == 'will':
            will = out
        elif t[0] in ('ins', 'del'):
            ret = out
            cur = parse_dump(impl[i + 1])
            k = int(t[3])
            changed = (prev[0].get(k), prev[1].get(k)) != (cur[0].get(k), cur[1].get(k))
            if (ret == 'true') != changed:
                bad.append('%s returned %s but the record of key %d %s' % (line, ret, k, 'changed' if changed else 'did not change'))
            if distinct and will is not None and will != ret:
                bad.append('%s: will_apply said %s, the operation returned %s' % (line, will, ret))
            others = {kk for kk in set(prev[0]) | set(prev[1]) | set(cur[0]) | set(cur[1]) if kk != k}
            for kk in others:
                if (prev[0].get(kk), prev[1].get(kk)) != (cur[0].get(kk), cur[1].get(kk)):
                    bad.append('%s changed another key (%d)' % (line, kk))
            prev = cur
    return bad


def nontrivial(case, impl):
    seen = {}
    for l in case:
        t = l.split()
        if t[0] in ('ins', 'del'):
            k, ts = int(t[3]), int(t[4])
            if k in seen and (ts < seen[k][0] or t[0] != seen[k][1]):
                return True
            seen[k] = (max(ts, seen.get(k, (0,))[0]), t[0])
    return False


def stats(verdicts):
    d = {'ops': 0, 'ret_true': 0, 'ret_false': 0, 'will_false': 0, 'lww_checked': 0, 'lww_skipped_out_of_window': 0, 'sources2': 0}
    for v in verdicts:
        if v['case'][0].endswith(' 2'): d['sources2'] += 1
        for l, o, m in zip(v['case'], v['impl'], v['model']):
            k = l.split()[0]
            if k in ('ins', 'del'):
                d['ops'] += 1; d['ret_' + o] = d.get('ret_' + o, 0) + 1
            elif k == 'will' and o == 'false': d['will_false'] += 1
            elif k == 'lww':
                if m.endswith('#spec -'): d['lww_skipped_out_of_window'] += 1
                else: d['lww_checked'] += 1
    return d
