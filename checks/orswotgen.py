"""Generators for ORSWOT operation histories (shared by C03, C04, C05, C08)."""
from checks.tsutil import *

T0 = 117_000_000_000   # ms since the datacake epoch (late 2026)


class StampPool:
    """Distinct valid stamps from a few origins; `window=True` keeps all stamps of one origin
    less than F apart (boundary values F-4 and 0 included), `False` also produces F, F+4, 2F gaps."""

    def __init__(self, rng, origins=3, window=True):
        self.rng, self.window = rng, window
        self.origins = rng.shuffle([0, 1, 2, 7, 255])[:origins]
        # one pool in six starts at the datacake epoch itself (stamps whose time part is 0 ms: the subtraction of the
        # forgiveness period saturates there)
        t0 = 0 if rng.chance(1, 6) else T0
        self.base = {n: t0 + rng.choice([0, 4, 1000, 123456]) for n in self.origins}
        self.used = set()

    def stamp(self, node=None):
        rng = self.rng
        for _ in range(100):
            n = node if node is not None else rng.choice(self.origins)
            k = rng.below(10)
            if k < 3: off = rng.choice([0, 4, 8, 12])
            elif k < 5: off = rng.choice([F_MS - 4, F_MS - 8, F_MS - 1000])
            elif k < 8: off = rng.below(F_MS // 4) * 4
            elif self.window: off = rng.below(5000) * 4
            else: off = rng.choice([F_MS, F_MS + 4, 2 * F_MS, F_MS + rng.below(10 ** 6) * 4])
            t = pack(self.base[n] + off, rng.choice([0, 0, 1, 2, 3, 65535]), n)
            if t not in self.used:
                self.used.add(t)
                return t
        raise RuntimeError('stamp pool exhausted')


def fmt_pairs(pairs):
    return ','.join('%d:%d' % p for p in sorted(pairs)) if pairs else '-'


def parse_dump(out):
    """'E k:t,... D k:t,...' -> (dict live, dict dead)"""
    toks = out.split()
    def pp(s):
        return {} if s == '-' else {int(a): int(b) for a, b in (x.split(':') for x in s.split(','))}
    return pp(toks[1]), pp(toks[3])
