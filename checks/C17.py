"""C17 — every bundled storage backend behaves like the reference key-value model."""
from checks.tsutil import *

ID = 'C17'
LEAN_MODULES = ['C17', 'C17b']
MODEL_IS_SPEC = True          # the property IS "behaves like the reference model": a disagreement is a violation
SPEC_EXEMPT = ('kslist',)     # the keyspace list is only constrained (oracle2), not determined, by the reference model
RULE = ('one case = one backend (in-memory MemStore, SqliteStorage on a file, LmdbStorage in a directory; the same call sequence is generated for all three) and 1-60 Storage calls over 3 keyspaces: '
        'put / multi_put / mark_as_tombstone / mark_many_as_tombstone / remove_tombstones (only on tombstones: the contract) interleaved with get / multi_get / iter_metadata / get_keyspace_list after '
        'every mutation; ids from {0,1,2, 2^63-1, 2^63, 2^64-1} and random u64; payloads empty, small, 64 KiB-1 MiB; clock stamps and, one in twelve, ARBITRARY u64 stamps (fractional byte 250..255, seconds at the top of the range); tombstone before any document; remove-then-reuse; '
        'for the persistent backends a real close + reopen is inserted after arbitrary prefixes. Observations are compared with the Lean reference model; the keyspace list with the relation listOk. '
        'non-trivial = at least one tombstone, one overwrite or one reopen; distinct by hash')
ASSUMPTIONS = ['calls outside the contract are not generated (remove_tombstones on a live id: the three backends do three different things)',
               'LMDB map size is 10 MiB and cannot be configured: listed as known finding F2 (replayed on every run); the GENERATED cases keep their payload totals below it so that the rest of the backend is still exercised',
               'SQLite/LMDB internals and real power-loss durability are not modelled; reopen = close + open of the same files']
TRUSTED_BASE = ['correspondence: dcharness (real MemStore / SqliteStorage / LmdbStorage through the Storage trait) vs dcdriver (Datacake.Storage reference model)']
THEOREM_NOTE = 'Datacake.Storage (Model/Storage.lean): put/multiPut/markTombstone/markManyTombstone/removeTombstones/get/multiGet/iterMetadata/listOk; Props/C17b: the reference model refines the abstract map keyspace -> id -> absent | tombstone | live for every legal call history (refines, run_wf, step_refines, get_abs, iter_abs, iter_nodup)'
JOBS = 8
IDS = [0, 1, 2, 2 ** 63 - 1, 2 ** 63, 2 ** 64 - 1]
BACKENDS = ['mem', 'sqlite', 'lmdb']


def removable(line):
    return line.split()[0] in ('put', 'mput', 'tomb', 'mtomb', 'rmtomb', 'reopen', 'get', 'mget', 'meta', 'kslist')


def gen_ops(rng, heavy):
    ops = []
    live, dead = {0: {}, 1: {}, 2: {}}, {0: {}, 1: {}, 2: {}}
    budget = 6 * 1024 * 1024
    # the clock base: usually a present-day value; sometimes one where the decimal length of the seconds field changes within the case
    # (9 s -> 10 s, 99 999 999 s -> 100 000 000 s): the SQLite backend stores stamps as text
    t = rng.choice([117_000_000_000 + rng.below(10 ** 6) * 4] * 4 + [8_000 + rng.below(500) * 4, 99_000 + rng.below(250) * 4, 99_999_990_000 + rng.below(2500) * 4, 999_999_000 + rng.below(250) * 4])
    def stamp():
        nonlocal t
        t += rng.choice([4, 4, 1000, 60000])
        if rng.chance(1, 12):
            # an ARBITRARY u64 as timestamp (HLCTimestamp::from_u64 is public, stamps from the wire are not validated): the fractional
            # byte may be 250..255, which no clock produces; the seconds may be at the top of their range
            secs = rng.choice([5, t // 1000, 2 ** 32 - 1, rng.below(2 ** 32)])
            return (secs << 32) | (rng.choice([250, 251, 255, rng.below(256)]) << 24) | (rng.below(65536) << 8) | rng.below(256)
        return pack(t if rng.chance(4, 5) else max(4, t - rng.below(10 ** 6) * 4), rng.choice([0, 1, 2, 3, 9, 10, 15, 16, 255, 0xABC, 65535]), rng.choice([0, 1, 2, 9, 10, 11, 16, 100, 255]))
    def newid():
        return rng.choice(IDS + [rng.below(2 ** 64), rng.below(5)])
    def data():
        nonlocal budget
        k = rng.below(10)
        if k < 2: return '-'
        if k < 7: return ''.join('%02x' % rng.below(256) for _ in range(rng.range(1, 24)))
        size = rng.choice([33, 100, 4096]) if not heavy else rng.choice([65536, 1 << 20, 300000])
        if size > budget: size = 40
        budget -= size
        return 'z%d:%d' % (size, rng.below(1 << 32))
    for _ in range(rng.range(1, 60 if not heavy else 12)):
        k = rng.below(3)
        m = rng.below(12)
        if m < 3:
            i = newid() if rng.chance(2, 3) or not (live[k] or dead[k]) else rng.choice(list(live[k]) + list(dead[k]))
            ops.append('put %d %d %d %s' % (k, i, stamp(), data())); live[k][i] = 1; dead[k].pop(i, None)
        elif m == 3:
            docs = []
            for _ in range(rng.range(0, 5)):
                i = newid()
                if any(d.startswith('%d:' % i) for d in docs): continue
                docs.append('%d:%d:%s' % (i, stamp(), data())); live[k][i] = 1; dead[k].pop(i, None)
            ops.append('mput %d %s' % (k, ','.join(docs) or '-'))
        elif m < 6:
            pool = list(live[k]) + list(dead[k])
            i = rng.choice(pool) if pool and rng.chance(3, 4) else newid()
            ops.append('tomb %d %d %d' % (k, i, stamp())); dead[k][i] = 1; live[k].pop(i, None)
        elif m == 6:
            ids = []
            for _ in range(rng.range(0, 4)):
                pool = list(live[k]) + list(dead[k])
                i = rng.choice(pool) if pool and rng.chance(1, 2) else newid()
                if i in ids: continue
                ids.append(i); dead[k][i] = 1; live[k].pop(i, None)
            ops.append('mtomb %d %s' % (k, ','.join('%d:%d' % (i, stamp()) for i in ids) or '-'))
        elif m == 7:
            if dead[k]:
                ids = rng.shuffle(list(dead[k]))[:rng.range(1, 3)]
                for i in ids: dead[k].pop(i)
                ops.append('rmtomb %d %s' % (k, ','.join(map(str, ids))))
        elif m == 8:
            ops.append('reopen')
        # observations
        obs = rng.below(5)
        pool = list(live[k]) + list(dead[k]) + [newid()]
        if obs == 0: ops.append('get %d %d' % (k, rng.choice(pool)))
        elif obs == 1: ops.append('mget %d %s' % (k, ','.join(map(str, sorted(set(rng.choice(pool) for _ in range(rng.range(0, 4)))))) or '-'))
        elif obs == 2: ops.append('meta %d' % k)
        elif obs == 3: ops.append('kslist')
        else: ops.append('meta %d' % rng.below(3))
    for k in range(3):
        ops += ['meta %d' % k]
    ops.append('kslist')
    return ops


def generate(rng, tier):
    n = dict(quick=250, thorough=9000, search=1500)[tier]
    cases, idx = [], 0
    for i in range(n):
        ops = gen_ops(rng.fork(), heavy=(i % 25 == 0))
        for b in BACKENDS:
            body = [o for o in ops if not (b == 'mem' and o == 'reopen')]
            cases.append(['case %d store %s c%d' % (idx, b, idx)] + body + ['end']); idx += 1
    return cases


def canon(line, out):
    return 'ks' if line == 'kslist' and out.startswith('ks ') else out


def oracle2(case, impl, model):
    bad = []
    for line, o, m in zip(case, impl, model):
        if o.startswith(('crash', 'panic')):
            bad.append('%s: %s' % (line[:60], o)); continue
        if o.startswith('err'):
            bad.append('%s: backend returned an error: %s' % (line[:80], o)); continue
        if line == 'kslist' and o.startswith('ks ') and m.startswith('ks essential='):
            lst = [] if o == 'ks -' else o[3:].split(',')
            ess = [x for x in m.split('essential=')[1].split(' ')[0].split(',') if x]
            tch = [x for x in m.split('touched=')[1].split(',') if x]
            if len(set(lst)) != len(lst): bad.append('kslist: duplicates in %s' % lst)
            for e in ess:
                if e not in lst: bad.append('kslist: keyspace %s holds metadata but is not listed (%s)' % (e, lst))
            for l in lst:
                if l not in tch: bad.append('kslist: keyspace %s is listed although no mutating call ever named it (a read must not create a keyspace)' % l)
    return bad


def nontrivial(case, impl):
    return any(l.split()[0] in ('tomb', 'mtomb', 'reopen') for l in case)


def stats(verdicts):
    d = {}
    for v in verdicts:
        b = v['case'][0].split()[3]
        d['cases_' + b] = d.get('cases_' + b, 0) + 1
        for l in v['case'][1:-1]:
            k = l.split()[0]
            d[k] = d.get(k, 0) + 1
            if ' z' in l and ':' in l: d['large_payloads'] = d.get('large_payloads', 0) + 1
    return d


def explain(v):
    """F2 (known finding): the LMDB environment is opened with a fixed 10 MiB map.  A violation is attributed to it iff the case
    runs on LMDB, a call was refused with MDB_MAP_FULL, and nothing deviates BEFORE that call (what follows a refused write
    necessarily differs from the reference model)."""
    if ' lmdb ' not in v['case'][0] + ' ':
        return None
    first = next((i for i, o in enumerate(v['impl']) if 'MDB_MAP_FULL' in o), None)
    if first is None:
        return None
    for (li, _line, _msg) in v['spec']:
        if 0 <= li < first: return None
    for d in v['disagree']:
        if d[0] < first: return None
    return 'F2-lmdb-map-size'
