"""C16 — membership change events add up to the live membership."""
import itertools

ID = 'C16'
RULE = ('one case = the real watch_membership_changes task (hook H3) fed with a sequence of membership snapshots over ids 0..3 (joins, leaves, address changes, rejoin; the local node 0 always present), '
        'real tokio watch channel and real WatchStream subscribers created at every position and polled at chosen positions; observed: every delta a subscriber receives and its accumulated '
        'live map at the end, compared with the Lean model and with the specification "live map = other members of the last snapshot"; quick: all snapshot sequences of length <=3 over a 6-snapshot alphabet '
        'x {eager subscriber from the start, late subscriber, slow subscriber}; thorough: length <=5 and all read placements; non-trivial = at least one leave or address change; distinct by hash')
ASSUMPTIONS = ['the membership layer delivers snapshots (states), the watcher turns them into deltas: both as in datacake-node/src/lib.rs',
               'tokio::sync::watch keeps only the latest value (modelled as a version + value cell)']
TRUSTED_BASE = ['correspondence: dcharness (real watch_membership_changes + tokio watch + WatchStream) vs dcdriver (Datacake.Membership model)']
THEOREM_NOTE = 'Datacake.Membership.watchStep / Chan / Sub.poll (Model/Membership.lean)'
JOBS = 8
SNAPS = ['0:100', '0:100,1:101', '0:100,1:101,2:102', '0:100,2:102', '0:100,1:111', '0:100,1:101,2:102,3:103']


def removable(line):
    return line.startswith('mem-snap')     # the subscriber's reads are part of the scenario, not noise


def mk(idx, snaps, sub_at, reads):
    """sub_at: position (number of snapshots published) at which the subscriber is created;
    reads: set of positions after which the subscriber polls; a final read + live check always."""
    lines = ['case %d node' % idx, 'mem-init 0']
    subbed = False
    for i, s in enumerate(snaps):
        if i == sub_at:
            lines.append('mem-sub'); subbed = True
        lines.append('mem-snap ' + s)
        if subbed and i in reads:
            lines.append('mem-read 0')
    if not subbed:
        lines.append('mem-sub')
    lines += ['mem-read 0', 'mem-read 0', 'mem-live 0', 'end']
    return lines


def generate(rng, tier):
    cases, idx = [], 0
    maxlen = dict(quick=3, thorough=5, search=4)[tier]
    for ln in range(1, maxlen + 1):
        for snaps in itertools.product(SNAPS, repeat=ln):
            if tier != 'thorough' and ln == maxlen and rng.below(3) != 0:
                continue
            if tier == 'thorough' and ln == 5 and rng.below(8) != 0:
                continue
            # eager subscriber: from the start, reads after every publication
            cases.append(mk(idx, snaps, 0, set(range(ln)))); idx += 1
            # late subscriber
            cases.append(mk(idx, snaps, rng.range(1, ln), set(range(ln)))); idx += 1
            # slow subscriber: from the start, reads at a random subset of positions
            cases.append(mk(idx, snaps, 0, {i for i in range(ln) if rng.chance(1, 3)})); idx += 1
            if tier == 'thorough' and ln <= 4:
                for sub_at in range(ln + 1):
                    for mask in range(1 << ln):
                        cases.append(mk(idx, snaps, sub_at, {i for i in range(ln) if mask >> i & 1})); idx += 1
    return cases


def explain(v):
    """D9: a subscriber that was not there from the start, or did not read after every publication,
    loses deltas on the latest-value channel.  Only attributed when the committed model agrees with
    the implementation on the whole case."""
    if v['disagree']:
        return None
    case = v['case']
    snaps = [i for i, l in enumerate(case) if l.startswith('mem-snap')]
    sub = [i for i, l in enumerate(case) if l == 'mem-sub'][0]
    late = any(i < sub for i in snaps)
    # slow: two publications without a read in between (after the subscription)
    slow, pending = False, False
    for l in case[sub:]:
        if l.startswith('mem-snap'):
            if pending: slow = True
            pending = True
        elif l.startswith('mem-read'):
            pending = False
    if (late or slow) and all(s[1].startswith('mem-live') for s in v['spec']):
        return 'D9-lossy-delta-channel'
    return None


def nontrivial(case, impl):
    return any('left=' in o and not o.endswith('left=-') for o in impl) or any(l.startswith('mem-snap') and '1:111' in l for l in case)


def stats(verdicts):
    d = {'snapshots': 0, 'reads_with_delta': 0, 'reads_empty': 0, 'live_checks': 0, 'live_mismatch_spec': 0}
    for v in verdicts:
        for l, o in zip(v['case'], v['impl']):
            if l.startswith('mem-snap'): d['snapshots'] += 1
            elif l.startswith('mem-read'):
                d['reads_empty' if o == 'read -' else 'reads_with_delta'] += 1
            elif l.startswith('mem-live'): d['live_checks'] += 1
        d['live_mismatch_spec'] += len(v['spec'])
    return d
