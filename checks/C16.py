"""C16 — membership change events add up to the live membership."""
import itertools
import re

ID = 'C16'
LEAN_MODULES = ['C16', 'C16b']
RULE = ('one case = the real watch_membership_changes task (hook H3) fed with a sequence of membership snapshots over ids 0..3 (joins, leaves, address changes, rejoin; the local node 0 always present), '
        'real tokio watch channel and real MembershipChanges subscriber streams (what membership_changes() returns) created at every position and polled at chosen positions; observed: every delta a subscriber receives and its accumulated '
        'live map at the end, compared with the Lean model and with the specification "live map = other members of the last snapshot"; quick: all snapshot sequences of length <=3 over a 6-snapshot alphabet '
        'x {eager subscriber from the start, late subscriber, slow subscriber}; thorough: length <=5 and all read placements; plus consumer-side cases: the real task distributor of a node (hook) is fed membership changes incl. a second identity at an address already in use (the first one leaving later), an address change delivered as ONE change (same id in left and joined) and must send the next write to exactly the current members; the real replication cycle service (poller; hook) is handed membership changes the same way and node 0 must end up with the documents of exactly the nodes behind its live members; full-stack cases leave and rejoin on real nodes; non-trivial = at least one leave or address change; distinct by hash')
ASSUMPTIONS = ['the membership layer delivers snapshots (states), the watcher republishes each one it has processed and every subscriber stream turns them into deltas against what it handed out last: as in datacake-node/src/lib.rs',
               'tokio::sync::watch keeps only the latest value (modelled as a version + value cell)']
TRUSTED_BASE = ['correspondence: dcharness (real watch_membership_changes + tokio watch + MembershipChanges stream) vs dcdriver (Datacake.Membership model)']
THEOREM_NOTE = 'Datacake.Membership.watchStep / delta / Chan / Sub.poll (Model/Membership.lean); Datacake.Replication.Dist.tick / Poller.cycle / Pipeline.forward (Model/Replication.lean)'
JOBS = 8
SNAPS = ['0:100', '0:100,1:101', '0:100,1:101,2:102', '0:100,2:102', '0:100,1:111', '0:100,1:101,2:102,3:103']


def removable(line):
    return line.startswith('mem-snap')     # the subscriber's reads are part of the scenario, not noise (distributor cases are not shrunk)


def mk(idx, snaps, sub_at, reads):
    """sub_at: position (number of snapshots published) at which the subscriber is created;
    reads: set of positions after which the subscriber polls; a final read + live check always."""
    lines = ['case %d node' % idx, 'mem-init 0']
    subbed = False
    for i, s in enumerate(snaps):
        if i == sub_at:
            lines.append('mem-sub'); subbed = True
        lines.append('mem-snap ' + s)
        if subbed and i in reads:
            lines.append('mem-read 0')
    if not subbed:
        lines.append('mem-sub')
    lines += ['mem-read 0', 'mem-read 0', 'mem-live 0', 'end']
    return lines


def generate(rng, tier):
    cases, idx = [], 0
    maxlen = dict(quick=3, thorough=5, search=4)[tier]
    for ln in range(1, maxlen + 1):
        for snaps in itertools.product(SNAPS, repeat=ln):
            if tier != 'thorough' and ln == maxlen and rng.below(3) != 0:
                continue
            if tier == 'thorough' and ln == 5 and rng.below(8) != 0:
                continue
            # eager subscriber: from the start, reads after every publication
            cases.append(mk(idx, snaps, 0, set(range(ln)))); idx += 1
            # late subscriber
            cases.append(mk(idx, snaps, rng.range(1, ln), set(range(ln)))); idx += 1
            # slow subscriber: from the start, reads at a random subset of positions
            cases.append(mk(idx, snaps, 0, {i for i in range(ln) if rng.chance(1, 3)})); idx += 1
            if tier == 'thorough' and (ln <= 3 or (ln == 4 and rng.below(6) == 0)):
                for sub_at in range(ln + 1):
                    for mask in range(1 << ln):
                        cases.append(mk(idx, snaps, sub_at, {i for i in range(ln) if mask >> i & 1})); idx += 1
    # consumer side: the REAL task distributor of node 0 is fed membership changes (joins, leaves, an address change =
    # the same member id leaving at one address and joining at another IN ONE change, rejoin) and after each one a
    # Consistency::None write is handed to it: it must reach exactly the current members (one batching tick each)
    cases.append(['case %d cluster' % idx, 'nodes 4', 'dist-start 0', 'dist-change 0 - 12@2', 'dist-put 0 1 aa',
                  'dist-change 0 12@2 12@3', 'dist-put 0 2 bb', 'dist-burst 0 1500', 'dist-change 0 - 13@1', 'dist-put 0 4 dd',
                  'dist-change 0 12@3 -', 'dist-put 0 3 cc', 'end']); idx += 1
    cases.append(['case %d cluster' % idx, 'nodes 4', 'dist-start 0', 'dist-change 0 - 12@2,13@3', 'dist-change 0 - 14@2', 'dist-put 0 1 aa',
                  'dist-change 0 12@2 -', 'dist-put 0 2 bb', 'dist-change 0 14@2 -', 'dist-put 0 3 cc', 'end']); idx += 1
    for _ in range(dict(quick=5, thorough=90, search=10)[tier]):
        cases.append(gen_dist(rng.fork(), idx)); idx += 1
    cases.append(['case %d cluster' % idx, 'nodes 4', 'put 1 5 aa', 'put 2 6 bb', 'put 3 7 cc', 'poll-start 0 200', 'poll-change 0 - 11@1,12@2',
                  'poll-change 0 12@2 12@3', 'poll-wait 0 1500', 'read 0', 'end']); idx += 1
    for _ in range(dict(quick=6, thorough=150, search=20)[tier]):
        cases.append(gen_poll(rng.fork(), idx)); idx += 1
    # full stack: two REAL nodes with the real store extension; node 2 leaves (its RPC server stays reachable); once node 1's
    # membership says so, a Consistency::None write of node 1 must not be sent to it any more (about 20 s per case)
    for _ in range(dict(quick=1, thorough=3, search=1)[tier]):
        cases.append(['case %d full' % idx, 'leave', 'end']); idx += 1
    # full stack, the layer BELOW the watcher (chitchat ready set -> membership snapshots): node 2 restarts under the same id at a new
    # address, faster than failure detection; at quiescence node 1's subscriber holds it at the new address and node 1's
    # distributor delivers there (about 30 s per case)
    for _ in range(dict(quick=1, thorough=3, search=1)[tier]):
        cases.append(['case %d full' % idx, 'rejoin', 'end']); idx += 1
    return cases


def gen_dist(rng, idx):
    lines = ['case %d cluster' % idx, 'nodes 4', 'dist-start 0']
    members = {}          # member id -> node index (its address)
    doc = 0
    for _ in range(rng.range(2, 4)):
        k = rng.below(6)
        left, joined = [], []
        free = [x for x in (1, 2, 3) if x not in members.values()]
        if k == 5 and members and len(members) < 4:
            # a peer that came back under a NEW id at the address it had (the old identity is still listed and leaves in a later
            # change - or never): the members are identities, the address stays a target as long as one of them lives there
            at = rng.choice(sorted(members.values())); mid = rng.choice([m for m in (11, 12, 13, 14) if m not in members])
            joined.append('%d@%d' % (mid, at)); members[mid] = at
        elif k == 0 and members and free:                      # address change of a live member, one change
            mid = rng.choice(sorted(members)); new = rng.choice(free)
            left.append('%d@%d' % (mid, members[mid])); joined.append('%d@%d' % (mid, new)); members[mid] = new
        elif k == 1 and members:                             # leave
            mid = rng.choice(sorted(members)); left.append('%d@%d' % (mid, members.pop(mid)))
        elif free:                                           # join (possibly together with a leave of another member)
            mid = rng.choice([m for m in (11, 12, 13, 14) if m not in members]); new = rng.choice(free)
            if members and rng.chance(1, 3):
                other = rng.choice(sorted(members)); left.append('%d@%d' % (other, members.pop(other)))
            joined.append('%d@%d' % (mid, new)); members[mid] = new
        else:
            continue
        if rng.chance(1, 3):
            # a burst of writes fills the distributor's queue right before the membership change arrives
            # (sizes around every plausible queue capacity: a change that bounds the queue and drops what does not fit loses the
            # membership change behind the burst - and nobody sends that change again)
            lines.append('dist-burst 0 %d' % rng.choice([200, 999, 1000, 1001, 1500, 3000, 4095, 4096, 4097, 5000, 10000, 16385, 40000, 70000]))
        lines.append('dist-change 0 %s %s' % (','.join(left) or '-', ','.join(joined) or '-'))
        doc += 1
        lines.append('dist-put 0 %d %02x' % (doc, rng.below(256)))
    lines.append('end')
    return lines


def gen_poll(rng, idx):
    """consumer side, the poller: the REAL replication cycle service of node 0 (hook) is handed membership changes (all within
    its initial wait, so its first tick drains them in order) and then runs a few ticks; node 0 must end up holding the
    documents of exactly the nodes behind the members live after the last change"""
    lines = ['case %d cluster' % idx, 'nodes 4']
    for i in (1, 2, 3):
        for k in range(rng.range(1, 2)):
            lines.append('put %d %d %02x' % (i, 10 * i + k, rng.below(256)))
    lines.append('poll-start 0 %d' % rng.choice([150, 200, 300]))
    members = {}
    for _ in range(rng.range(1, 4)):
        k = rng.below(6)
        left, joined = [], []
        free = [x for x in (1, 2, 3) if x not in members.values()]
        if k == 0 and members and free:                      # address change of a live member delivered as ONE change
            mid = rng.choice(sorted(members)); new = rng.choice(free)
            left.append('%d@%d' % (mid, members[mid])); joined.append('%d@%d' % (mid, new)); members[mid] = new
        elif k == 1 and members:                             # leave
            mid = rng.choice(sorted(members)); left.append('%d@%d' % (mid, members.pop(mid)))
        elif k == 2 and members:                             # leave and rejoin at the same address in one change
            mid = rng.choice(sorted(members)); left.append('%d@%d' % (mid, members[mid])); joined.append('%d@%d' % (mid, members[mid]))
        elif free:                                           # join (possibly together with a leave of another member)
            mid = rng.choice([m for m in (11, 12, 13, 14) if m not in members]); new = rng.choice(free)
            if members and rng.chance(1, 3):
                other = rng.choice(sorted(members)); left.append('%d@%d' % (other, members.pop(other)))
            joined.append('%d@%d' % (mid, new)); members[mid] = new
        else:
            continue
        lines.append('poll-change 0 %s %s' % (','.join(left) or '-', ','.join(joined) or '-'))
    lines += ['poll-wait 0 1500', 'read 0', 'end']
    return lines


def augment(case, impl):
    return [l + ' ts=' + o.split('ts=')[1].split()[0] if l.startswith(('dist-put', 'put ')) and 'ts=' in o else l for l, o in zip(case, impl)]


def canon(line, out):
    if line == 'leave' and out.startswith('full sanity='):
        d = dict(x.split('=') for x in out.split()[1:])
        if d['sanity'] != 'true' or d['left_seen'] != 'true':
            return 'full safe'        # the cluster did not form / the departure was not detected in time: inconclusive
        return 'full safe' if d['delivered_after_leave'] == 'false' else 'full UNSAFE ' + out
    if line in ('leave', 'rejoin') and out.startswith('full not-started'):
        return 'full safe'
    if line == 'rejoin' and out.startswith('full first='):
        d = dict(x.split('=') for x in out.split()[1:])
        if d['first'] != 'true' or d['dead_seen'] != 'true':
            return 'full safe'        # the cluster did not form / the old incarnation was not declared dead in time: inconclusive
        return 'full safe' if d['view'] == 'new' and d['delivered_to_new'] == 'true' else 'full UNSAFE ' + out
    return out.split(' ts=')[0] if line.startswith('dist-put') else out


def oracle(case, impl):
    """distributor cases: a write reaches exactly the nodes at the addresses of the current members"""
    bad = []
    members = {}
    pmembers, docs_at = {}, {}
    for line, out in zip(case, impl):
        t = line.split()
        if t[0] == 'put' and len(t) >= 3 and t[1].isdigit():
            docs_at.setdefault(int(t[1]), []).append(int(t[2]))
        if t[0] == 'poll-change':
            for m in ([] if t[2] == '-' else t[2].split(',')):
                mid, at = m.split('@')
                if pmembers.get(int(mid)) == int(at): del pmembers[int(mid)]
            for m in ([] if t[3] == '-' else t[3].split(',')):
                mid, at = m.split('@'); pmembers[int(mid)] = int(at)
        if t[0] == 'read' and any(l.startswith('poll-start') for l in case) and out.startswith('set E'):
            held = set(int(x.split(':')[0]) for x in out.split(' D ')[0][len('set E '):].split(',') if ':' in x)
            for node, ids in docs_at.items():
                for d in ids:
                    if node in pmembers.values() and d not in held:
                        bad.append('%s: node %d is behind a live member but the poller never fetched its document %d' % (line, node, d))
                    if node not in pmembers.values() and node != int(t[1]) and d in held:
                        bad.append('%s: document %d of node %d was fetched although no live member is at that node' % (line, d, node))
        if line == 'leave' and canon(line, out) != 'full safe':
            bad.append('a member that left is still replicated to by the store\'s distributor (%s)' % out)
        if line == 'rejoin' and canon(line, out) != 'full safe':
            bad.append('a member that came back under a new address is not held / not replicated to at that address at quiescence (%s)' % out)
        if t[0] == 'dist-change':
            for m in ([] if t[2] == '-' else t[2].split(',')):
                mid, at = m.split('@')
                if members.get(int(mid)) == int(at): del members[int(mid)]
            for m in ([] if t[3] == '-' else t[3].split(',')):
                mid, at = m.split('@'); members[int(mid)] = int(at)
        elif t[0] == 'dist-put':
            want = ','.join(str(x) for x in sorted(set(members.values()))) or '-'
            got = out.split(' ts=')[0].replace('recv ', '')
            if got != want:
                bad.append('%s: the write reached nodes %s, the live members are at %s' % (line, got, want))
    return bad


def nontrivial(case, impl):
    # at least one delta with a departure (or address change) was handed to a subscriber
    return any(o.startswith('read') and re.search(r' -[^\]-]', o) for o in impl) or any(l.startswith('mem-snap') and '1:111' in l for l in case)


def stats(verdicts):
    d = {'snapshots': 0, 'reads_with_delta': 0, 'reads_empty': 0, 'live_checks': 0, 'live_mismatch_spec': 0}
    for v in verdicts:
        for l, o in zip(v['case'], v['impl']):
            if l.startswith('mem-snap'): d['snapshots'] += 1
            elif l.startswith('mem-read'):
                d['reads_empty' if o == 'read -' else 'reads_with_delta'] += 1
            elif l.startswith('mem-live'): d['live_checks'] += 1
        d['live_mismatch_spec'] += len(v['spec'])
    return d
