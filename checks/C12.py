"""C12 — RPC delivers exactly the bytes sent; damaged or short frames are rejected."""
import zlib

ID = 'C12'
RULE = ('three streams. (a) byte level, compared with the Lean model: crc32fast::hash vs crc32 on random/structured buffers (every length 0..64, lengths to 4096), and DataView::<T>::using on frames built '
        'from arbitrary bodies for five message types with root sizes 4/8/64/12/..: valid frames, every single-bit flip of small frames, every truncation, extensions, frames with valid CRC but shorter than the '
        'root (incl. the 4-byte frame of the empty body). (b) value level on the implementation: Payload/Status values (empty, nested, up to 1 MiB) a message that is one big Vec<String> (0..5000 elements, around the 16 KiB scratch tier) and narrow types (u8, bool, u16, [u8;3], [u8;5], [u8;7]: roots with alignment 1-2 and odd sizes) through to_view_bytes -> DataView::using -> deserialize_view, '
        'with EVERY single-bit flip (exhaustive up to 2 KiB frames, strided above), every truncation and some extensions of the real frame. (c) end to end over loopback: echo handler and error handler, messages of 1-9 MiB, and bursts of 2-24 concurrent echo requests of up to 200 KB over ONE connection; '
        'frames over the WIRE (rawframe): the frame of a message - intact, truncated anywhere, one bit flipped - sent through the real client, transport and server in 1-4 chunks under an announced content-length that is absent, true or a lie (small, 2^40, 2^60, 2^63): refused unless intact, no handler run on a bad frame, no panic anywhere in the process; CRC-valid frames with 0-33 stray bytes in front of the root for every type (refused unless the root position is aligned). '
        'non-trivial = a case containing both accepted and rejected frames, or a value round trip; distinct by hash')
ASSUMPTIONS = ['since fix D35 no assumption about the position of the root: frames with a matching checksum and 0-33 stray bytes in front of the root are generated for every message type, and refused unless the root position is aligned for the type (checkFrameA)', 'rkyv (de)serialisation is a codec pair with dec(enc v) = v; its layout, alignment and the unchecked cast are outside the Lean model (observed by stream (b), not proved)',
               'crc32fast is modelled bitwise (CRC-32/ISO-HDLC) and tied by stream (a); its SIMD/table implementation is not verified',
               'hyper/h2 over loopback for stream (c)']
TRUSTED_BASE = ['correspondence: dcharness (real crc32fast, DataView::using, to_view_bytes, RpcClient/Server) vs dcdriver (Datacake.Rpc.crc32 / checkFrame)']
THEOREM_NOTE = 'Datacake.Rpc.crc32 / mkFrame / checkFrame (Model/Rpc.lean); theorems frame_roundtrip, single_bit_flip_rejected, short_frame_rejected, value_roundtrip; Datacake.Exchange (Model/Exchange.lean: to_aligned, the archive of Status, server, client); Props/C12b: toAligned_bytes, readRoot_archive, status_reaches_client, exchange_reply, exchange_error, exchange_refused, exchange_unknown'
LEAN_MODULES = ['C12', 'C12b']
JOBS = 8
SEARCH_ROUNDS = 1
TYPES = [('M2', 4), ('M1', 8), ('Big', 64), ('Status', 12), ('Payload', 56)]
ALIGN = {'M2': 4, 'M1': 8, 'Big': 8, 'Status': 4, 'Payload': 8}      # align_of the archived roots (compared with the code by `alignof`)


def hx(b):
    return b.hex() if b else '-'


def frame_of(body):
    return body + zlib.crc32(body).to_bytes(4, 'little')


def rand_bytes(rng, n):
    return bytes(rng.below(256) for _ in range(n))


def gen_case(rng, idx, heavy):
    lines = ['case %d rpc' % idx]
    for _ in range(rng.range(3, 10)):
        k = rng.below(10)
        ty, fixed = rng.choice(TYPES)
        if k == 0:
            n = rng.choice([0, 1, 2, 3, 4, 5, 7, 8, 9, 15, 16, 17, 31, 32, 33, 63, 64, 65, rng.below(300), rng.below(4097)])
            lines.append('crc ' + hx(rand_bytes(rng, n)))
        elif k == 1:
            n = rng.below(65)
            lines.append('crc ' + hx(bytes([rng.choice([0, 0xFF, rng.below(256)])] * n) + bytes([rng.below(256)])))
        elif k in (2, 3):       # valid frame, body at least as long as the root
            body = rand_bytes(rng, fixed + 16 * rng.choice([0, 0, 1, 2, 5, rng.below(20)]))   # root stays 16-aligned, as in every real frame
            lines.append('check %s %d %s' % (ty, fixed, hx(frame_of(body))))
        elif k == 4:            # valid CRC, body shorter than the root
            body = rand_bytes(rng, rng.below(fixed))
            lines.append('check %s %d %s' % (ty, fixed, hx(frame_of(body))))
        elif k == 5:            # single-bit flip of a valid frame
            f = bytearray(frame_of(rand_bytes(rng, fixed + rng.below(40))))
            j = rng.choice([rng.below(len(f)), len(f) - 1 - rng.below(4)])
            f[j] ^= 1 << rng.below(8)
            lines.append('check %s %d %s' % (ty, fixed, hx(bytes(f))))
        elif k == 6:            # truncation / extension
            f = frame_of(rand_bytes(rng, fixed + rng.below(40)))
            if rng.chance(1, 2): f = f[:rng.below(len(f))]
            else: f = f + rand_bytes(rng, rng.range(1, 8))
            lines.append('check %s %d %s' % (ty, fixed, hx(f)))
        elif k == 7:            # tiny frames, incl. [0,0,0,0]
            lines.append('check %s %d %s' % (ty, fixed, hx(rng.choice([b'', b'\x00', b'\x00\x00\x00', b'\x00\x00\x00\x00', b'\x00' * 5, frame_of(b'\x01')]))))
        elif k == 8:
            size = rng.choice([0, 1, 7, 100, 1000, 1900, 5000]) if not heavy else rng.choice([0, 1, 100, 2000, 70000, 1 << 20])
            lines.append('roundtrip %d %d' % (rng.below(1 << 32), size))
            if rng.chance(1, 2):
                lines.append('roundtrip-narrow %s %s' % (rng.choice(['u8', 'bool', 'u16', 'a3', 'a5', 'a7']), hx(bytes([rng.choice([0, 1, 2, 0xFF, rng.below(256)]) for _ in range(5)]))))
            if rng.chance(1, 6):
                n = rng.choice([0, 1, 300, 2047, 2048, 2049, 2100, 5000])
                lines.append('roundtrip-narrow vs %02x%02x' % (n >> 8, n & 255))
            if rng.chance(1, 3):
                lines.append('roundtrip-status %d %s' % (rng.below(5), hx(''.join(rng.choice('ab é/') for _ in range(rng.below(40))).encode())))
            if rng.chance(1, 5):
                # state that must not survive a serialisation: messages with shared pointers, many in a row on one thread
                lines.append('roundtrip-shared %d %d %d' % (rng.below(1 << 40), rng.choice([2, 5, 20, 60]), 1 if rng.chance(1, 4) else 0))
            if rng.chance(1, 2):
                # the archive of Status, byte for byte against the model (inline up to 7 bytes, padding 0-3, long messages)
                n = rng.choice([0, 1, 6, 7, 8, 9, 10, 11, 12, 13, rng.below(40), rng.below(300), rng.choice([4093, 65535, 65536, 70001])])
                msg = ''.join(rng.choice('ab é/\u20ac') for _ in range(n)).encode()[:n].decode('utf-8', 'ignore')
                lines.append('status-bytes %d %s' % (rng.below(5), hx(msg.encode())))
        else:
            if rng.chance(1, 8):
                # many large messages in flight at once over one connection (HTTP/2 flow control cuts frames short mid-body)
                lines.append('echo-burst %d %d %d' % (rng.below(1 << 32), rng.choice([100, 20000, 33000, 40000, 70000, 200000]), rng.choice([2, 8, 16, 24])))
            elif rng.chance(1, 2):
                lines.append('echo %d %d' % (rng.below(1 << 32), rng.choice([0, 3, 500, 40000] if not heavy else [0, 100, 1 << 20])))
            else:
                # short messages, and messages longer than one / several HTTP/2 DATA frames (16 KiB) and than the initial window (64 KiB)
                mlen = rng.below(30) if rng.chance(2, 3) else rng.choice([16000, 16368, 16369, 16384, 20000, 70000, 300000])
                lines.append('fail %d %s' % (rng.below(5), hx(''.join(rng.choice('xyz ü') for _ in range(mlen)).encode())))
    lines.append('end')
    return lines


def generate(rng, tier):
    n = dict(quick=400, thorough=30000, search=1500)[tier]
    cases = [gen_case(rng.fork(), i, heavy=(tier == 'thorough' and i % 50 == 0)) for i in range(n)]
    idx = n
    # exhaustive single-bit flips + truncations of a few small frames, byte level (model and implementation)
    for ty, fixed in TYPES:
        for extra in ([0, 16] if tier == 'quick' else [0, 16, 32, 48, 160]):
            f = frame_of(rand_bytes(rng, fixed + extra))
            lines = ['case %d rpc' % idx, 'check %s %d %s' % (ty, fixed, hx(f))]; idx += 1
            for j in range(len(f)):
                for i in range(8):
                    g = bytearray(f); g[j] ^= 1 << i
                    lines.append('check %s %d %s' % (ty, fixed, hx(bytes(g))))
            for t in range(len(f)):
                lines.append('check %s %d %s' % (ty, fixed, hx(f[:t])))
            lines.append('end'); cases.append(lines)
    # frames with a MATCHING checksum and any number of stray bytes in front of the root (D35): the root is then at a position that
    # is not aligned for it unless that number is a multiple of the type's alignment; plus the alignment table itself
    lines = ['case %d rpc' % idx] + ['alignof %s' % ty for ty, _ in TYPES]; idx += 1
    for ty, fixed in TYPES:
        for extra in (range(0, 34) if tier != 'quick' else [0, 1, 2, 3, 4, 5, 7, 8, 9, 12, 16, 17, 24]):
            lines.append('check %s %d %s' % (ty, fixed, hx(frame_of(rand_bytes(rng, fixed + extra)))))
    lines.append('end'); cases.append(lines)
    # every length 0..64 with every value of the last byte (crc only)
    lens = range(0, 65) if tier != 'quick' else range(0, 65, 7)
    for ln in lens:
        base = rand_bytes(rng, ln)
        lines = ['case %d rpc' % idx]; idx += 1
        for v in (range(256) if tier != 'quick' else range(0, 256, 5)):
            lines.append('crc ' + hx(base + bytes([v])))
        lines.append('end'); cases.append(lines)
    # pointer-width integer fields, within 32 bits (beyond: known finding F3, replayed from findings/)
    base = len(cases)
    for k in range(dict(quick=6, thorough=200, search=20)[tier]):
        cases.append(['case %d rpc' % (base + k), 'wide %d %d' % (rng.choice([0, 1, 255, 65536, 2 ** 32 - 1, rng.below(2 ** 32)]), rng.choice([0, -1, 1, -2 ** 31, 2 ** 31 - 1, rng.below(2 ** 31)])), 'end'])
    # frames over the WIRE (D33): the frame of a message - intact, truncated (below the trailer, below the fixed part, anywhere)
    # or with one bit flipped - arrives in 1-4 chunks under an announced content-length that is absent, true, or a lie (small,
    # huge, 2^63): the reader sizes nothing on the word of the peer; a bad frame is refused, no handler runs, nothing panics.
    # messages beyond the reader's capped reservation (1 MiB announced ahead, D33): they arrive in dozens of DATA frames and the
    # buffer has to grow with them; every byte must come back
    base = len(cases)
    for k, size in enumerate([1 << 20, (1 << 20) + 70000, 1310720, 3 << 20] if tier != 'thorough' else [1 << 20, (1 << 20) + 1, (1 << 20) + 16384, (1 << 20) + 70000, 1310720, 2 << 20, 3 << 20, 5 << 20, 9 << 20]):
        cases.append(['case %d rpc' % (base + k), 'echo %d %d' % (rng.below(1 << 32), size), 'rawframe %d %d none %s actual' % (rng.below(1 << 30), size, rng.choice(['-', '100', '70000,900000'])), 'end'])
    base = len(cases)
    for k in range(dict(quick=40, thorough=1500, search=120)[tier]):
        size = rng.choice([0, 1, 20, 200, 5000])
        flen = 64 + size     # roughly; cut points beyond the end collapse
        mut = rng.choice(['none', 'none', 'trunc:%d' % rng.choice([0, 1, 2, 3, 4, 5, 8, 40, 59, 60, rng.below(flen)]), 'flip:%d' % rng.below(8 * flen)])
        cuts = ','.join(str(c) for c in sorted({rng.choice([1, 2, 3, rng.below(flen), rng.below(flen)]) for _ in range(rng.below(4))})) or '-'
        declared = rng.choice(['-', '-', 'actual', 'actual', str(rng.below(2 * flen)), '1099511627776', '1152921504606846976', '9223372036854775807', '9223372036854775808', '18446744073709551614'])
        cases.append(['case %d rpc' % (base + k), 'rawframe %d %d %s %s %s' % (rng.below(1 << 30), size, mut, cuts, declared), 'end'])
    return cases


def augment(case, impl):
    out = []
    for l, o in zip(case, impl):
        if l.startswith('rawframe') and ' frame=' in o:
            out.append(l + ' frame=' + o.split(' frame=')[1].split()[0])
        else:
            out.append(l)
    return out


def canon(line, out):
    if line.startswith('rawframe'):
        t = out.split(' frame=')[0].split()
        if len(t) >= 2 and t[1] in ('err:2', 'err:3'): t[1] = 'refused'      # an invalid payload, or the transport gave the stream up
        return ' '.join(t)
    # value-level and end-to-end lines have no byte-level model counterpart
    return 'x' if line.split()[0] in ('roundtrip', 'roundtrip-narrow', 'roundtrip-status', 'roundtrip-shared', 'echo', 'echo-burst') else out


def kv(out):
    return dict(x.split('=', 1) for x in out.split() if '=' in x)


def oracle(case, impl):
    bad = []
    for line, out in zip(case, impl):
        t = line.split()
        if out.startswith(('crash', 'panic')):
            bad.append('%s: %s' % (line[:80], out)); continue
        if t[0] == 'check':
            fixed = int(t[2]); f = bytes.fromhex(t[3]) if t[3] != '-' else b''
            valid = len(f) >= 4 and zlib.crc32(f[:-4]).to_bytes(4, 'little') == f[-4:]
            should = valid and len(f) - 4 >= fixed and (len(f) - 4 - fixed) % ALIGN[t[1]] == 0
            if out not in ('ok', 'invalid'): bad.append('%s: %s' % (line[:80], out))
            elif (out == 'ok') != should:
                bad.append('%s: %s, but the frame is %s' % (line[:80], out, 'valid' if should else ('short' if valid else 'damaged')))
        elif t[0] == 'alignof':
            if out != 'align %d' % ALIGN[t[1]]: bad.append('%s: %s, the table of the oracle says %d' % (line, out, ALIGN[t[1]]))
        elif t[0] == 'crc':
            b = bytes.fromhex(t[1]) if t[1] != '-' else b''
            if out != str(zlib.crc32(b)): bad.append('%s: crc %s != %d' % (line[:60], out, zlib.crc32(b)))
        elif t[0] in ('roundtrip', 'roundtrip-narrow', 'roundtrip-status'):
            d = kv(out)
            if d.get('trailer_ok') != 'true' or d.get('same') != 'true':
                bad.append('%s: value did not round-trip: %s' % (line, out))
            if d.get('flips_accepted') != '0': bad.append('%s: %s single-bit corruptions of the frame were accepted' % (line, d.get('flips_accepted')))
            if d.get('truncs_short_accepted') != '0': bad.append('%s: truncations below root+trailer accepted: %s' % (line, out))
        elif t[0] == 'rawframe':
            o = out.split()
            d = kv(out)
            f = bytes.fromhex(d['frame']) if d.get('frame', '-') != '-' else b''
            valid = len(f) >= 4 + 56 and zlib.crc32(f[:-4]).to_bytes(4, 'little') == f[-4:]
            if d.get('panics') != '0': bad.append('%s: %s panic(s) while the frame was read (%s)' % (line, d.get('panics'), o[1]))
            if not valid:
                if d.get('runs') != '0': bad.append('%s: a handler ran on a damaged or short frame' % line)
                if o[1] not in ('err:2', 'err:3'): bad.append('%s: a damaged or short frame was not refused: %s' % (line, o[1]))
            elif o[1] not in ('echo', 'err:2', 'err:3'): bad.append('%s: %s' % (line, o[1]))
        elif t[0] == 'echo':
            if out != 'echo same=true': bad.append('%s: %s' % (line, out))
        elif t[0] == 'echo-burst':
            if out != 'burst %sxsame' % t[3]: bad.append('%s: of %s concurrent requests on one connection: %s' % (line, t[3], out))
        elif t[0] == 'wide':
            if out != 'wide seen=%s %s' % (t[1], t[2]):
                bad.append('wide-fields: the handler observed `%s` for a message with usize/isize fields %s %s' % (out, t[1], t[2]))
        elif t[0] == 'roundtrip-shared':
            if out != 'shared ok=%s bad=0' % t[2]: bad.append('%s: a message with shared pointers did not come back as it was sent: %s' % (line, out))
        elif t[0] == 'fail':
            exp = 'fail %d %s' % (int(t[1]) % 5, t[2])
            if out != exp: bad.append('%s: client saw `%s`, handler returned `%s`' % (line, out, exp))
    return bad


def nontrivial(case, impl):
    outs = [o for l, o in zip(case, impl) if l.startswith('check')]
    return ('ok' in outs and 'invalid' in outs) or any(l.startswith(('roundtrip', 'echo', 'fail')) for l in case)


def stats(verdicts):
    d = {'check_ok': 0, 'check_invalid': 0, 'crc': 0, 'roundtrips': 0, 'frames_bitflipped_impl': 0, 'echo': 0, 'fail': 0, 'max_frame': 0}
    for v in verdicts:
        for l, o in zip(v['case'], v['impl']):
            k = l.split()[0]
            if k == 'check': d['check_' + o] = d.get('check_' + o, 0) + 1
            elif k == 'crc': d['crc'] += 1
            elif k == 'roundtrip-shared':
                d['shared_pointer_messages'] = d.get('shared_pointer_messages', 0) + int(l.split()[2])
            elif k.startswith('roundtrip'):
                d['roundtrips'] += 1
                kvs = kv(o)
                d['frames_bitflipped_impl'] += int(kvs.get('flips', 0)); d['max_frame'] = max(d['max_frame'], int(kvs.get('len', 0)))
            elif k in ('echo', 'fail'): d[k] += 1
    return d


def explain(v):
    """F3 (known finding): rkyv is built with its default `size_32`: pointer-width integers are archived as 32 bits.  A violation is
    attributed to it iff it is confined to `wide` lines whose value does not fit 32 bits."""
    def big(line):
        t = line.split()
        return t[0] == 'wide' and (int(t[1]) >= 2 ** 32 or not -2 ** 31 <= int(t[2]) < 2 ** 31)
    lines = [d[1] for d in v['disagree']] + [m[1] for m in v['spec'] if m[0] >= 0]
    msgs = [m[2] for m in v['spec'] if m[0] < 0]
    if (lines or msgs) and all(big(l) for l in lines) and all(m.startswith('wide-fields') for m in msgs):
        # the oracle messages do not carry their line: accept them only if every `wide` line of the case that fails is a big one
        for l, o in zip(v['case'], v['impl']):
            if l.startswith('wide') and not big(l) and o != 'wide seen=%s %s' % tuple(l.split()[1:3]): return None
        return 'F3-usize-archived-as-32-bits'
    return None
