"""C11 — node clock serialises concurrent callers: no duplicate or regressing stamps."""
from checks.tsutil import *

ID = 'C11'
RULE = ('one case = a real datacake_node::Clock actor on a multi-threaded tokio runtime with the wall clock injected (hook H1), and 1-6 phases; in each phase the wall reading is fixed '
        '(advanced, stalled, or moved BACKWARDS between phases - by any amount, also beyond the drift limit of 4100 s, D34) and 1-32 tasks concurrently make 1-200 calls each, mixing get_time with register_ts of remote stamps around the wall '
        '(behind, at, within/at/beyond the drift); the processed-event log recorded by hook H3 (kind, input, clock after) is replayed event by event through the Lean model (clk-replay), '
        'plus burst cases: a fresh clock on a current-thread runtime with a backlog of 0..2500 enqueued get_time requests (around the queue capacity 1000) when a remote stamp is registered; high-counter cases: remote stamps ahead of the wall (up to exactly the drift limit) with counter 65000..65535 - the back-pressure region and the EXHAUSTED counter - each followed by 1-12 requests, enough to run the clock\'s own counter over u16::MAX (D19); real nodes (realclock): a stamp registered with the clock of one node, then - all logical clocks pinned ahead of the wall - thousands of stamps that differ only in the counter, must become visible through gossip to the clock every other node hands out; ' 'and the python oracle checks the property on what the callers saw: all replies pairwise distinct, each task strictly increasing, every get_time after an accepted register_ts greater than it; '
        'non-trivial = at least 2 tasks and at least one accepted registration; distinct by hash')
ASSUMPTIONS = ['flume channel is FIFO with a single consumer; a oneshot reply reaches the caller that asked (runtime facts, observed here, not proved)',
               'wall clock injected and constant within a phase, so that the log can be replayed exactly']
TRUSTED_BASE = ['correspondence: dcharness (real Clock actor, 2 worker threads) vs dcdriver (Datacake.Ts.send/recv folded over the actor log); hooks H1 (wall clock) and H3 (clock event log)']
THEOREM_NOTE = 'Datacake.Clock.onGet/onRegister/run (Model/Clock.lean) over Datacake.Ts.send/recv; theorems (about Clock.run, the function the driver replays the actor log through) replies_strictly_increasing, per_task_increasing, after_register_greater (no condition on counters; every remote that is not beyond the drift, the limit included - D36), register_takes_effect, onGet_total (a Get is answered whatever the wall clock reads), following_spec, legacy_drops_registration, d19_get_dies_on_drift'
PROCESS_PER_CASE = False
JOBS = 4
SHRINK = False


def gen_case(rng, idx, big):
    base = 117_000_000_000 + rng.below(10 ** 6) * 4
    node_id = rng.below(3)
    lines = ['case %d node' % idx, 'clk-init %d %d' % (node_id, base)]
    wall = base
    mode = rng.below(2)     # 1: remote stamps up to the drift boundary, wall monotone; 0: small offsets, wall may run backwards
    highest = base
    for _ in range(rng.range(1, 6)):
        m = rng.below(6)
        if m == 0: pass
        elif m < 4: wall += rng.choice([4, 1000, 60000]); highest = max(highest, wall)
        elif mode == 0:
            # backwards by any amount - also so far that the clock is more than the drift (4100 s) ahead of the wall (an NTP step,
            # a resumed VM): `send` refuses then, and the actor answers with the stamp following its clock (D34; it used to stop)
            wall = max(0, wall - rng.choice([4, 1000, 1_000_000, 4_100_004, 5_000_000, 8_000_000]))
        tasks = rng.range(1, 32) if big else rng.range(1, 8)
        calls = rng.range(1, 200) if big else rng.range(1, 25)
        lines.append('clk-phase %d %d %d %d %d' % (wall, tasks, calls, rng.below(1 << 40), mode))
    lines += ['clk-done', 'end']
    return lines


def gen_burst(rng, idx):
    """a backlog at and around the capacity of the actor's queue (bounded(1000)) when a remote stamp is registered"""
    base = 117_000_000_000 + rng.below(10 ** 6) * 4
    node_id = rng.below(3)
    n = rng.choice([0, 1, 500, 998, 999, 1000, 1001, 1100, 2500])
    return ['case %d node' % idx, 'clk-init %d %d' % (node_id, base),
            'clk-burst %d %d %d %d' % (node_id, base, n, rng.choice([4, 1000, 60000, 4_000_000])), 'clk-done', 'end']


def gen_high(rng, idx):
    """remote stamps whose counter is in the actor's back-pressure region or EXHAUSTED (u16::MAX), while the logical time is ahead
    of the wall clock, each followed by enough requests to run the clock's own counter over u16::MAX as well (D19: the actor used
    to drop such a registration and to stop at the overflow; it now carries on with the next instant)"""
    base = 117_000_000_000 + rng.below(10 ** 6) * 4
    node_id = rng.below(3)
    lines = ['case %d node' % idx, 'clk-init %d %d' % (node_id, base)]
    wall = base
    if rng.chance(1, 2):
        lines.append('clk-phase %d %d %d %d 0' % (wall, rng.range(1, 3), rng.range(1, 6), rng.below(1 << 40)))
    for _ in range(rng.range(1, 3)):
        ctr = rng.choice([65000, 65520, 65524, 65525, 65526, 65527, 65529, 65530, 65533, 65534, 65535, 65535])
        off = rng.choice([0, 4, 1000, 60000, 4_000_000, DRIFT_MS - 4, DRIFT_MS])
        gets = rng.range(1, 12)
        # (a clock pinned exactly AT the drift limit whose counter values are used up before the wall clock moves carries on with
        # the next instant all the same, D34: no exclusion)
        lines.append('clk-high %d %d %d %d' % (wall, ctr, off, gets))
        if rng.chance(1, 2): wall += rng.choice([4, 1000])
    lines += ['clk-done', 'end']
    return lines


def generate(rng, tier):
    n = dict(quick=120, thorough=12000, search=400)[tier]
    cases = [gen_case(rng.fork(), i, big=(i % 10 == 0)) for i in range(n)]
    nb = dict(quick=12, thorough=800, search=40)[tier]
    nh = dict(quick=40, thorough=3000, search=150)[tier]
    cases = cases + [gen_burst(rng.fork(), n + i) for i in range(nb)] + [gen_high(rng.fork(), n + nb + i) for i in range(nh)]
    # the node has ONE clock: REAL DatacakeNodes (builder + gossip over loopback); a stamp registered with one node's clock travels
    # with its gossip and every other node's user-facing clock gets past it
    for k in ([2] if tier == 'quick' else [2, 3, 4] if tier == 'thorough' else [2]):
        cases.append(['case %d node' % (len(cases)), 'realclock %d' % k, 'end'])
    return cases


def augment(case, impl):
    out = []
    for l, o in zip(case, impl):
        if l.startswith(('clk-phase', 'clk-burst', 'clk-high')) and o.startswith('phase '):
            log = o.split('log=')[1] or '-'
            out.append('clk-replay %s %s' % (l.split()[2] if l.startswith('clk-burst') else l.split()[1], log if log else '-'))
        else:
            out.append(l)
    return out


def canon(line, out):
    if line.startswith('realclock') and out.startswith('realclock start-failed'):
        return 'realclock ok'      # the cluster did not form within the deadline: inconclusive
    if line.startswith(('clk-phase', 'clk-burst', 'clk-high')):
        return 'phase' if out.startswith(('phase ', 'replay ok')) else out
    return out


def oracle(case, impl):
    bad = []
    allg = {}
    own = None
    for line, out in zip(case, impl):
        t = line.split()
        if out.startswith(('crash', 'panic')):
            bad.append('%s: %s' % (line, out)); continue
        if t[0] == 'realclock' and out.startswith('realclock BAD'):
            bad.append('%s: a stamp registered with one node never became visible to the clock another node hands out (%s)' % (line, out))
        if t[0] == 'clk-init': own = int(t[1])
        if t[0] not in ('clk-phase', 'clk-burst', 'clk-high') or not out.startswith('phase '):
            continue
        wall = norm_wall(int(t[2] if t[0] == 'clk-burst' else t[1]))
        tasks = out.split('tasks=')[1].split(' log=')[0]
        for ti, tk in enumerate(tasks.split(';')):
            last_g, regs = None, []
            for item in tk.split(','):
                if not item: continue
                kind, val = item[0], int(item[1:])
                if kind == 'g':
                    if val in allg: bad.append('%s: stamp %d handed out twice (task %d and %s)' % (t[0], val, ti, allg[val]))
                    allg[val] = (line, ti)
                    if last_g is not None and not val > last_g: bad.append('%s: task %d saw %d after %d' % (t[0], ti, val, last_g))
                    last_g = val
                    if node(val) != own: bad.append('%s: reply %d does not carry the node id' % (t[0], val))
                    for r in regs:
                        if not val > r: bad.append('%s: task %d got %d after registering %d' % (t[0], ti, val, r))
                else:
                    # the property: every stamp requested after a remote stamp was registered is greater, unless the remote was
                    # beyond the allowed drift (own-node stamps are not remote).  No exclusion: a remote exactly AT the limit with no
                    # counter value left above it counts too (D36: the clock moves to the instant after it)
                    if node(val) != own and dts(val) <= wall + DRIFT_MS:
                        regs.append(val)
    return bad


def nontrivial(case, impl):
    for l, o in zip(case, impl):
        if l.startswith('clk-phase') and int(l.split()[2]) >= 2 and ',r' in o.replace('=r', ',r'):
            return True
        if l.startswith('clk-burst') and int(l.split()[3]) >= 2:
            return True
        if l.startswith('clk-high'):
            return True
    return False


def stats(verdicts):
    d = {'phases': 0, 'events_replayed': 0, 'gets': 0, 'registers': 0, 'max_tasks': 0}
    for v in verdicts:
        for l, o in zip(v['case'], v['impl']):
            if l.startswith('clk-phase') and o.startswith('phase '):
                d['phases'] += 1; d['max_tasks'] = max(d['max_tasks'], int(l.split()[2]))
                log = o.split('log=')[1]
                ents = [e for e in log.split(',') if e]
                d['events_replayed'] += len(ents)
                d['gets'] += sum(1 for e in ents if e.startswith('0:')); d['registers'] += sum(1 for e in ents if e.startswith('1:'))
    return d
