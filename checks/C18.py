"""C18 — a keyspace has one state, even when first used by many tasks at once."""
ID = 'C18'
RULE = ('one case = a fresh KeyspaceGroup<MemStore> and k in 2..8 tasks that concurrently use a fresh keyspace name for the first time, each as one of the kinds of first user the property names - a client write (get_or_create_keyspace, then one Set through the mailbox received), incoming replication (the real ConsistencyService put handler), plus 0-2 peers asking for the state (the real ReplicationService GetState handler); '
        'on a current_thread runtime each task is delayed by a schedule-chosen number of yield_now before and between its steps (deterministic, replayable from the seed), on 2- and 8-worker runtimes '
        'the scheduler interleaves; afterwards a fresh get_or_create_keyspace + Serialize must contain every acknowledged id (and storage holds them all). quick: all delay bounds 0..3 x k x 40 seeds; '
        'thorough: 20 000 seeds. Plus start-up races on a real node: a replicated write arriving while the store extension is still loading the persisted keyspaces must be refused or end up in the state peers obtain. The model outcome is schedule-independent by theorem one_state; non-trivial = k >= 2 (every case); distinct by hash')
ASSUMPTIONS = ['parking_lot RwLock and the puppet mailbox behave as locks / FIFO channels (runtime facts; the interleavings are produced by the real runtime, the theorem covers all of them)']
TRUSTED_BASE = ['correspondence: dcharness (real KeyspaceGroup::get_or_create_keyspace under tokio current_thread and multi_thread runtimes) vs dcdriver (Datacake.Group machine)']
THEOREM_NOTE = 'Datacake.Group.step / stepN (Model/Group.lean); theorems one_state, same_instance; several names at once (Props/C18b): one_state_each, cow_loses_other_keyspace'
LEAN_MODULES = ['C18', 'C18b']
JOBS = 8
SHRINK = False


def generate(rng, tier):
    n = dict(quick=40, thorough=20000, search=400)[tier]
    cases, idx = [], 0
    for s in range(n):
        lines = ['case %d group' % idx]
        for k in range(2, 9):
            for maxdelay in (0, 1, 3):
                lines.append('race %d %d %d %d' % (k, rng.below(1 << 30), maxdelay, rng.choice([0, 0, 2, 8])))
                # the same with the tasks spread over 2-3 FRESH keyspace names (first uses of different keyspaces overlap)
                lines.append('race %d %d %d %d %d' % (k, rng.below(1 << 30), maxdelay, rng.choice([0, 0, 2, 8]), rng.choice([2, 2, 3])))
        lines.append('end'); cases.append(lines); idx += 1
    # start-up: a peer's replicated write arrives while the store extension of a restarting REAL node is still loading its
    # persisted keyspaces (after the metadata scan, before the state is installed)
    for _ in range(dict(quick=2, thorough=20, search=3)[tier]):
        cases.append(['case %d group' % idx, 'startup-race', 'end']); idx += 1
    return cases


def canon(line, out):
    if line == 'startup-race' and out.startswith('startup ack='):
        d = dict(x.split('=') for x in out.split()[1:])
        return 'startup safe' if (d['ack'] == 'false' or d['visible'] == 'true') else 'startup UNSAFE ' + out
    if line == 'startup-race' and out.startswith(('startup not-started', 'startup store-failed')):
        return 'startup safe'      # the node did not come up: inconclusive
    return out


def oracle(case, impl):
    bad = []
    for line, out in zip(case, impl):
        if line == 'startup-race' and canon(line, out) != 'startup safe':
            bad.append('a write acknowledged while the store was loading its persisted keyspaces is missing from the state peers obtain: the keyspace had two states (%s)' % out)
        if not line.startswith('race'): continue
        if not out.startswith('acked'):
            bad.append('%s: %s' % (line, out)); continue
        t = out.split()
        acked, inset = set(t[1].split(',')) - {'-'}, set(t[3].split(',')) - {'-'}
        if not acked <= inset:
            bad.append('%s: acknowledged operations %s are missing from the keyspace state peers synchronise against (it holds %s)' % (line, sorted(acked - inset, key=int), sorted(inset, key=int)))
    return bad


def nontrivial(case, impl):
    return True


def stats(verdicts):
    d = {'races': 0, 'current_thread': 0, 'multi_thread': 0}
    for v in verdicts:
        for l in v['case']:
            if l.startswith('race'):
                d['races'] += 1
                d['current_thread' if l.split()[4] == '0' else 'multi_thread'] += 1
    return d
