"""C05 — the computed difference is exactly what a replica lacks; one exchange repairs."""
from checks.tsutil import *
from checks.orswotgen import *

ID = 'C05'
LEAN_MODULES = ['C05', 'C05b', 'C05c']
RULE = ('one case = two replicas (OrSWotSet<2>, plus OrSWotSet<1> for the diff itself) built from subsets of a shared list of inserts/deletes with distinct stamps '
        '(<=3 origins, <=5 keys; window or gap-free-prefix construction; boundary gaps), then diff(a,b) [checked against the definition of "lacks" by the python oracle on the dumps '
        'and cut-off probes], the diff applied to a on the repair source in one of: removals-first, modifications-first, 6 seeded interleavings; then diff again (must be empty), '
        'the mirror exchange for b, and equality of the live entries; LWW oracle over the union history when Window holds; '
        'non-trivial = the first diff is non-empty in both lists or the two replicas hold conflicting records; distinct by hash')
ASSUMPTIONS = ['the difference is applied on a source (1) that direct replication (source 0) does not advance during the exchange, as the store does; '
               'for a single-source set the split application needs the window condition (see DESIGN.md C05)',
               'FORGIVENESS_PERIOD = 3600 s; valid stamps; replicas built without purge']
TRUSTED_BASE = ['correspondence: dcharness (real diff / insert_with_source / delete_with_source) vs dcdriver (Datacake.OrSwot.diff model)']
THEOREM_NOTE = 'Datacake.OrSwot.diff / lacks (Model/Orswot.lean); theorems diff_exact, diff_nodup, diff_disjoint, diff_lww, applied_not_lacking_insert; exchange: apply_diff_closes_partial / exchange_converges_partial (window), apply_diff_closes_gapfree / exchange_dominates_gapfree / exchange_converges_gapfree (gap-free prefixes, any time span, two sources), single_source_counterexample'


def gen_case(rng, idx):
    mode = rng.below(3)     # 0: window, 1: gap-free prefixes (per origin ascending), 2: unconstrained (correspondence only)
    pool = StampPool(rng, origins=rng.range(1, 3), window=(mode == 0))
    keys = [1, 2, 3, 4, 5][:rng.range(1, 5)]
    allops = sorted([(rng.choice(['ins', 'ins', 'del']), 0, rng.choice(keys), pool.stamp()) for _ in range(rng.range(2, 12))], key=lambda o: o[3])
    lines = ['case %d orswot 2' % idx]
    for r in (0, 1):
        if mode == 1:
            mine = []
            for nd in pool.origins:
                ops_n = [o for o in allops if node(o[3]) == nd]
                mine += ops_n[:rng.range(0, len(ops_n))]
            mine.sort(key=lambda o: o[3])
        else:
            mine = [o for o in allops if rng.chance(3, 5)]
            if rng.chance(1, 2): mine = rng.shuffle(mine)
        for (kd, src, k, t) in mine:
            lines.append('%s %d %d %d %d' % (kd, r, src, k, t))
        if mode == 2 and rng.chance(1, 2):
            # the replica has heard from an origin, on both sources, more than a forgiveness period later: its cut-off
            # for that origin passes older stamps (what a purge relies on)
            nd = rng.choice(pool.origins)
            far = max(o[3] for o in allops) >> 32
            for src in (0, 1):
                lines.append('ins %d %d %d %d' % (r, src, 90 + src, pack(far * 1000 + rng.choice([F_MS, F_MS + 4, 2 * F_MS]) + 4000, src, nd)))
            if rng.chance(1, 2):
                lines.append('purge %d' % r)
        lines.append('dump %d' % r)
    for nd in pool.origins:
        lines.append('cut 0 %d' % nd)
    lines += ['copy 2 0', 'diff 0 1']
    m = rng.choice([0, 1, 2 + 2 * rng.below(64)])
    lines += ['applydiff 0 1 1 %d' % m, 'tag closed', 'diff 0 1']
    if mode != 2:
        lines += ['lww 0']
    lines += ['applydiff 1 2 1 %d' % rng.choice([0, 1, 2 + 2 * rng.below(64)])]
    lines += ['dump 1', 'dump 2'] + ['cut 1 %d' % nd for nd in pool.origins]
    lines += ['tag closed', 'diff 1 2', 'tag A', 'dump 0', 'tag B', 'dump 1']
    lines.append('mode %d' % mode)
    lines.append('end')
    return lines


def generate(rng, tier):
    n = dict(quick=2500, thorough=400000, search=40000)[tier]
    return [gen_case(rng.fork(), i) for i in range(n)]


def removable(line):
    return line.split()[0] in ('ins', 'del')


def canon(line, out):
    return 'ok' if line.startswith(('tag', 'mode')) else out


def parse_diff(out):
    toks = out.split()
    def pp(s):
        return {} if s == '-' else {int(a): int(b) for a, b in (x.split(':') for x in s.split(','))}
    return pp(toks[1]), pp(toks[3])


def oracle(case, impl):
    bad = []
    mode = int([l for l in case if l.startswith('mode')][0].split()[1]) if any(l.startswith('mode') for l in case) else 2
    dumps, cuts, tag, tagged, fresh = {}, {}, None, {}, set()
    first_diff = None
    for line, out in zip(case, impl):
        t = line.split()
        if out.startswith(('crash', 'panic')):
            bad.append('%s: %s' % (line, out)); continue
        if t[0] == 'dump' and tag is None:
            dumps[t[1]] = parse_dump(out); fresh.add(t[1])
        elif t[0] in ('ins', 'del', 'applydiff', 'purge', 'copy', 'merge'):
            fresh.discard(t[1])
            if t[0] == 'copy': fresh.discard(t[2])
            cuts.pop(t[1], None)
        elif t[0] == 'cut':
            cuts.setdefault(t[1], {})
            if out != 'cut none':
                cuts[t[1]][int(t[2])] = int(out.split()[1])
        elif t[0] == 'tag':
            tag = t[1]
        elif t[0] == 'diff':
            d = parse_diff(out)
            ra, rb = t[1], t[2]
            if first_diff is None:
                first_diff = d
            if True:
                # the definition: listed iff the peer's record is strictly newer than what a holds, or a holds nothing and the stamp is not before a's cut-off
                if ra in fresh and rb in fresh and ra in cuts:
                    (ae, ad), (be, bd) = dumps[ra], dumps[rb]
                    def lacks(k, ts):
                        if k in ae: return ae[k] < ts
                        if k in ad: return ad[k] < ts
                        c = cuts[ra].get(node(ts))
                        return c is None or not ts < c
                    expC = {k: ts for k, ts in be.items() if lacks(k, ts)}
                    expR = {k: ts for k, ts in bd.items() if lacks(k, ts)}
                    if d[0] != expC: bad.append('diff modifications %s, definition gives %s' % (d[0], expC))
                    if d[1] != expR: bad.append('diff removals %s, definition gives %s' % (d[1], expR))
            if tag == 'closed':
                if mode != 2 and (d[0] or d[1]):
                    bad.append('after applying the difference something is still to fetch: %s' % out)
            tag = None
        elif t[0] == 'dump' and tag in ('A', 'B'):
            tagged[tag] = parse_dump(out)[0]; tag = None
    if mode != 2 and 'A' in tagged and 'B' in tagged and tagged['A'] != tagged['B']:
        bad.append('after the exchange the replicas expose different live entries: %s vs %s' % (tagged['A'], tagged['B']))
    return bad


def nontrivial(case, impl):
    for l, o in zip(case, impl):
        if l.startswith('diff'):
            d = parse_diff(o)
            return bool(d[0]) and bool(d[1])
    return False


def stats(verdicts):
    d = {'mode_window': 0, 'mode_gapfree': 0, 'mode_free': 0, 'diff_nonempty': 0, 'items_applied': 0}
    for v in verdicts:
        for l, o in zip(v['case'], v['impl']):
            if l.startswith('mode'):
                d[['mode_window', 'mode_gapfree', 'mode_free'][int(l.split()[1])]] += 1
            if l.startswith('applydiff') and o.startswith('applied'):
                d['items_applied'] += int(o.split()[1].split('/')[1])
        if nontrivial(v['case'], v['impl']): d['diff_nonempty'] += 1
    return d
