"""C06 — a successful write has reached the replicas its consistency level promises."""
import itertools

ID = 'C06'
LEAN_MODULES = ['C06', 'C06b', 'C06c', 'C06d']
RULE = ('one case = 2-4 real nodes over loopback RPC; bulk writes (put_many/del_many shapes: 1-300 documents under one stamp through the real multi_put/multi_del) and, for every operation kind (put, del) and every subset S of the other nodes standing for the replicas the level selected (sizes 0..n-1: None, One, Two, Three, '
        'quorum-sized, All), every subset of S is made unable to acknowledge (its next storage mutation fails, or it has crashed and refuses connections while still selected, or - separate stream - it stays SILENT: its storage call writes and never returns, and the call must still come back with the consistency error within the advertised timeout), the write is issued through the real handle_consistency_distribution, and immediately afterwards '
        'Storage::get is called on the issuer and on every selected node. Checked: Ok => the document (or a newer record) is readable from the issuer and from EVERY selected node; otherwise the error is '
        'ConsistencyFailure{responses = number that acknowledged, required = |S|}, and the local write is in place. Also a prior newer write on a replica (will_apply = false => acknowledged without a storage call). '
        '"Still replicated later": writes handed to the REAL task distributor of the issuer after a member went silent (each tick then lasts until the 10 s deadline of its requests) must reach every member that answers; the repair cycle of a healthy node whose first member is the silent one must still fetch from the issuer; a member that came back under a second identity at its address keeps receiving once the first identity has left. '
        'non-trivial = at least one failing replica and at least one acknowledging one; distinct by hash. Selection of S for a level is C15\'s business.')
ASSUMPTIONS = ['the replicas a level requires are chosen by the node selector (C15: select_sound gives distinct, live, non-local, enough); here S is given',
               'a silent replica is one whose storage call never returns; a silent NETWORK (black-holed connection) takes the same path in handle_consistency_distribution - the deadline is on the whole distribution, not per transport']
TRUSTED_BASE = ['correspondence: dcharness (real ConsistencyClient/ConsistencyService + handle_consistency_distribution via hook H2) vs dcdriver (Datacake.Cluster model)']
THEOREM_NOTE = 'Datacake.Cluster.applyAt and the wput/wdel step of the driver (Model/Cluster.lean); Cluster.write / replicateAll / distribute is what the driver executes for wput/wdel/wmput/wmdel; theorems ok_means_stored, distribute_spec, distribute_replies, silent_is_counted_out, legacy_blocks, and about the executed function itself (Props/C06b): replicateAll_spec, write_spec; the later replication (Props/C06c, about Cluster.broadcast = a distributor tick): broadcast_reaches_responsive, broadcastAll_step, legacy_broadcast_blocks'
JOBS = 6
SHRINK = False


def augment(case, impl):
    out = []
    for l, o in zip(case, impl):
        if l.split()[0] in ('put', 'del', 'mput', 'mdel', 'wput', 'wdel', 'wmput', 'wmdel', 'dist-put') and 'ts=' in o:
            out.append(l + ' ts=' + o.split('ts=')[1].split()[0])
        else:
            out.append(l)
    return out


def generate(rng, tier):
    cases, idx = [], 0
    for n in (2, 3, 4):
        others = list(range(1, n))
        for k in range(0, n):
            for S in itertools.combinations(others, k):
                for fk in range(0, len(S) + 1):
                    for failing in itertools.combinations(S, fk):
                        for kind in ('wput', 'wdel'):
                            if tier == 'quick' and n == 4 and rng.below(3) != 0: continue
                            lines = ['case %d cluster' % idx, 'nodes %d' % n]
                            doc_id = 5
                            if kind == 'wdel' or rng.chance(1, 3):
                                lines.append('put 0 %d aa' % doc_id)
                                for j in others:
                                    if rng.chance(1, 2): lines.append('deliver %d 0' % j)
                            newer = None
                            if S and rng.chance(1, 4):
                                newer = rng.choice(S)   # this replica will later be overtaken? no: give it a NEWER record first
                            # a failing replica either cannot store (storage error behind a live server) or has crashed (connection refused)
                            for j in failing: lines.append(('failnext %d' if rng.chance(1, 2) else 'unreach %d') % j)
                            tg = ','.join(map(str, S)) or '-'
                            lines.append('%s 0 %s %d%s' % (kind, tg, doc_id, ' bb' if kind == 'wput' else ''))
                            lines.append('get 0 %d' % doc_id); lines.append('read 0')
                            for j in others:
                                lines.append('get %d %d' % (j, doc_id)); lines.append('read %d' % j)
                            for j in failing: lines.append('clearfail %d' % j); lines.append('reach %d' % j)
                            lines.append('sel %s fail %s' % (tg, ','.join(map(str, failing)) or '-'))
                            lines.append('end'); cases.append(lines); idx += 1
    # bulk writes (put_many / del_many): batches of 1..300 documents under one stamp, through the real client's multi_put /
    # multi_del to the replicas the level selected; sizes around 128/256 (chunk boundaries a client could introduce)
    for _ in range(dict(quick=24, thorough=600, search=120)[tier]):
        n = rng.range(2, 4)
        others = list(range(1, n))
        S = [j for j in others if rng.chance(2, 3)]
        failing = [j for j in S if rng.chance(1, 5)]
        count = rng.choice([1, 2, 5, 127, 128, 129, 130, 256, 257, 300])
        first = rng.choice([1, 1000])
        kind = rng.choice(['wmput', 'wmput', 'wmdel'])
        lines = ['case %d cluster' % idx, 'nodes %d' % n]
        if kind == 'wmdel':
            lines.append('wmput 0 %s %d %d aa' % (','.join(map(str, others)), first, count))
        for j in failing: lines.append(('failnext %d' if rng.chance(1, 2) else 'unreach %d') % j)
        tg = ','.join(map(str, S)) or '-'
        lines.append('%s 0 %s %d %d%s' % (kind, tg, first, count, ' bb' if kind == 'wmput' else ''))
        lines.append('read 0')
        for j in others: lines.append('read %d' % j)
        for j in failing: lines.append('clearfail %d' % j); lines.append('reach %d' % j)
        lines.append('sel %s fail %s' % (tg, ','.join(map(str, failing)) or '-'))
        lines.append('end'); cases.append(lines); idx += 1
    # replicas that do not ANSWER (D18): the storage call of a selected replica performs the write and never returns (wedged
    # disk, frozen process, black-holed connection). The call must still return - the consistency error with the count of the
    # others - within the advertised timeout (2 s); the harness gives up after 8 s and prints `blocked`.
    hang_cases = []
    for n in (2, 3, 4):
        others = list(range(1, n))
        for k in range(1, n):
            for S in itertools.combinations(others, k):
                for hung in S:
                    rest = [j for j in S if j != hung]
                    for failing in ([()] + [(j,) for j in rest]):
                        for kind in ('wput', 'wdel', 'wmput'):
                            lines = ['nodes %d' % n]
                            if kind == 'wdel':
                                lines.append('put 0 5 aa')
                                for j in others: lines.append('deliver %d 0' % j)
                            lines.append('hangnext %d' % hung)
                            for j in failing: lines.append(('failnext %d' if rng.chance(1, 2) else 'unreach %d') % j)
                            tg = ','.join(map(str, S))
                            if kind == 'wmput': lines.append('wmput 0 %s 5 3 bb' % tg)
                            else: lines.append('%s 0 %s 5%s' % (kind, tg, ' bb' if kind == 'wput' else ''))
                            lines.append('get 0 5'); lines.append('read 0')
                            for j in others:
                                lines.append('get %d 5' % j)
                                if j != hung: lines.append('read %d' % j)
                            lines.append('sel %s fail %s hung %d' % (tg, ','.join(map(str, failing)) or '-', hung))
                            lines.append('end'); hang_cases.append(lines)
    hang_cases = rng.shuffle(hang_cases)[:dict(quick=18, thorough=len(hang_cases), search=40)[tier]]
    for lines in hang_cases:
        cases.append(['case %d cluster' % idx] + lines); idx += 1
    # "...and still replicated later" (D32): a write that failed its level because a replica stayed silent - and every write
    # after it - still travels to the other nodes: through the task distributor of the issuer (its batch tick must not wait
    # for the silent member for ever) and through the repair cycle of the others (their poll of the silent member must end).
    later = []
    for n in (3, 4):
        for hung in range(1, n):
            members = ','.join('%d@%d' % (10 + j, j) for j in range(1, n))
            for first in ('wput', 'dist'):
                lines = ['nodes %d' % n, 'dist-start 0', 'dist-change 0 - %s' % members, 'hangnext %d' % hung]
                if first == 'wput':
                    lines += ['wput 0 %d 5 bb' % hung, 'get 0 5']
                lines += ['dist-put 0 6 cc', 'dist-put 0 7 dd late', 'dist-put 0 8 ee late']      # every tick with a silent member lasts until the deadline of its requests
                for j in range(1, n):
                    if j != hung: lines += ['get %d 7' % j, 'read %d' % j]
                lines.append('end'); later.append(lines)
            # the repair cycle of a healthy node: the silent member has the smaller id and is polled first
            other = [j for j in range(1, n) if j != hung][0]
            lines = ['nodes %d' % n, 'hangnext %d' % hung, 'wput 0 %d 5 bb' % hung, 'put 0 6 cc',
                     'poll-start %d 300' % other, 'poll-change %d - %d@%d,%d@0' % (other, 3, hung, 9), 'poll-wait %d 13500' % other,
                     'get %d 6' % other, 'read %d' % other, 'end']
            later.append(lines)
    later = rng.shuffle(later)[:dict(quick=4, thorough=len(later), search=6)[tier]]
    # a member that came back under a new identity at the address it had: once the old identity has left, later writes still go there
    later.append(['nodes 3', 'dist-start 0', 'dist-change 0 - 11@1,12@2', 'dist-change 0 - 14@2', 'dist-put 0 6 cc', 'dist-change 0 12@2 -',
                  'dist-put 0 7 dd', 'get 2 7', 'read 2', 'end'])
    for lines in later:
        cases.append(['case %d cluster' % idx] + lines); idx += 1
    # random multi-step cases
    for _ in range(dict(quick=60, thorough=3000, search=600)[tier]):
        n = rng.range(2, 4)
        lines = ['case %d cluster' % idx, 'nodes %d' % n]
        for _ in range(rng.range(1, 6)):
            i = rng.below(n)
            S = [j for j in range(n) if j != i and rng.chance(1, 2)]
            for j in S:
                k = rng.below(8)
                if k < 2: lines.append('failnext %d' % j)
                elif k == 2: lines.append('unreach %d' % j)     # crashed replica, still selected
            doc_id = rng.choice([1, 2])
            kind = rng.choice(['wput', 'wput', 'wdel'])
            lines.append('%s %d %s %d%s' % (kind, i, ','.join(map(str, S)) or '-', doc_id, ' %02x' % rng.below(256) if kind == 'wput' else ''))
            for j in range(n):
                lines.append('get %d %d' % (j, doc_id)); lines.append('read %d' % j)
            for j in range(n): lines.append('clearfail %d' % j); lines.append('reach %d' % j)
        lines.append('end'); cases.append(lines); idx += 1
    # the write path WITH the selector and its cache, on real nodes (full stack): node 1 writes at Consistency::All all the time
    # while node 3 joins; every write issued after node 1 was told of node 3 and acknowledged must be on node 3 at once
    # (C06d: the replicas of a write are the selection for the membership of the moment)
    for _ in range(dict(quick=2, thorough=12, search=3)[tier]):
        cases.append(['case %d full' % idx, 'joinwrite', 'end']); idx += 1
    return cases


def canon(line, out):
    if line == 'joinwrite':
        if out.startswith('full not-started'): return 'full ok'       # the cluster did not form: inconclusive
        if out.startswith('full join_seen='):
            d = dict(x.split('=') for x in out.split()[1:])
            return 'full ok' if (d['join_seen'] == 'false' or d['missing'] == '0') else 'full UNSAFE ' + out
    if line.startswith('dist-put'): return out.split(' ts=')[0]
    return 'x' if line.startswith('sel ') else out


def oracle(case, impl):
    bad = []
    i = 0
    while i < len(case):
        line, out = case[i], impl[i]
        t = line.split()
        if out.startswith(('crash', 'panic', 'timeout')):
            bad.append('%s: %s' % (line, out))
        if line == 'joinwrite' and canon(line, out) != 'full ok':
            bad.append('writes at Consistency::All returned Ok although a live member node 1 had been told of did not hold them (%s)' % out)
        if t[0] == 'dist-put' and out.startswith('recv'):
            # replicated later: every member whose storage answers must hold the write after the batch tick
            silent = {int(l.split()[1]) for l in case[:i] if l.startswith('hangnext')}
            ident = {}          # member identity -> the node (address) it lives at
            for l in case[:i]:
                if l.startswith('dist-change'):
                    g = l.split()
                    for x in ([] if g[2] == '-' else g[2].split(',')):
                        if ident.get(int(x.split('@')[0])) == int(x.split('@')[1]): del ident[int(x.split('@')[0])]
                    for x in ([] if g[3] == '-' else g[3].split(',')): ident[int(x.split('@')[0])] = int(x.split('@')[1])
            members = set(ident.values())
            got = set() if out.split()[1] == '-' else {int(x) for x in out.split()[1].split(',')}
            if (members - silent) - got:
                bad.append('%s: the write never reached the responsive member(s) %s: not replicated later%s' % (line, sorted((members - silent) - got), (' while member %s stays silent' % sorted(silent)) if silent else ''))
        if t[0] == 'poll-wait' and any(l.startswith('hangnext') for l in case[:i]):
            # the repair cycle of a healthy node went round: what the issuer wrote locally is now readable there
            j = int(t[1])
            for k in range(i + 1, len(case)):
                g = case[k].split()
                if g[0] == 'get' and int(g[1]) == j and not impl[k].startswith('doc'):
                    bad.append('%s: node %d never fetched document %s from the issuer: its repair cycle is stuck behind the silent member' % (line, j, g[2]))
        if t[0] in ('wput', 'wdel') and 'ts=' in out:
            issuer = int(t[1]); S = [] if t[2] == '-' else [int(x) for x in t[2].split(',')]
            doc_id = int(t[3]); ts = int(out.split('ts=')[1].split()[0])
            gets, rows = {}, {}
            j = i + 1
            while j < len(case) and case[j].split()[0] in ('get', 'read'):
                g = case[j].split()
                if g[0] == 'get' and int(g[2]) == doc_id: gets[int(g[1])] = impl[j]
                if g[0] == 'read' and ' | store ' in impl[j]:
                    st = impl[j].split(' | store ')[1].split(' | docs ')[0]
                    rows[int(g[1])] = {} if st == '-' else {int(r.split(':')[0]): (int(r.split(':')[1]), r.split(':')[2] == 't') for r in st.split(',')}
                j += 1
            mine = 2 * ts + (1 if t[0] == 'wput' else 0)      # rank of the mutation (Spec/Lww: live beats a tombstone of equal stamp)
            def has(node):
                """the mutation, or a newer record for the same id, is readable from storage on `node`"""
                if node not in rows: return True
                r = rows[node].get(doc_id)
                if r is None: return False
                rank = 2 * r[0] + (0 if r[1] else 1)
                if rank < mine: return False
                if rank == mine and t[0] == 'wput':
                    return gets.get(node, 'doc').startswith('doc')
                return True
            if not has(issuer): bad.append('%s: the local write is not in place on the issuer (%s)' % (line, gets.get(issuer)))
            if out.startswith('ok'):
                for s in S:
                    if not has(s): bad.append('%s returned Ok but replica %d does not hold the mutation (%s)' % (line, s, gets.get(s)))
            elif out.startswith('consistency'):
                a, b = out.split()[1].split('/')
                if int(b) != len(S): bad.append('%s: required=%s but %d replicas were selected' % (line, b, len(S)))
                holding = sum(1 for s in S if has(s))
                if int(a) > holding: bad.append('%s: reports %s acknowledgements but only %d replicas hold the mutation' % (line, a, holding))
                if int(a) >= len(S) and S: bad.append('%s: error although every replica acknowledged' % line)
            else:
                bad.append('%s: %s' % (line, out))
        if t[0] in ('wmput', 'wmdel') and 'ts=' in out and any(l.startswith('sel ') for l in case[i:]):
            # the bulk write under test (the one followed by reads and the `sel` line)
            issuer = int(t[1]); S = [] if t[2] == '-' else [int(x) for x in t[2].split(',')]
            first, count = int(t[3]), int(t[4]); ts = int(out.split('ts=')[1].split()[0])
            mine = 2 * ts + (1 if t[0] == 'wmput' else 0)
            rows = {}
            j = i + 1
            while j < len(case) and case[j].split()[0] == 'read':
                g = case[j].split()
                if ' | store ' in impl[j]:
                    st = impl[j].split(' | store ')[1].split(' | docs ')[0]
                    rows[int(g[1])] = {} if st == '-' else {int(r.split(':')[0]): (int(r.split(':')[1]), r.split(':')[2] == 't') for r in st.split(',')}
                j += 1
            def missing(node):
                if node not in rows: return []
                out_ = []
                for d in range(first, first + count):
                    r = rows[node].get(d)
                    if r is None or 2 * r[0] + (0 if r[1] else 1) < mine: out_.append(d)
                return out_
            if j > i + 1 and case[j - 1].split()[0] == 'read':
                if missing(issuer): bad.append('%s: the local write is not in place on the issuer: ids %s' % (line, missing(issuer)[:5]))
                if out.startswith('ok'):
                    for sn in S:
                        if missing(sn): bad.append('%s returned Ok but replica %d does not hold ids %s of the batch' % (line, sn, missing(sn)[:5]))
                elif out.startswith('consistency'):
                    a, b = out.split()[1].split('/')
                    if int(b) != len(S): bad.append('%s: required=%s but %d replicas were selected' % (line, b, len(S)))
                    holding = sum(1 for sn in S if not missing(sn))
                    if int(a) > holding: bad.append('%s: reports %s acknowledgements but only %d replicas hold the whole batch' % (line, a, holding))
                else:
                    bad.append('%s: %s' % (line, out))
        i += 1
    return bad


def nontrivial(case, impl):
    return any(o.startswith('consistency') and not o.startswith('consistency 0/') for o in impl) or any(l.startswith(('failnext', 'unreach', 'hangnext', 'joinwrite')) for l in case)


def stats(verdicts):
    d = {'writes_ok': 0, 'writes_consistency_error': 0, 'gets': 0}
    for v in verdicts:
        for l, o in zip(v['case'], v['impl']):
            if l.startswith(('wput', 'wdel', 'wmput', 'wmdel')):
                d['writes_ok' if o.startswith('ok') else 'writes_consistency_error'] += 1
                lvl = 'replicas_%d' % (0 if l.split()[2] == '-' else len(l.split()[2].split(',')))
                d[lvl] = d.get(lvl, 0) + 1
            elif l.startswith('get'): d['gets'] += 1
            elif l.startswith('unreach'): d['replica_crashed'] = d.get('replica_crashed', 0) + 1
            elif l.startswith('failnext'): d['replica_storage_failure'] = d.get('replica_storage_failure', 0) + 1
            elif l.startswith('hangnext'): d['replica_silent'] = d.get('replica_silent', 0) + 1
    return d
