"""C10 — timestamp encoding is lossless and order-preserving; parsing never panics."""
from checks.tsutil import *

ID = 'C10'
RULE = ('one case = up to 40 pure calls: fields/newf/rt/archive/cmp on boundary grids (secs in {0,1,2^32-2,2^32-1}, frac in {0,1,248,249}, '
        'ctr in {0,1,0xFFFE,0xFFFF}, node in {0,1,254,255}; exhaustive in the thorough tier) and random u64, and parse on generated text: '
        'valid displays, each field +-1 out of range, fractional 250-255, +/- signs, hex case, missing/extra dashes, empty fields, '
        '20-digit numbers, non-ASCII, random printable; non-trivial = the case contains at least one accepted and one rejected parse, '
        'or a grid/roundtrip call; distinct by hash')
ASSUMPTIONS = ['Rust integer parsers (u64/u8::from_str, u16::from_str_radix) behave as modelled by parseUnsigned (tied by the differential run)',
               'rkyv archives a u64 newtype as 8 little-endian bytes (tied by the differential run)']
TRUSTED_BASE = ['correspondence: dcharness (real accessors, Display, FromStr, rkyv archive + cast) vs dcdriver (Datacake.Ts model)']
THEOREM_NOTE = 'Datacake.Ts.pack/accessors/display/fromStr (Model/Timestamp.lean); theorems fields_roundtrip, repack, archive_roundtrip, ts_order_lex, display_parse, parse_total'
EXHAUSTIVE = {'thorough': True}

SECS = [0, 1, 2 ** 32 - 2, 2 ** 32 - 1]
FRAC = [0, 1, 248, 249]
CTR = [0, 1, 0xFFFE, 0xFFFF]
NODE = [0, 1, 254, 255]


def hx(s):
    b = s.encode('utf-8')
    return b.hex() if b else '-'


def disp(t):
    return '%d-%04d-%04X-%04d' % (seconds(t), fractional(t), counter(t), node(t))


def rand_ts(rng):
    return (rng.choice(SECS + [rng.below(2 ** 32)]) << 32) | (rng.choice(FRAC + [rng.below(250)]) << 24) | \
           (rng.choice(CTR + [rng.below(65536)]) << 8) | rng.choice(NODE + [rng.below(256)])


def gen_text(rng):
    k = rng.below(16)
    secs = rng.choice(SECS + [2 ** 32, 2 ** 32 + 1, 2 ** 64 - 1, 2 ** 64, 10 ** 19, 10 ** 20, rng.below(2 ** 33), 117000000])
    frac = rng.choice(FRAC + [250, 251, 255, 256, 1000, rng.below(300)])
    ctr = rng.choice(CTR + [0x10000, rng.below(70000)])
    nd = rng.choice(NODE + [256, 999, rng.below(300)])
    fs = ['%d' % secs, '%04d' % frac, '%04X' % ctr, '%04d' % nd]
    if k == 0: pass
    elif k == 1: fs[rng.below(4)] = '+' + fs[rng.below(4)]
    elif k == 2: fs[rng.below(4)] = '-' + fs[rng.below(4)]
    elif k == 3: fs[2] = fs[2].lower()
    elif k == 4: fs = fs[:rng.range(0, 3)]
    elif k == 5: fs.append(rng.choice(['', '5', '-']))
    elif k == 6: fs[rng.below(4)] = ''
    elif k == 7: fs[rng.below(4)] = rng.choice([' 1', '1 ', '0x1', '1_0', '١', 'é', '1e3', '+', '-', '++1', '+-1', 'G', 'g'])
    elif k == 8: fs = ['%d' % rng.below(2 ** 32), '%d' % rng.below(250), '%x' % rng.below(65536), '%d' % rng.below(256)]
    elif k == 9: fs[0] = '0' * rng.range(1, 25) + fs[0]
    elif k == 10: fs[2] = '0' * rng.range(1, 8) + fs[2]
    elif k == 11:
        return ''.join(rng.choice('0123456789-+AFaf é١') for _ in range(rng.range(0, 24)))
    elif k == 12:
        return disp(rand_ts(rng))
    elif k == 13:
        fs = [str(2 ** 64 - 1), str(rng.range(250, 255)), 'FFFF', '255']
    elif k == 14:
        fs = [str(2 ** 32 - 1), str(rng.choice([249, 250, 255])), 'ffff', '255']
    return '-'.join(fs)


def gen_case(rng, idx):
    lines = ['case %d ts' % idx]
    for _ in range(rng.range(5, 40)):
        k = rng.below(10)
        if k < 4:
            lines.append('parse ' + hx(gen_text(rng)))
        elif k == 4:
            lines.append('fields %d' % rng.choice([rand_ts(rng), rng.below(2 ** 64)]))
        elif k == 5:
            lines.append('rt %d' % rng.choice([rand_ts(rng), rng.below(2 ** 64)]))
        elif k == 6:
            lines.append('newf %d %d %d %d' % (rng.choice(SECS + [2 ** 32, 2 ** 64 - 1, rng.below(2 ** 32)]), rng.choice(FRAC + [250, 255, rng.below(256)]), rng.choice(CTR), rng.choice(NODE)))
        elif k == 7:
            lines.append('archive %d' % rng.choice([rand_ts(rng), rng.below(2 ** 64)]))
        elif k == 8:
            a = rand_ts(rng)
            b = rng.choice([a, a ^ (1 << rng.below(64)), rand_ts(rng)])
            lines.append('cmp %d %d' % (a, b))
        else:
            lines.append('display %d' % rng.choice([rand_ts(rng), rng.below(2 ** 64)]))
    lines.append('end')
    return lines


def generate(rng, tier):
    n = dict(quick=2500, thorough=600000, search=40000)[tier]
    cases = [gen_case(rng.fork(), i) for i in range(n)]
    # boundary grid: exhaustive over 4^4 field combinations (all tiers), all pairs for ordering (thorough)
    grid = [(s, f, c, nd) for s in SECS for f in FRAC for c in CTR for nd in NODE]
    idx = n
    for i in range(0, len(grid), 8):
        lines = ['case %d ts' % idx]; idx += 1
        for (s, f, c, nd) in grid[i:i + 8]:
            t = (s << 32) | (f << 24) | (c << 8) | nd
            lines += ['newf %d %d %d %d' % (s, f, c, nd), 'fields %d' % t, 'rt %d' % t, 'archive %d' % t, 'display %d' % t,
                      'parse ' + hx(disp(t))]
        lines.append('end'); cases.append(lines)
    packed = [(s << 32) | (f << 24) | (c << 8) | nd for (s, f, c, nd) in grid]
    pairs = [(a, b) for a in packed for b in packed] if tier != 'quick' else [(rng.choice(packed), rng.choice(packed)) for _ in range(4000)]
    for i in range(0, len(pairs), 64):
        cases.append(['case %d ts' % idx] + ['cmp %d %d' % p for p in pairs[i:i + 64]] + ['end']); idx += 1
    return cases


def valid(t):
    return t < 2 ** 64 and fractional(t) < 250


def oracle(case, impl):
    bad = []
    for line, out in zip(case, impl):
        t = line.split()
        if out.startswith('crash'):
            bad.append('%s: harness crashed (%s)' % (line, out)); continue
        if t[0] == 'parse':
            if out == 'panic':
                bad.append('parse of %r panicked' % bytes.fromhex(t[1] if t[1] != '-' else '').decode('utf-8'))
            elif out.startswith('ok'):
                v = int(out.split()[1])
                if not 0 <= v < 2 ** 64: bad.append('%s: parser returned something that is not a 64-bit timestamp: %d' % (line, v))
        elif t[0] == 'rt':
            v = int(t[1])
            if valid(v) and out != 'ok %d' % v:
                bad.append('rt %d: print-then-parse gave %s' % (v, out))
            if out == 'panic': bad.append('rt %d: panicked' % v)
        elif t[0] == 'newf':
            s, f, c, nd = map(int, t[1:])
            if s < 2 ** 32 and f < 250:
                exp = '%d %d %d %d %d' % (s, f, c, nd, (s << 32) | (f << 24) | (c << 8) | nd)
                if out != exp: bad.append('%s: accessors returned %s, expected %s' % (line, out, exp))
        elif t[0] == 'archive':
            v = int(t[1])
            if out.split()[-1] != str(v): bad.append('%s: archived form casts back to %s' % (line, out))
        elif t[0] == 'cmp':
            a, b = int(t[1]), int(t[2])
            ka = (seconds(a), fractional(a), counter(a), node(a)); kb = (seconds(b), fractional(b), counter(b), node(b))
            exp = 'lt' if ka < kb else ('eq' if ka == kb else 'gt')
            if out != exp: bad.append('%s: comparison %s, lexicographic field order says %s' % (line, out, exp))
    return bad


def nontrivial(case, impl):
    acc = any(l.startswith('parse') and o.startswith('ok') for l, o in zip(case, impl))
    rej = any(l.startswith('parse') and not o.startswith('ok') for l, o in zip(case, impl))
    other = any(l.split()[0] in ('newf', 'rt', 'cmp', 'archive') for l in case)
    return (acc and rej) or other


def stats(verdicts):
    d = {}
    for v in verdicts:
        for l, o in zip(v['case'], v['impl']):
            k = l.split()[0]
            key = k + ':' + (o.split()[0] if k in ('parse', 'rt', 'cmp') else 'out')
            d[key] = d.get(key, 0) + 1
    return d
