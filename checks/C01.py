"""C01 — the cluster converges: every node ends with the same last-writer-wins documents."""
import itertools

ID = 'C01'
LEAN_MODULES = ['C01', 'C01b', 'C01c', 'C01d', 'C01e', 'C01f', 'C01g']
RULE = ('one case = 2-4 REAL nodes (KeyspaceGroup + MemStore + Clock + datacake_rpc Server with the real ConsistencyService and ReplicationService on loopback; no chitchat), 3-25 events: client put/del/put_many/del_many '
        'applied locally exactly as ReplicatedStoreHandle does (stamps from the real clocks are fed to the model), their replication messages delivered / dropped / duplicated / reordered / batched through the real RPC clients, '
        'purges, late deliveries, anti-entropy exchanges in the middle of the history (so that later polls meet trackers); then - after the last operation - every ordered pair (j,i) completes one anti-entropy exchange (real poll_keyspace -> get_state -> Diff -> handle_removals / handle_modified with fetch_docs) '
        '(a third of the cases spread the operations over two or three keyspaces of the nodes: one exchange covers them all) in a random order of pairs, with the two halves in either order or concurrent (production path), interleaved with further late deliveries. After every event each touched node is read (set, metadata, documents) and '
        'compared with the Lean cluster model; at the end every node must return exactly the LWW documents of all issued operations (Lean oracle `lww`). quick: 150 schedules + all exchange orders for 3 nodes on 6 base '
        'histories; non-trivial = at least one message lost or reordered and at least one conflict on an id; distinct by hash')
ASSUMPTIONS = ['the background timers (1 s batching, repair interval) and chitchat are not modelled: the events of a case are the things those timers trigger',
               'all operations of a case are issued within one forgiveness period (they are: real clocks, milliseconds apart)',
               'storage may fail on a replica during the history (a delivery or an exchange whose storage call fails: C01f.xrun_invF); a failing LOCAL write is not generated (the handle reports it and nothing is replicated: it is not an issued operation); every node completes fault-free exchanges at the end']
TRUSTED_BASE = ['correspondence: dcharness (real nodes over loopback RPC; hook H2 for the sequential repair entry points) vs dcdriver (Datacake.Cluster model); LWW oracle = Datacake.Lww.lww over all issued operations']
THEOREM_NOTE = 'Datacake.Cluster.applyAt / repair (Model/Cluster.lean)'
JOBS = 6
SHRINK = False


def augment(case, impl):
    out = []
    for l, o in zip(case, impl):
        if l.split()[0] == 'staterace' and 'ts=' in o and 'ts2=' in o:
            out.append(l + ' ts=' + o.split('ts=')[1].split()[0] + ' ts2=' + o.split('ts2=')[1].split()[0])
        elif l.split()[0] in ('put', 'del', 'mput', 'mdel', 'wput', 'wdel') and 'ts=' in o:
            out.append(l + ' ts=' + o.split('ts=')[1].split()[0])
        else:
            out.append(l)
    return out


def gen_case(rng, idx, fixed_pairs=None):
    n = rng.range(2, 4)
    ids = [1, 2, 3][:rng.range(1, 3)]
    lines = ['case %d cluster' % idx, 'nodes %d' % n]
    # a node holds several keyspaces and one anti-entropy exchange covers all of them: a third of the cases use two or three
    spaces = ['ks'] if rng.chance(2, 3) else ['ks', 'kb', 'kc'][:rng.range(2, 3)]
    st = {sp: dict(nops=0, origin=[], pending=[]) for sp in spaces}   # per keyspace: op indices are per keyspace
    cur = ['ks']

    def use(sp):
        if sp != cur[0]:
            lines.append('ks %s' % sp); cur[0] = sp
        return st[sp]

    for _ in range(rng.range(2, 12)):
        k_sp = use(rng.choice(spaces))
        i = rng.below(n)
        k = rng.below(10)
        if k < 4: lines.append('put %d %d %s' % (i, rng.choice(ids), '%02x' % rng.below(256)))
        elif k < 6: lines.append('del %d %d' % (i, rng.choice(ids)))
        elif k < 8: lines.append('mput %d %s' % (i, ','.join('%d:%02x' % (d, rng.below(256)) for d in rng.shuffle(ids)[:rng.range(1, len(ids))])))
        else: lines.append('mdel %d %s' % (i, ','.join(str(d) for d in rng.shuffle(ids)[:rng.range(1, len(ids))])))
        for j in range(n):
            if j != i: k_sp['pending'].append((j, k_sp['nops']))
        k_sp['origin'].append(i)
        k_sp['nops'] += 1
        # fate of some pending messages: deliver now, later (reordered), twice, never
        k_sp['pending'] = rng.shuffle(k_sp['pending'])
        for _ in range(rng.below(3)):
            if not k_sp['pending']: break
            (j, k2) = k_sp['pending'].pop()
            fate = rng.below(5)
            if fate == 0: continue                       # lost
            if len(spaces) == 1 and rng.chance(1, 6):
                # the replica's storage fails on this delivery: the message is lost for the replica (C01f: no abstract event),
                # repair must bring the operation later; the fault is cleared if the handler made no storage call
                lines += ['failnext %d' % j, 'deliver %d %d' % (j, k2), 'clearfail %d' % j]
            else:
                lines.append('deliver %d %d' % (j, k2))
            if fate == 1: lines.append('deliver %d %d' % (j, k2))   # duplicated
            if fate == 2: k_sp['pending'].insert(0, (j, k2))     # will be delivered again later
        if rng.chance(1, 5) and k_sp['nops'] >= 1:
            # the distributor of a node batches that node's OWN mutations, in the order they REGISTER with it: concurrent
            # handle calls can register newest-first (D13), so any order
            frm = rng.below(n); to = (frm + 1 + rng.below(n - 1)) % n
            own = [x for x in range(k_sp['nops']) if k_sp['origin'][x] == frm]
            if own:
                pick = sorted(set(rng.choice(own) for _ in range(rng.range(1, 4))))
                if rng.chance(1, 2): pick = rng.shuffle(pick)
                lines.append('batch %d %d %s' % (frm, to, ','.join(map(str, pick))))
        if rng.chance(1, 8): lines.append('purge %d' % rng.below(n))
        if rng.chance(1, 4):
            # anti-entropy also runs while clients are still writing: the trackers it leaves behind decide what later polls skip
            j = rng.below(n); i2 = (j + 1 + rng.below(n - 1)) % n
            m = rng.below(5) if len(spaces) == 1 else rng.below(4)
            # m = 3: one round of the poller's PRODUCTION loop (repair_members) over all other nodes
            # m = 4: an exchange that is NOT atomic: the peer is written to between its state snapshot and the document fetch
            if m == 4:
                lines.append('repair-begin %d %d %d' % (j, i2, rng.below(2)))
                for _ in range(rng.range(0, 2)):
                    q = rng.below(4)
                    if q == 0: lines.append('put %d %d %02x' % (i2, rng.choice(ids), rng.below(256))); k_sp['origin'].append(i2); k_sp['nops'] += 1
                    elif q == 1: lines.append('del %d %d' % (i2, rng.choice(ids))); k_sp['origin'].append(i2); k_sp['nops'] += 1
                    elif k_sp['nops'] >= 1: lines.append('deliver %d %d' % (rng.choice([i2, i2, j]), rng.below(k_sp['nops'])))
                lines.append('repair-end %d %d' % (j, i2))
            else:
                if m >= 2 and m < 4 and len(spaces) == 1 and rng.chance(1, 4):
                    # an exchange on the production path whose document fetch the peer REFUSES (its storage cannot read): the removal
                    # half runs, nothing is fetched, the exchange fails and the tracker must keep its old entry - the quiescent
                    # exchanges that follow have to bring the documents (Cluster.repairFetchFail, Props/C01g)
                    lines += ['failfetch %d' % i2, 'repairc %d %d' % (j, i2) if m == 2 else 'repairm %d' % j, 'clearfetch %d' % i2]
                elif m < 2 and len(spaces) == 1 and rng.chance(1, 5):
                    # an exchange whose first storage call fails: nothing is applied, the tracker is not updated (C01f.repair_fail)
                    lines += ['failnext %d' % j, 'repair %d %d %d' % (j, i2, m), 'clearfail %d' % j]
                else:
                    lines.append('repair %d %d %d' % (j, i2, m) if m < 2 else 'repairc %d %d' % (j, i2) if m == 2 else 'repairm %d' % j)
        if rng.chance(1, 4): lines.append('read %d' % rng.below(n))
    # quiescence: every ordered pair completes an exchange (each covers every keyspace), late deliveries in between
    pairs = fixed_pairs if fixed_pairs is not None else rng.shuffle([(j, i) for j in range(n) for i in range(n) if i != j])
    pairs = [(j, i) for (j, i) in pairs if j < n and i < n]
    if fixed_pairs is None and rng.chance(1, 3):
        # quiescence through the production loop: every node's poller runs one round over all the others
        for j in rng.shuffle(list(range(n))):
            lines.append('repairm %d' % j)
            lines.append('read %d' % j)
        pairs = []
    for (j, i) in pairs:
        sp = rng.choice(spaces)
        if st[sp]['pending'] and rng.chance(1, 3):
            use(sp)
            (jj, k2) = st[sp]['pending'].pop(); lines.append('deliver %d %d' % (jj, k2))
        m = rng.below(3)
        if len(spaces) == 1 and st['ks']['nops'] >= 1 and rng.chance(1, 4):
            # the peer receives late deliveries between its state snapshot and the document fetch of this exchange
            lines.append('repair-begin %d %d %d' % (j, i, rng.below(2)))
            for _ in range(rng.range(1, 2)):
                lines.append('deliver %d %d' % (i, rng.below(st['ks']['nops'])))
            lines.append('repair-end %d %d' % (j, i))
        else:
            lines.append('repair %d %d %d' % (j, i, m) if m < 2 else 'repairc %d %d' % (j, i))
        lines.append('read %d' % j)
    for sp in spaces:
        use(sp)
        for j in range(n):
            lines.append('converged %d' % j)
    lines.append('end')
    return lines


def gen_tracker(rng, idx):
    """a peer that has already synchronised meets a later change which must move the keyspace's change stamp: a delete of
    a document the deleting node does not hold, a put, a bulk operation - none of them delivered directly"""
    n = rng.range(2, 3)
    a = rng.below(n); b = (a + 1 + rng.below(n - 1)) % n
    lines = ['case %d cluster' % idx, 'nodes %d' % n]
    lines.append('put %d 7 %02x' % (b, rng.below(256)))
    if rng.chance(1, 2): lines.append('put %d 1 %02x' % (a, rng.below(256)))
    lines.append('repair %d %d %d' % (b, a, rng.below(2)))          # b's tracker for a is now up to date
    k = rng.below(4)
    if k == 0: lines.append('del %d 7' % a)                           # a does not hold 7
    elif k == 1: lines.append('mdel %d 7' % a)
    elif k == 2: lines.append('put %d 7 %02x' % (a, rng.below(256)))
    else: lines.append('del %d 1' % a)
    pairs = rng.shuffle([(j, i) for j in range(n) for i in range(n) if i != j])
    for (j, i) in pairs:
        lines.append('repair %d %d %d' % (j, i, rng.below(2)))
    for j in range(n):
        lines.append('converged %d' % j)
    lines.append('end')
    return lines


def gen_race(rng, idx):
    """a write lands between the two actor messages of a peer's GetState handler (what the poller's skip rule must survive)"""
    n = rng.range(2, 3)
    i = rng.below(n); j = (i + 1 + rng.below(n - 1)) % n
    lines = ['case %d cluster' % idx, 'nodes %d' % n]
    for _ in range(rng.range(0, 3)):
        lines.append('put %d %d %02x' % (rng.below(n), rng.choice([1, 2, 3]), rng.below(256)))
    lines.append('staterace %d %d %d %d' % (j, i, rng.choice([1, 2, 7]), rng.choice([3, 8, 9])))
    lines += ['read %d' % i, 'repair %d %d %d' % (j, i, rng.below(2)), 'read %d' % j, 'end']
    return lines


def generate(rng, tier):
    n = dict(quick=150, thorough=6000, search=1500)[tier]
    cases = [gen_case(rng.fork(), i) for i in range(n)]
    cases += [gen_race(rng.fork(), 100000 + i) for i in range(dict(quick=8, thorough=100, search=16)[tier])]
    cases += [gen_tracker(rng.fork(), 200000 + i) for i in range(dict(quick=12, thorough=300, search=30)[tier])]
    # full stack: three REAL nodes with the real store extension and its background services (distributor every second, anti-entropy
    # every second): sequentially issued puts/deletes at different nodes, then every node must return the last operation per id
    cases += [['case %d full' % (300000 + i), 'converge %d' % rng.below(1 << 30), 'end'] for i in range(dict(quick=2, thorough=20, search=3)[tier])]
    # all orders of the 6 exchanges of a 3-node cluster, on a few base histories
    idx = n
    allpairs = [(j, i) for j in range(3) for i in range(3) if i != j]
    bases = dict(quick=2, thorough=6, search=2)[tier]
    perms = list(itertools.permutations(allpairs))
    for b in range(bases):
        seed = rng.below(1 << 40)
        for pi, perm in enumerate(perms):
            if tier != 'thorough' and pi % 24 != 0: continue
            from vlib import Rng
            r = Rng(seed)
            c = gen_case(r, idx, fixed_pairs=list(perm))
            if c[1] != 'nodes 3':
                c = None
            if c: cases.append(c); idx += 1
    return cases


def canon(line, out):
    if line.startswith('converge ') and out.startswith('full not-started'):
        return 'full converged'       # the cluster did not form: inconclusive
    if line.startswith('staterace') and out.startswith('race stamp_is_final='):
        d = dict(x.split('=') for x in out.split()[1:])
        # safe for the poller: a reply stamped with the peer's final change stamp carries the final set
        safe = d['has1'] == 'true' and (d['stamp_is_final'] == 'false' or d['has2'] == 'true')
        return 'race safe' if safe else 'race UNSAFE ' + ' '.join('%s=%s' % (k, d[k]) for k in ('stamp_is_final', 'has1', 'has2'))
    if line.startswith(('repair ', 'repairc ', 'repair-end')) and out.startswith('err'):
        return 'err'                  # the text of the storage error is not modelled
    return out


def oracle(case, impl):
    bad = []
    finals = {}
    cur_ks = 'ks'
    for line, out in zip(case, impl):
        if out.startswith(('crash', 'panic', 'timeout')) or out == 'err':
            bad.append('%s: %s' % (line[:80], out)); continue
        if line.startswith('read') and ' | store ' in out:
            s = out.split(' | docs ')[0]
            setp, st = s.split(' | store ')
            toks = setp.split()
            live = {} if toks[2] == '-' else dict(x.split(':') for x in toks[2].split(','))
            dead = {} if toks[4] == '-' else dict(x.split(':') for x in toks[4].split(','))
            sl, sd = {}, {}
            if st != '-':
                for r in st.split(','):
                    i, ts, tb = r.split(':'); (sd if tb == 't' else sl)[i] = ts
            if live != sl or dead != sd:
                bad.append('%s: set and store of the node disagree: %s' % (line, out[:160]))
        if line.startswith('converge ') and canon(line, out) != 'full converged':
            bad.append('real nodes with the real store and its background services did not converge to the last operation per id: %s' % out)
        if line.startswith('staterace') and canon(line, out) != 'race safe':
            bad.append('%s: the GetState reply carries the peer\'s final change stamp but not its final state (%s): the poller records the stamp and skips the keyspace from then on' % (line, out[:90]))
        if line.startswith('ks '): cur_ks = line.split()[1]
        if line.startswith('converged'):
            finals.setdefault(cur_ks, {})[line.split()[1]] = out
    for sp, f in finals.items():
        if len(set(f.values())) > 1:
            bad.append('after all exchanges the nodes return different documents in keyspace %s: %s' % (sp, f))
    return bad


def nontrivial(case, impl):
    ids = [l.split()[2] for l in case if l.split()[0] in ('put', 'del')]
    delivered = sum(1 for l in case if l.startswith('deliver'))
    return len(ids) != len(set(ids)) and delivered >= 1


def stats(verdicts):
    d = {}
    for v in verdicts:
        for l, o in zip(v['case'], v['impl']):
            k = l.split()[0]
            if k in ('repair', 'repairc', 'repairm', 'repair-begin', 'repair-end'): k = k + ':' + ' '.join(o.split()[:2] if k == 'repair-begin' else o.split()[:1])
            elif k == 'deliver' or k == 'batch': k = k + ':' + o
            d[k] = d.get(k, 0) + 1
        d['nodes%s' % v['case'][1].split()[1]] = d.get('nodes%s' % v['case'][1].split()[1], 0) + 1
    return d
