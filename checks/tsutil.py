"""Timestamp helpers shared by the check modules (mirror of the packed layout, used only by
generators and by the python-side property oracles)."""
DRIFT_MS = 4_100_000
F_MS = 3_600_000


def pack(ms, ctr, node):
    return (((ms // 1000) << 32) & ((1 << 64) - 1)) | (((ms % 1000) // 4) << 24) | (ctr << 8) | node


def node(t): return t & 0xFF
def counter(t): return (t >> 8) & 0xFFFF
def fractional(t): return (t >> 24) & 0xFF
def seconds(t): return t >> 32
def dts(t): return seconds(t) * 1000 + fractional(t) * 4
def norm_wall(ms): return ms // 1000 * 1000 + (ms % 1000) // 4 * 4
