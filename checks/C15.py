"""C15 — replica selection yields enough distinct live peers or reports too few."""
import itertools

ID = 'C15'
LEAN_MODULES = ['C15', 'C15b', 'C15c']
RULE = ('one case = the real selector actor (start_node_selector + DCAwareSelector) for one local node, a sequence of membership updates (layouts up to 4 DCs x 4 nodes, '
        'the local node at every position, DCs appearing/disappearing/shrinking) and selections at all eight consistency levels; the data centres picked by the random '
        'choose_multiple are recorded by hook H3 and handed to the model; results compared with the Lean model after every call; python oracle = the property itself '
        '(distinct, not local, within the CURRENT layout, enough, NotEnoughNodes only when too few others exist); plus the wiring membership -> selector (the real watch_membership_changes task fed snapshots with data centres, then selections at every level: quorum sizes count the local node); plus REAL DatacakeNodes (builder + chitchat over loopback + membership watcher + selector; listen address equal to / different from the advertised one) asking their own selector for every level; quick: all levels x all prior-selection pairs on ~60 layouts + random; '
        'thorough: all sequences of <=3 prior selections; non-trivial = at least two selections with different results or an update that removes a node; distinct by hash')
ASSUMPTIONS = ['the per-level result cache (2 s) does not expire within a case unless the case says so (sel-expire sleeps 2.1 s)',
               'sel-set layouts (fed to the selector directly) have unique addresses; layouts WITHOUT the local node, the empty layout and the state before the first update are exercised (degenerate cases) but the property oracle only speaks about layouts that contain the local node in its own data centre (what the membership layer installs)']
TRUSTED_BASE = ['correspondence: dcharness (real selector actor through NodeSelectorHandle) vs dcdriver (Datacake.Selector model); hook H3 records the random DC choice']
THEOREM_NOTE = 'Datacake.Selector.selectN / selectNodes / setNodes / getNodes / dcLayout (Model/Selector.lean); Props/C15c: dcLayout_wf (the map the watcher installs is well-formed for EVERY snapshot: WF is discharged, not assumed), wired_selection_sound, local_dc_present, wired_selection_sound_of_snapshot (no hypothesis left but the shape of the snapshot), legacy_wiring_duplicates'
LEVELS = ['none', 'one', 'two', 'three', 'quorum', 'localquorum', 'all', 'eachquorum']
JOBS = 8


def removable(line):
    return line.startswith(('sel-get', 'sel-set', 'mem-snap'))


def fmt_layout(layout):
    return ';'.join('%d:%s' % (d, ','.join(map(str, ns))) for d, ns in sorted(layout.items())) or '-'


def gen_layout(rng, local, local_dc, keep_local=True):
    ndc = rng.range(1, 4)
    layout, nxt = {}, 10
    for d in rng.shuffle([0, 1, 2, 3])[:ndc]:
        n = rng.choice([1, 1, 2, 2, 3, 4])
        layout[d] = list(range(nxt, nxt + n)); nxt += n
    if keep_local:
        layout.setdefault(local_dc, [])
        pos = rng.below(len(layout[local_dc]) + 1)
        layout[local_dc].insert(pos, local)
    return layout


def augment(case, impl):
    out = []
    for l, o in zip(case, impl):
        if l.startswith('sel-get') and 'choice=' in o:
            out.append(l + ' ' + o.split('choice=')[1])
        else:
            out.append(l)
    return out


def gen_wired(rng, idx):
    """The wiring membership -> selector: the REAL watch_membership_changes task (hook) is fed membership snapshots (members with
    data centres; the local node 0 at address 100 included, as the membership layer guarantees) and hands the data-centre map to
    the real selector actor, which is then asked for selections."""
    local_dc = rng.below(3)
    # the local node id is not always the smallest: a node that restarted under a NEW id can still see its OLD, smaller id listed
    # at its own address (possibly in another data centre)
    self_id = rng.choice([0, 0, 3, 9])
    lines = ['case %d node' % idx, 'mem-init %d 100 %d' % (self_id, local_dc)]
    shared = rng.chance(1, 3)
    if rng.chance(1, 6):
        # a selection that reaches the selector before the watcher installed the first membership
        lines.append('sel-get ' + rng.choice(LEVELS))
    for _ in range(rng.range(1, 3)):
        n_others = rng.choice([0, 1, 1, 2, 3, 3, 4, 5])
        ms = ['%d:100@%d' % (self_id, local_dc)]
        for k in range(n_others):
            mid = k + 1 if k + 1 < self_id or self_id == 0 else k + 2
            if mid == self_id: mid += 20
            # one case in three draws addresses from a small pool: two member ids at ONE address (a peer that came back under a
            # new id while the failure detector still lists the old one), sometimes the local node's own address
            a = rng.choice([100, 101, 101, 102, 103]) if shared else 100 + mid + 10 * rng.below(2)
            ms.append('%d:%d@%d' % (mid, a, rng.choice([local_dc, local_dc, rng.below(3)])))
        lines.append('mem-snap ' + ','.join(ms))
        for _ in range(rng.range(1, 4)):
            lines.append('sel-get ' + rng.choice(LEVELS))
    lines.append('end')
    return lines


def gen_case(rng, idx):
    local, local_dc = 1, rng.below(4)
    lines = ['case %d node' % idx, 'sel-init %d %d' % (local, local_dc)]
    layout = gen_layout(rng, local, local_dc)
    lines.append('sel-set ' + fmt_layout(layout))
    for _ in range(rng.range(1, 8)):
        k = rng.below(10)
        if k < 7:
            lines.append('sel-get ' + rng.choice(LEVELS))
        elif k < 9:
            # membership update: shrink / drop a DC / new layout
            m = rng.below(3)
            if m == 0 and len(layout) > 1:
                d = rng.choice([x for x in layout if x != local_dc] or list(layout))
                if d != local_dc: del layout[d]
            elif m == 1:
                d = rng.choice(list(layout))
                others = [a for a in layout[d] if a != local]
                if others and len(layout[d]) > 1: layout[d].remove(rng.choice(others))
            else:
                layout = gen_layout(rng, local, local_dc)
            lines.append('sel-set ' + fmt_layout(layout))
        else:
            lines.append('sel-get ' + rng.choice(['one', 'two', 'three']))
    lines.append('end')
    return lines


def gen_degenerate(rng, idx):
    """states the membership layer does not normally produce but the selector can be in: nothing installed yet (every node, between
    `connect()` and the first membership snapshot), an empty layout, a layout that does not contain the local node"""
    local, local_dc = 1, rng.below(3)
    lines = ['case %d node' % idx, 'sel-init %d %d' % (local, local_dc)]
    for _ in range(rng.range(1, 4)):
        k = rng.below(4)
        if k == 0: lines.append('sel-set -')
        elif k == 1: lines.append('sel-set ' + fmt_layout(gen_layout(rng, local, local_dc, keep_local=False)))
        elif k == 2: lines.append('sel-set ' + fmt_layout(gen_layout(rng, local, local_dc)))
        for _ in range(rng.range(1, 3)):
            lines.append('sel-get ' + rng.choice(LEVELS))
    lines.append('end')
    return lines


def generate(rng, tier):
    cases, idx = [], 0
    for _ in range(dict(quick=60, thorough=6000, search=600)[tier]):
        cases.append(gen_degenerate(rng.fork(), idx)); idx += 1
    for _ in range(dict(quick=800, thorough=150000, search=8000)[tier]):
        cases.append(gen_case(rng.fork(), idx)); idx += 1
    # systematic: layouts x local positions x all levels after every sequence of prior selections
    shapes = [[1], [2], [3], [4], [1, 1], [2, 1], [2, 2], [3, 1], [1, 1, 1], [2, 2, 2], [3, 2, 1], [1, 1, 1, 1], [2, 2, 1, 1], [4, 4, 4, 4]]
    prior_len = 2 if tier == 'quick' else 3
    for shape in shapes:
        for local_dc in range(len(shape)):
            for pos in ([0] if tier == 'quick' else range(shape[local_dc])):
                layout, nxt = {}, 10
                for d, n in enumerate(shape):
                    layout[d] = list(range(nxt, nxt + n)); nxt += n
                layout[local_dc][pos] = 1
                priors = itertools.product(['one', 'two', 'three'], repeat=prior_len)
                for pr in priors:
                    if tier == 'quick' and rng.below(3) != 0: continue
                    for lvl in (LEVELS if tier != 'quick' else ['one', 'two', 'three', rng.choice(LEVELS)]):
                        lines = ['case %d node' % idx, 'sel-init 1 %d' % local_dc, 'sel-set ' + fmt_layout(layout)]
                        for p in pr:
                            # a membership refresh between selections clears the cache but keeps the layout: cursors are reset by the update
                            lines.append('sel-get ' + p)
                        lines.append('sel-get ' + lvl)
                        lines.append('end'); cases.append(lines); idx += 1
    for _ in range(dict(quick=150, thorough=20000, search=1500)[tier]):
        cases.append(gen_wired(rng.fork(), idx)); idx += 1
    if tier == 'thorough':
        for _ in range(3):
            c = gen_case(rng.fork(), idx); idx += 1
            c.insert(-1, 'sel-expire'); c.insert(-1, 'sel-get two'); cases.append(c)
    # the wiring around the selector: REAL DatacakeNodes (builder, chitchat membership over loopback, membership watcher,
    # selector actor), with listen address = public address and with 0.0.0.0:<port> advertised as 127.0.0.1:<port>
    for (n, mode) in ([(3, 1), (2, 0)] if tier == 'quick' else [(2, 0), (2, 1), (3, 0), (3, 1), (4, 1), (5, 1)]):
        cases.append(['case %d node' % idx, 'realnodes %d %d' % (n, mode), 'end']); idx += 1
    return cases


def parse_layout(s):
    if s == '-': return {}
    out = {}
    for part in s.split(';'):
        d, ns = part.split(':')
        out[int(d)] = [int(x) for x in ns.split(',')] if ns else []
    return out


def required(level, layout, local, local_dc):
    total = sum(len(v) for v in layout.values())
    if level == 'none': return 0
    if level in ('one', 'two', 'three'): return {'one': 1, 'two': 2, 'three': 3}[level]
    if level == 'quorum': return total // 2
    if level == 'localquorum': return len(layout.get(local_dc, [])) // 2
    if level == 'all': return sum(1 for v in layout.values() for a in v if a != local)
    if level == 'eachquorum':
        return sum((len(v) // 2) if d == local_dc else (len(v) // 2 + 1) for d, v in layout.items())


def canon(line, out):
    return 'real ok' if line.startswith('realnodes') and out.startswith('real start-failed') else out


def oracle(case, impl):
    bad = list(real_oracle(case, impl))
    layout, local, local_dc, self_id = {}, None, None, None
    for line, out in zip(case, impl):
        t = line.split()
        if out.startswith(('crash', 'panic', 'timeout')):
            bad.append('%s: %s' % (line, out)); continue
        if t[0] == 'sel-init': local, local_dc = int(t[1]), int(t[2])
        elif t[0] == 'mem-init': self_id, local, local_dc, layout = int(t[1]), int(t[2]), int(t[3]), {}
        elif t[0] == 'mem-snap':
            # the membership in force: one entry per ADDRESS (two member ids at one address are one peer), in member-id order;
            # the local address belongs to the LOCAL member, whatever other ids still claim it
            layout, seen = {}, {local}
            for m in sorted(t[1].split(','), key=lambda m: int(m.split(':')[0])):
                a, d = m.split('@')
                mid, a = int(a.split(':')[0]), int(a.split(':')[1])
                if mid != self_id:
                    if a in seen: continue
                    seen.add(a)
                layout.setdefault(int(d), []).append(a)
        elif t[0] == 'sel-set': layout = parse_layout(t[1])
        elif t[0] == 'sel-get':
            level = t[1]
            allnodes = [a for v in layout.values() for a in v]
            others = sorted(set(a for a in allnodes if a != local))
            req = required(level, layout, local, local_dc)
            o = out.split()
            if o[0] == 'ok':
                nodes = [] if o[1] == '-' else [int(x) for x in o[1].split(',')]
                if len(set(nodes)) != len(nodes): bad.append('%s: duplicates in %s' % (line, nodes))
                if local in nodes: bad.append('%s: the local node was selected' % line)
                gone = [a for a in nodes if a not in allnodes]
                if gone: bad.append('%s: selected nodes that are not in the current membership: %s' % (line, gone))
                # the counts are promised for membership layouts: those contain the local node, in its own data centre (a layout
                # without it cannot be installed through DatacakeNode; the selector is still compared with the model on it)
                proper = local in layout.get(local_dc, [])
                if proper and len(nodes) < req: bad.append('%s: %d nodes selected, level requires %d' % (line, len(nodes), req))
                if proper and level in ('one', 'two', 'three') and len(nodes) != req: bad.append('%s: %d nodes selected, exactly %d expected' % (line, len(nodes), req))
            elif o[0] == 'notenough':
                if len(others) >= req and (local in layout.get(local_dc, []) or not layout):
                    bad.append('%s: NotEnoughNodes(live=%s, required=%s) although %d other live nodes exist' % (line, o[1], o[2], len(others)))
    return bad


def real_oracle(case, impl):
    # a cluster that did not form (no membership within the deadline) is inconclusive, not a violation: counted in the statistics
    return ['%s: %s' % (l, o) for l, o in zip(case, impl) if l.startswith('realnodes') and o.startswith('real BAD')]


def explain(v):
    """Attribute a violation to a listed known finding (DESIGN.md §3): only when the committed model
    reproduces it (no model disagreement) and it is the extra-node skip of select_n_nodes."""
    if v['disagree']:
        return None
    msgs = [s[2] for s in v['spec']]
    if msgs and all('NotEnoughNodes' in m and 'although' in m for m in msgs):
        return 'D11-extra-node-skip'
    return None


def nontrivial(case, impl):
    outs = [o.split('choice=')[0] for l, o in zip(case, impl) if l.startswith('sel-get')]
    return len(set(outs)) > 1 or sum(1 for l in case if l.startswith('sel-set')) > 1


def stats(verdicts):
    d = {}
    for v in verdicts:
        for l, o in zip(v['case'], v['impl']):
            if l.startswith('realnodes'):
                k = 'real_clusters_' + ('ok' if o == 'real ok' else 'not_formed' if o.startswith('real start-failed') else 'bad')
                d[k] = d.get(k, 0) + 1
    for v in verdicts:
        for l, o in zip(v['case'], v['impl']):
            if l.startswith('sel-get'):
                k = l.split()[1] + ':' + o.split()[0]
                d[k] = d.get(k, 0) + 1
    return d
