"""C07 — a restarted node rebuilds exactly what storage holds; acked writes survive."""
from checks.tsutil import *
from checks.actorgen import *

ID = 'C07'
RULE = ('one case = a real KeyspaceGroup over MemStore (SQLite file in thorough) driven through a generated request history (as in C02, with storage failures), stopped at a chosen point and started again on the same storage '
        '(fresh KeyspaceGroup + load_states_from_storage; a third of the cases spread the requests over two or three keyspaces of the node, all of which must be rebuilt from their own part of the store): (a) between requests - for histories up to 12 requests every position is used once (quick: every 2nd), (b) INSIDE a request - the storage wrapper performs the inner '
        'write and never returns, the node is abandoned and restarted (single and bulk requests, purge). After the restart the rebuilt set (Serialize) is compared with iter_metadata of the store and with the Lean model '
        '(loadFromStorage); the node then continues with more requests and is restarted again. non-trivial = a restart after at least one tombstone or a mid-request crash; distinct by hash')
ASSUMPTIONS = ['a crash is modelled on the process state: the store keeps what had been written; durability of SQLite/LMDB across a real power loss is the backend\'s',
               'an in-request crash is produced by parking the storage call after the inner write (the actor never updates its set); the abandoned actor is not used again']
TRUSTED_BASE = ['correspondence: dcharness (real load_states_from_storage after dropping / abandoning the group) vs dcdriver (Datacake.Keyspace.loadFromStorage)']
THEOREM_NOTE = 'Datacake.Keyspace.loadFromStorage (Model/Keyspace.lean); theorems load_exact, crash_anywhere, acked_survives'
JOBS = 8


def removable(line):
    return line.split()[0] in ('set', 'del', 'mset', 'mdel', 'purge')


def with_hang(req):
    base = req.split(' w=')[0].replace(' fail', '')
    return base + ' hang'


def gen_case(rng, idx, backend, crash_pos, mid):
    h = Hist(rng)
    n = rng.range(2, 12)
    lines = ['case %d actor %s c%d' % (idx, backend, idx)]
    pos = crash_pos % n
    # a node holds several keyspaces: a third of the cases spread the requests over two or three of them
    spaces = ['ks'] if rng.chance(2, 3) else ['ks', 'kb', 'kc'][:rng.range(2, 3)]
    for i in range(n):
        if len(spaces) > 1 and rng.chance(1, 2):
            lines.append('ks %s' % rng.choice(spaces))
        req = h.request()
        if i == pos and mid:
            lines += [with_hang(req), 'restart', 'state']
        else:
            lines += [req]
            if i == pos:
                lines += ['state', 'restart', 'state']
    # life goes on, then a second restart
    for _ in range(rng.range(0, 4)):
        lines.append(h.request(fail_ok=False))
    lines += ['state', 'restart', 'state']
    for sp in spaces:
        if len(spaces) > 1:
            lines += ['ks %s' % sp, 'state']
    lines.append('end')
    return lines


def generate(rng, tier):
    n = dict(quick=500, thorough=30000, search=2500)[tier]
    cases = []
    for i in range(n):
        backend = 'sqlite' if (i % 15 == 0) else 'lmdb' if (i % 15 == 7) else 'mem'      # real SQLite files also in the quick tier (restart = reopen of the file)
        cases.append(gen_case(rng.fork(), i, backend, crash_pos=i, mid=(i % 3 == 0)))
    return cases


def oracle(case, impl):
    bad = []
    prev = None
    clean = False      # True from a restart until the next request: every keyspace must show exactly what its storage holds
    for i, (line, out) in enumerate(zip(case, impl)):
        if line == 'restart': clean = True
        elif line.split()[0] in ('set', 'del', 'mset', 'mdel', 'purge'): clean = False
        if line == 'state' and clean and ' | store ' in out and not (i > 0 and case[i - 1] == 'restart'):
            live, dead, sl, sd = parse_state(out)
            if live != sl or dead != sd:
                bad.append('after restart a keyspace\'s rebuilt set has live=%s tombstones=%s but its storage holds live=%s tombstones=%s' % (live, dead, sl, sd))
        if out.startswith(('crash', 'panic', 'timeout')):
            bad.append('%s: %s' % (line[:80], out)); continue
        if line == 'state' and i > 0 and case[i - 1] == 'restart':
            if 'unavailable' in out:
                bad.append('state unavailable after restart'); continue
            live, dead, sl, sd = parse_state(out)
            if live != sl or dead != sd:
                bad.append('after restart the rebuilt set has live=%s tombstones=%s but storage holds live=%s tombstones=%s' % (live, dead, sl, sd))
            # every mutation whose call had returned is still visible: a restart BETWEEN requests changes nothing the set showed
            if i > 1 and case[i - 2] == 'state' and ' | store ' in impl[i - 2]:
                bl, bd, _, _ = parse_state(impl[i - 2])
                if (bl, bd) != (live, dead):
                    bad.append('the set showed live=%s tombstones=%s before the stop (all calls had returned) but live=%s tombstones=%s after the restart' % (bl, bd, live, dead))
    return bad


def nontrivial(case, impl):
    return any(l.endswith(' hang') for l in case) or any(l.startswith(('del', 'mdel')) for l in case)


def stats(verdicts):
    d = {'restarts': 0, 'mid_request_crashes': 0, 'sqlite_cases': 0, 'requests': 0}
    for v in verdicts:
        if ' sqlite ' in v['case'][0]: d['sqlite_cases'] += 1
        for l, o in zip(v['case'], v['impl']):
            if l == 'restart': d['restarts'] += 1
            elif l.endswith(' hang'):
                d['mid_request_crashes'] += 1; d['hang:' + o] = d.get('hang:' + o, 0) + 1
            elif l.split()[0] in ('set', 'del', 'mset', 'mdel', 'purge'): d['requests'] += 1
    return d
