"""C02 — on each node the replicated metadata and the persisted store never disagree."""
from checks.tsutil import *
from checks.actorgen import *

ID = 'C02'
LEAN_MODULES = ['C02', 'C02b']
RULE = ('one case = a real KeyspaceGroup/KeyspaceActor over a fault-injecting Storage wrapper (around MemStore; SQLite file in thorough) and 1-30 requests: Set / Del / MultiSet / MultiDel / PurgeDeletes '
        'with arbitrary stamps (older, newer, beyond the forgiveness window, 1-3 origins), both sources, any arrival order, bulk sizes 0-6; storage failures injected at every kind of point: single call fails, '
        'bulk call writes an arbitrary sub-list and reports it, tombstone removal partially fails. After EVERY request the set (Serialize -> diff against empty) and the store (iter_metadata) are printed: '
        'the python oracle checks the property (live id @t in the set <=> document @t in the store; tombstone @t <=> tombstone row @t) and the Lean node model is compared line by line. '
        'One case in three repeats ids inside one bulk request, with ascending, descending and equal stamps (what a replica receives when the distributor batched two mutations of one key, D13). non-trivial = at least one refused and one applied document, or an injected failure; distinct by hash')
ASSUMPTIONS = ['storage failures follow the contract documented on BulkMutationError (a failed bulk call reports exactly what it wrote); single calls fail without effect']
TRUSTED_BASE = ['correspondence: dcharness (real KeyspaceActor handlers through the puppet mailbox, real MemStore/SQLite behind a fault-injecting wrapper) vs dcdriver (Datacake.Keyspace node model)']
THEOREM_NOTE = 'Datacake.Keyspace.onSet/onDel/onMultiSet/onMultiDel/onPurge (Model/Keyspace.lean)'
JOBS = 8


def removable(line):
    return line.split()[0] in ('set', 'del', 'mset', 'mdel', 'purge')


def gen_case(rng, idx, backend, dups):
    h = Hist(rng, allow_dups=dups)
    lines = ['case %d actor %s c%d' % (idx, backend, idx)]
    for _ in range(rng.range(1, 30)):
        lines.append(h.request())
        lines.append('state')
    lines.append('dups %d' % (1 if dups else 0))
    lines.append('end')
    return lines


def gen_bigpurge(rng, idx, n, directive):
    """a purge of THOUSANDS of tombstones that fails (entirely, or after part of them): whatever the storage did not remove is a
    tombstone of the set again - whether the actor hands the ids over in one call or in several"""
    from checks.actorgen import pack, T0, F_MS
    t0 = T0 + rng.below(10 ** 5) * 4
    lines = ['case %d actor mem b%d' % (idx, idx)]
    lines.append('mdel 0 ' + ','.join('%d:%d' % (i + 1, pack(t0, 0, 1)) for i in range(n)))
    lines.append('set 0 900001 %d aa' % pack(t0 + 2 * F_MS, 0, 1))
    lines.append('set 1 900002 %d bb' % pack(t0 + 2 * F_MS + 4, 0, 1))
    lines.append('state')
    if directive == 'fail':
        lines.append('purge fail')
    else:
        done = sorted({rng.below(n) for _ in range(rng.choice([1, 7, n // 3]))} | ({0} if rng.chance(1, 2) else set()))
        lines.append('purge w=' + ','.join(str(j) for j in done))
    lines += ['state', 'purge', 'state', 'dups 0', 'end']
    return lines


def generate(rng, tier):
    n = dict(quick=600, thorough=40000, search=15000)[tier]
    cases = []
    for i in range(n):
        backend = 'sqlite' if (tier != 'quick' and i % 20 == 0) else 'mem'
        cases.append(gen_case(rng.fork(), i, backend, dups=(i % 3 == 2)))
    for k, (m, d) in enumerate([(1100, 'fail'), (2100, 'w'), (3000, 'fail'), (1025, 'w')] if tier != 'thorough' else [(m, d) for m in (1023, 1024, 1025, 1100, 2049, 3000, 4097, 9000) for d in ('fail', 'w', 'w')]):
        cases.append(gen_bigpurge(rng.fork(), n + k, m, d))
    return cases


def canon(line, out):
    return 'x' if line.startswith('dups') else out


def oracle(case, impl):
    bad = []
    dups = any(l == 'dups 1' for l in case)
    last = None
    for line, out in zip(case, impl):
        if out.startswith(('crash', 'panic', 'timeout')):
            bad.append('%s: %s' % (line[:80], out)); continue
        if line == 'state':
            if 'unavailable' in out:
                bad.append('state unavailable'); continue
            live, dead, sl, sd = parse_state(out)
            if live != sl or dead != sd:
                bad.append('after `%s`: set live=%s dead=%s but store live=%s tombstones=%s' % (last[:70] if last else '?', live, dead, sl, sd))
        else:
            last = line
    return bad


def explain(v):
    return None


def nontrivial(case, impl):
    outs = [o for l, o in zip(case, impl) if l.split()[0] in ('set', 'del', 'mset', 'mdel', 'purge')]
    return any(o.startswith('err') for o in outs) or len(set(impl)) > 4


def stats(verdicts):
    d = {'requests': 0, 'failed_requests': 0, 'states_compared': 0, 'dup_id_cases': 0, 'sqlite_cases': 0}
    for v in verdicts:
        if 'dups 1' in v['case']: d['dup_id_cases'] += 1
        if ' sqlite ' in v['case'][0]: d['sqlite_cases'] += 1
        for l, o in zip(v['case'], v['impl']):
            k = l.split()[0]
            if k in ('set', 'del', 'mset', 'mdel', 'purge'):
                d['requests'] += 1; d[k] = d.get(k, 0) + 1
                if o.startswith('err'): d['failed_requests'] += 1
            elif k == 'state': d['states_compared'] += 1
    return d
