"""C19 — a peer receives the sender's keyspace state unchanged."""
ID = 'C19'
RULE = ('one case = 2 real nodes over loopback RPC; the sender\'s keyspace state is built by a generated history (empty; tombstone-only; puts/deletes from up to 4 origins through both sources via deliveries and repairs; purged; aged states whose tombstones are old enough to be purged, fetched before and after the purge with no write in between; '
        'or `bulk` states of 100-20 000 entries, and 64 000-200 000 entries: replies of 1-3.4 MB); the receiver obtains it through the real ReplicationClient::get_state (GetState handler -> Serialize -> frame -> DataView -> nested unchecked decode) and the received set is '
        'compared with the sender\'s own state: all live ids, all tombstones, all stamps, and the per-origin accept/refuse cut-offs (bisected with will_apply); small states are also compared with the Lean cluster model. '
        'Malformed stream: a peer answering GetState with a CRC-valid frame whose nested bytes are empty / truncated / garbage, whose envelope points outside the message or declares a length of 1 GiB (D24), or whose root is misplaced by one stray byte in front of the honest reply (D35), must produce an error - not a crash. non-trivial = the transferred state has both live entries and tombstones; distinct by hash')
ASSUMPTIONS = ['rkyv round trip of the set is a codec assumption for the Lean model; memory safety and alignment of the zero-copy access are runtime facts, observed (debug build: misaligned access panics) not proved']
TRUSTED_BASE = ['correspondence: dcharness (real ReplicationService::on_message(GetState) + ReplicationClient::get_state over loopback) vs dcdriver (Datacake.Cluster model: the state is transferred unchanged)']
THEOREM_NOTE = 'observational equivalence of set states (Props/C19.lean: obs_equiv_of_equal_maps); the envelope of the GetState reply at byte level (Model/Envelope.lean; Props/C19b: readEnv_archiveEnv, getState_exact, bogus_len_refused, forward_ptr_refused, misplaced_envelope_refused)'
LEAN_MODULES = ['C19', 'C19b']
JOBS = 6
SHRINK = False


def augment(case, impl):
    out = []
    for l, o in zip(case, impl):
        if l.split()[0] in ('put', 'del', 'mput', 'mdel') and 'ts=' in o:
            out.append(l + ' ts=' + o.split('ts=')[1].split()[0])
        else:
            out.append(l)
    return out


def gen_case(rng, idx, big):
    lines = ['case %d cluster' % idx, 'nodes 3']
    k = rng.below(6)
    if k == 0: pass                                  # empty state
    elif k == 1:
        for d in (1, 2): lines.append('del 0 %d' % d)  # tombstone-only
    else:
        for _ in range(rng.range(1, 10)):
            i = rng.below(3)
            m = rng.below(6)
            if m < 3: lines.append('put %d %d %02x' % (i, rng.range(1, 4), rng.below(256)))
            elif m < 5: lines.append('del %d %d' % (i, rng.range(1, 4)))
            else: lines.append('mput %d %s' % (i, ','.join('%d:%02x' % (d, rng.below(256)) for d in (5, 6))))
        nops = sum(1 for l in lines if l.split()[0] in ('put', 'del', 'mput'))
        for x in range(nops):
            if rng.chance(2, 3): lines.append('deliver 0 %d' % x)
        if rng.chance(1, 2): lines.append('repair 0 1 %d' % rng.below(2))
        if rng.chance(1, 2): lines.append('repair 0 2 %d' % rng.below(2))
        if rng.chance(1, 3): lines.append('purge 0')
    if big:
        lines.append('bulk 0 %d %d' % (rng.choice([100, 1000, 5000, 20000]), rng.below(1 << 30)))
    lines += ([] if big else ['read 0']) + ['localstate 0', 'fetchstate 1 0', 'fetchstate 2 0']
    if rng.chance(1, 2):
        lines.append('badstate 1 %s' % rng.choice(['-', '00000000', '0000000000000000', 'ff' * 7, '01020304050607080910111213141516', '00' * 64, '7f' * 33]))
    if rng.chance(1, 2):
        # the ENVELOPE around the state: the byte-exact honest reply with the declared length / the position of the nested bytes
        # changed and the CRC recomputed (a peer of another version, a buggy or a hostile one: the CRC only guards the wire)
        lines.append('badenvelope 1 %s %d' % (rng.choice(['ok', 'len', 'len', 'ptr', 'shift', 'shift']), rng.choice([0, 1, 5, 40])))
    if rng.chance(2, 3):
        # the envelope itself, byte for byte against the model (Model/Envelope.lean): nested byte strings of every length class
        # (padding 0-7 in front of the root), stamps at the ends of the u64 range
        n = rng.choice([0, 1, 7, 8, 9, 15, 16, 17, rng.below(64), rng.below(3000), rng.choice([4096, 65535, 65536, 100001])])
        lines.append('envelope-bytes %d %d %s' % (rng.choice([0, 1, 2 ** 64 - 1, rng.below(2 ** 64)]), rng.choice([0, 2 ** 63, 2 ** 64 - 1, rng.below(2 ** 64)]),
                                                   bytes(rng.below(256) for _ in range(n)).hex() or '-'))
    lines.append('end')
    return lines


def gen_aged(rng, idx):
    """The sender (node 0) holds tombstones of another origin that are OLD ENOUGH TO BE PURGED (it has heard from that origin
    on both sources more than a forgiveness period later) but are still there; the state is fetched, then purged, then
    fetched again without any write in between."""
    lines = ['case %d cluster' % idx, 'nodes 3']
    nops = 0
    ids = [1, 2, 3][:rng.range(1, 3)]
    for d in ids:
        lines.append('put 1 %d %02x' % (d, rng.below(256))); nops += 1
    dels = rng.shuffle(ids)[:rng.range(1, len(ids))]
    for d in dels:
        lines.append('del 1 %d' % d); nops += 1
    for x in range(nops):
        lines.append('deliver 0 %d' % x)
    if rng.chance(1, 2):
        lines += ['localstate 0', 'fetchstate 2 0']
    lines.append('advance %d' % rng.choice([3_600_000 + 5000, 2 * 3_600_000, 5 * 3_600_000]))
    lines.append('put 1 7 %02x' % rng.below(256)); a = nops; nops += 1
    lines.append('put 1 8 %02x' % rng.below(256)); nops += 1
    lines.append('deliver 0 %d' % a)                 # source 0 hears from origin 1 after the jump
    lines.append('repair 0 1 %d' % rng.below(2))     # source 1 too (fetches id 8)
    lines += ['read 0', 'localstate 0', 'fetchstate 1 0', 'fetchstate 2 0']
    if rng.chance(1, 3):
        # a purge the storage performs only PARTLY (and reports as failed), between two fetches with no write in between: what
        # the peer receives afterwards is the state after that purge - some tombstones gone, the others back in the set
        lines += ['partialnext 0 %s' % (','.join(str(j) for j in range(len(dels)) if rng.chance(1, 2)) or '0'), 'purge 0', 'read 0', 'localstate 0', 'fetchstate 2 0', 'fetchstate 1 0']
        if rng.chance(1, 2):
            lines += ['purge 0', 'localstate 0', 'fetchstate 1 0']
    elif rng.chance(2, 3):
        lines += ['purge 0', 'read 0', 'localstate 0', 'fetchstate 2 0', 'fetchstate 1 0']
        if rng.chance(1, 2):
            lines += ['put 0 9 01', 'localstate 0', 'fetchstate 1 0']
    lines.append('end')
    return lines


def generate(rng, tier):
    n = dict(quick=120, thorough=4000, search=600)[tier]
    cases = [gen_case(rng.fork(), i, big=(i % 6 == 0)) for i in range(n)]
    cases = cases + [gen_aged(rng.fork(), n + i) for i in range(dict(quick=30, thorough=800, search=100)[tier])]
    # "for states of any size": states whose reply is larger than anything the reader reserves ahead (1 MiB, D33) - 70 000 to
    # 200 000 entries, 1.2 to 3.4 MB on the wire in dozens of DATA frames
    for size in ([100000] if tier != 'thorough' else [64000, 70000, 100000, 200000]):
        cases.append(['case %d cluster' % len(cases), 'nodes 2', 'bulk 0 %d %d' % (size, rng.below(1 << 30)), 'localstate 0', 'fetchstate 1 0', 'end'])
    return cases


BULK_CASE = set()


def canon(line, out):
    # states built by `bulk` cannot be replayed by the model (thousands of real clock stamps): the
    # implementation-side oracle (received == sender's own) carries those cases
    if line.startswith(('fetchstate', 'localstate')):
        return 'state' if True and (out == 'unknown' or out.count(':') > 60) else out.split(' bytes=')[0]
    return out


def _unknown(case):
    return any(l.startswith('bulk') for l in case)


def _pairs(x):
    return {} if x == '-' else {int(a): int(b) for a, b in (y.split(':') for y in x.split(','))}


def oracle(case, impl):
    bad = []
    local = None
    store = None
    for line, out in zip(case, impl):
        if line.startswith(('put', 'del', 'mput', 'mdel', 'deliver', 'repair', 'purge', 'bulk', 'batch')):
            store = None
        if line == 'read 0' and ' | store ' in out:
            st = out.split(' | store ')[1].split(' | docs ')[0]
            store = ({}, {})
            if st != '-':
                for r in st.split(','):
                    i, ts, tb = r.split(':'); store[1 if tb == 't' else 0][int(i)] = int(ts)
        if line.startswith('fetchstate') and line.endswith(' 0') and store is not None and out.startswith('state E '):
            toks = out.split()
            got = (_pairs(toks[2]), _pairs(toks[4]))
            if got != store:
                bad.append('%s: the received state (live %s, tombstones %s) is not what the sender holds (its storage metadata: live %s, tombstones %s)' % (line, got[0], got[1], store[0], store[1]))
        if out.startswith(('crash', 'timeout')):
            bad.append('%s: %s' % (line, out)); continue
        if line.startswith('localstate'):
            local = out.split(' bytes=')[0]
        elif line.startswith('fetchstate'):
            if out.startswith('panic') or out == 'err':
                bad.append('%s: %s' % (line, out))
            elif local is not None and out != local:
                bad.append('%s: the received state differs from the sender\'s state: %s vs %s' % (line, out[:120], local[:120]))
        elif line.startswith('badstate'):
            if out != 'rejected':
                bad.append('%s: an undecodable state was not reported as an error (%s)' % (line, out))
        elif line.startswith('collide'):
            if out != 'collide same=true fine':
                bad.append('%s: colliding-ids: the state of a keyspace whose tombstone ids collide in the archived hash index cannot be handed over in bounded time (%s)' % (line, out))
        elif line.startswith('badenvelope'):
            want = 'accepted %s' % line.split()[3] if line.split()[2] == 'ok' else 'rejected'
            if out != want:
                bad.append('%s: a reply whose envelope cannot be decoded was not reported as an error (%s)' % (line, out))
    return bad


def oracle2(case, impl, model):
    """The sender's state, as the model computes it from the history (and as `read` / `localstate` confirm on the implementation
    for the entries and tombstones), is what a peer must receive - including the per-origin accept/refuse cut-offs, which the
    sender itself only shows through its decisions."""
    bad = []
    for line, o, m in zip(case, impl, model):
        if line.startswith('fetchstate') and m not in ('unknown', 'bad-op') and o.startswith('state ') and canon(line, o) != canon(line, m):
            bad.append('%s: the received state differs from the sender\'s state: received %s, sender %s' % (line, canon(line, o)[:160], canon(line, m)[:160]))
    return bad


def explain(v):
    """F1 (known finding): the violation is attributed to the listed finding iff it is confined to `collide` lines (the model
    side of such a line is the specification itself: `fine`)."""
    msgs = [s[2] for s in v['spec']]
    if msgs and all('colliding-ids' in m or m.startswith('impl=collide') for m in msgs) and all(d[1].startswith('collide') for d in v['disagree']):
        return 'F1-colliding-tombstone-ids'
    return None


def nontrivial(case, impl):
    for l, o in zip(case, impl):
        if l.startswith('localstate') and ' E -' not in o and ' D - ' not in o:
            return True
    return False


def stats(verdicts):
    d = {'transfers': 0, 'bad_peers': 0, 'bad_rejected': 0, 'max_state_bytes': 0}
    for v in verdicts:
        for l, o in zip(v['case'], v['impl']):
            if l.startswith('fetchstate'): d['transfers'] += 1
            elif l.startswith('badstate'):
                d['bad_peers'] += 1
                if o == 'rejected': d['bad_rejected'] += 1
            elif l.startswith('localstate') and 'bytes=' in o:
                d['max_state_bytes'] = max(d['max_state_bytes'], int(o.split('bytes=')[1]))
    return d
