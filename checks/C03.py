"""C03 — merging replica states is commutative, associative and idempotent."""
import itertools
from checks.tsutil import *
from checks.orswotgen import *

ID = 'C03'
LEAN_MODULES = ['C03', 'C03b']
RULE = ('one case = 2-3 replicas (OrSWotSet<1|2>) each built from its own list of inserts/deletes (pairwise distinct stamps, <=3 origins, <=4 keys; '
        'half of the cases with all stamps of one origin inside the forgiveness window, boundary gaps F-4/F/F+4 included), then a sequence of merges in '
        'every order / grouping / repetition up to length 4; after the merges: dump, get, cut-off probes, and the Lean LWW oracle over the union of the '
        'merged histories (printed when the Window hypothesis holds, or when every state of the derivation had applied a gap-free prefix of the declared history); commutativity/associativity/idempotence are checked pairwise on the dumps by the '
        'python oracle; non-trivial = at least one key on which two replicas disagree before merging; distinct by hash')
ASSUMPTIONS = ['replica states are built by insert/delete/merge only (no purge), as in the property quantifier',
               'FORGIVENESS_PERIOD = 3600 s; valid stamps']
TRUSTED_BASE = ['correspondence: dcharness (real OrSWotSet::merge/insert/delete/diff) vs dcdriver (Datacake.OrSwot.merge model); LWW oracle = Datacake.Lww.lww over the union history']
THEOREM_NOTE = 'Datacake.OrSwot.merge / mergeStep / leftoverStep / mergeVersions (Model/Orswot.lean)'
EXHAUSTIVE = {'thorough': True}


def build(reg, ops):
    return ['%s %d %d %d %d' % (kd, reg, src, k, t) for (kd, src, k, t) in ops]


def merge_script(rng, nreg):
    """returns list of lines doing merges + checks; registers 0..nreg-1 are the replicas, 3 is scratch"""
    lines = []
    regs = list(range(nreg))
    # commutativity: X = a.merge(b) vs Y = b.merge(a)
    a, b = rng.shuffle(regs)[:2]
    lines += ['copy 3 %d' % a, 'merge 3 %d' % b, 'lww 3', 'tag X', 'dump 3',
              'copy 3 %d' % b, 'merge 3 %d' % a, 'lww 3', 'tag Y', 'dump 3',
              'merge 3 %d' % a, 'tag Yidem', 'dump 3', 'merge 3 %d' % b, 'tag Yidem2', 'dump 3']
    # any order / grouping / repetition
    seq = [rng.choice(regs) for _ in range(rng.range(2, 4))]
    lines += ['copy 3 %d' % seq[0]] + ['merge 3 %d' % r for r in seq[1:]] + ['lww 3', 'tag S', 'dump 3']
    seq2 = rng.shuffle(seq) + [rng.choice(seq)]
    lines += ['copy 3 %d' % seq2[0]] + ['merge 3 %d' % r for r in seq2[1:]] + ['lww 3', 'tag S2', 'dump 3']
    if nreg == 3:
        # associativity: (a.merge(b)).merge(c) vs a.merge(b.merge(c))
        lines += ['copy 3 0', 'merge 3 1', 'merge 3 2', 'lww 3', 'tag L', 'dump 3',
                  'copy 3 1', 'merge 3 2', 'copy 2 3', 'copy 3 0', 'merge 3 2', 'lww 3', 'tag R', 'dump 3']
    for nd in (0, 1, 2):
        lines.append('cut 3 %d' % nd)
    return lines


def gen_case(rng, idx):
    mode = rng.below(3)   # 0: window, 1: gap-free prefixes, 2: unconstrained (model/implementation agreement only)
    pool = StampPool(rng, origins=rng.range(1, 3), window=(mode == 0))
    n = rng.range(1, 2)
    nreg = rng.range(2, 3)
    keys = [1, 2, 3, 4][:rng.range(1, 4)]
    lines = ['case %d orswot %d' % (idx, n)]
    # a shared pool of operations; each replica applies a random subset in ascending order per origin
    allops = [(rng.choice(['ins', 'ins', 'del']), rng.below(n), rng.choice(keys), pool.stamp()) for _ in range(rng.range(2, 10))]
    lines.append('hist ' + ','.join('%d:%d:%d' % (k, t, 1 if kd == 'del' else 0) for (kd, _, k, t) in allops))
    for r in range(nreg):
        if mode == 1:
            mine = []
            for nd in pool.origins:
                ops_n = sorted([o for o in allops if node(o[3]) == nd], key=lambda o: o[3])
                mine += ops_n[:rng.range(0, len(ops_n))]
            mine.sort(key=lambda o: o[3])
        else:
            mine = [o for o in allops if rng.chance(1, 2)]
            if rng.chance(1, 2):
                mine.sort(key=lambda o: o[3])
            else:
                mine = rng.shuffle(mine)
        lines += build(r, mine)
        lines.append('dump %d' % r)
    lines += merge_script(rng, nreg)
    lines.append('mode %d' % mode)
    lines.append('end')
    return lines


def generate(rng, tier):
    n = dict(quick=1500, thorough=400000, search=30000)[tier]
    cases = [gen_case(rng.fork(), i) for i in range(n)]
    if tier != 'quick':
        # bounded universe: 3 keys x 2 origins x 4 stamps, <= 2 ops per replica, all pairs, both merge orders
        stamps = [pack(T0, 0, 0), pack(T0 + 4, 0, 0), pack(T0, 0, 1), pack(T0 + F_MS - 4, 1, 1)]
        atoms = [(kd, k, t) for kd in ('ins', 'del') for k in (1, 2, 3) for t in stamps]
        reps = [[]] + [[a] for a in atoms] + [[a, b] for a in atoms for b in atoms if a[2] < b[2] and rng.below(6) == 0]
        idx = n
        for ra in reps:
            for rb in reps:
                if rng.below(8) != 0:
                    continue
                used = [x[2] for x in ra + rb]
                # same stamp may appear in both replicas only for the same operation
                byts = {}
                ok = True
                for x in ra + rb:
                    if byts.setdefault(x[2], x) != x: ok = False
                if not ok: continue
                lines = ['case %d orswot 2' % idx] + build(0, [(a[0], 0, a[1], a[2]) for a in ra]) + build(1, [(a[0], 0, a[1], a[2]) for a in rb])
                lines += ['copy 3 0', 'merge 3 1', 'lww 3', 'tag X', 'dump 3', 'copy 3 1', 'merge 3 0', 'lww 3', 'tag Y', 'dump 3',
                          'merge 3 1', 'tag Yidem', 'dump 3', 'mode 0', 'end']
                cases.append(lines); idx += 1
    return cases


def removable(line):
    return line.split()[0] in ('ins', 'del')


def canon(line, out):
    return 'ok' if line.startswith(('tag', 'mode')) else out


def oracle(case, impl):
    bad = []
    tagged = {}
    tag = None
    for line, out in zip(case, impl):
        if out.startswith(('crash', 'panic')):
            bad.append('%s: %s' % (line, out))
        if line.startswith('tag '):
            tag = line.split()[1]
        elif line.startswith('dump 3') and tag:
            tagged[tag] = parse_dump(out)[0]   # live ids with stamps
            tag = None
    mode = [int(l.split()[1]) for l in case if l.startswith('mode')]
    if not mode or mode[0] == 2:
        return bad          # preconditions of the property not met by construction: agreement with the model only
    def same(a, b, what):
        if a in tagged and b in tagged and tagged[a] != tagged[b]:
            bad.append('%s: live entries differ: %s vs %s' % (what, tagged[a], tagged[b]))
    same('X', 'Y', 'commutativity a.merge(b) vs b.merge(a)')
    same('Y', 'Yidem', 'idempotence (re-merging an already merged state)')
    same('Y', 'Yidem2', 'idempotence (re-merging an already merged state)')
    same('S', 'S2', 'order/grouping/repetition of merges')
    same('L', 'R', 'associativity')
    return bad


def nontrivial(case, impl):
    dumps = [o for l, o in zip(case, impl) if l.startswith('dump') and not l.startswith('dump 3')]
    return len(set(dumps)) > 1


def stats(verdicts):
    d = {'mode_window': sum(1 for v in verdicts if 'mode 0' in v['case']), 'mode_gapfree': sum(1 for v in verdicts if 'mode 1' in v['case']), 'mode_free': sum(1 for v in verdicts if 'mode 2' in v['case']), 'merges': 0, 'lww_checked': 0, 'lww_skipped': 0, 'three_replicas': 0}
    for v in verdicts:
        if any(l.startswith('tag L') for l in v['case']): d['three_replicas'] += 1
        for l, m in zip(v['case'], v['model']):
            if l.startswith('merge'): d['merges'] += 1
            if l.startswith('lww'):
                if m.endswith('#spec -'): d['lww_skipped'] += 1
                else: d['lww_checked'] += 1
    return d
