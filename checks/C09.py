"""C09 — hybrid clock stamps are unique, strictly increasing and respect causality."""
from checks.tsutil import *

ID = 'C09'
EPOCH_MS = 1672534861000   # DATACAKE_EPOCH, in ms since 1970
RULE = ('each case = one clock (init value) and 1-60 send/recv calls with injected wall readings '
        '(monotone, stalled, backwards, jumps, non-multiples of 4 ms; also injected as readings of the SYSTEM clock - send-unix - before, at and in the first seconds after the datacake epoch at 1 ms resolution) and remote stamps chosen relative to the '
        'clock/wall (behind, same time with smaller/equal/larger counter, ahead within/at/beyond the drift, own node id, '
        'counter 65534/65535, fractional 250-255); non-trivial = at least one successful send AND at least one of '
        '{accepted recv, refused call, stalled-or-backwards wall}; distinct by hash of the op lines')
ASSUMPTIONS = ['wall clock readings are injected through the verif hook (get_datacake_timestamp override), or - send-unix - as the reading of the system clock itself, before the conversion to the datacake epoch (readings before 2023 included, D28)',
               'theorems assume WallOk = the wall reading is a multiple of 4 ms (the resolution of the packed stamp; get_datacake_timestamp rounds); since fix D16 there is no range condition: readings beyond the representable seconds are refused with Overflow, in the model and in the theorems']
TRUSTED_BASE = ['correspondence: dcharness (real HLCTimestamp::send/recv) vs dcdriver (Datacake.Ts.send/recv) on generated call sequences',
                'hook H1 (datacake-crdt feature verif)']
THEOREM_NOTE = 'Datacake.Ts.send / Datacake.Ts.recv (Model/Timestamp.lean); theorems send_spec, recv_spec, recv_error_iff, history_monotone, wallOfUnix_wallOk, wallOfUnix_before_epoch'


def gen_case(rng, n, idx):
    kind = rng.below(10)
    early = False
    if kind == 0:
        base = rng.range(0, 10_000_000)
        if rng.chance(1, 2):
            # the first seconds after the datacake epoch, read from the SYSTEM clock at 1 ms resolution (a clock reset to
            # 2023-01-01): every reading goes through the conversion and its rounding to the 4 ms grid
            base = rng.range(0, 2500); early = True
    elif kind == 1:
        base = (2 ** 32 - 1 - rng.range(0, 4200)) * 1000 + rng.below(1000)   # near the 32-bit limit
    else:
        base = 117_000_000_000 + rng.range(0, 10 ** 9)
    mynode = rng.below(256) if rng.chance(1, 3) else rng.below(3)
    c0kind = rng.below(6)
    if c0kind == 0:
        c0 = 0 | mynode
    elif c0kind == 1:
        c0 = pack(norm_wall(base), rng.choice([0, 1, 65534, 65535]), mynode)
    elif c0kind == 2:
        c0 = pack(norm_wall(base) + rng.choice([DRIFT_MS - 4, DRIFT_MS, DRIFT_MS + 4, 1000]), rng.below(5), mynode)
    elif c0kind == 3:
        c0 = (pack(norm_wall(base), rng.below(70000) % 65536, mynode) & ~(0xFF << 24)) | (rng.range(250, 255) << 24)
    else:
        c0 = pack(norm_wall(max(0, base - rng.range(0, 5000))), rng.below(4), mynode)
    lines = ['case %d ts' % idx, 'init %d' % c0]
    wall = base
    clock = c0  # rough tracking only, for choosing interesting remote stamps
    for _ in range(n):
        m = rng.below(10)
        if m < 3: pass                                   # stalled
        elif m < 6: wall += rng.choice([1, 3, 4, 8, 1000, 250]) if not early else rng.choice([1, 1, 2, 3, 5])
        elif m < 8: wall = max(0, wall - rng.choice([4, 8, 1000, 5000, 4_200_000]))
        else: wall += rng.choice([DRIFT_MS, DRIFT_MS + 4, 10_000_000])
        if rng.chance(1, 2):
            u = rng.below(16) if not early else rng.choice([0, 0, 0, 1, 5])
            if u == 0:      # the SYSTEM clock reading is injected instead (D28): the same instant, expressed since 1970
                lines.append('send-unix %d' % (EPOCH_MS + wall))
            elif u == 1:    # a system clock which reads a time BEFORE the datacake epoch (2023-01-01): reads as the epoch itself
                lines.append('send-unix %d' % rng.choice([0, 1, EPOCH_MS - 1, EPOCH_MS - 4, EPOCH_MS - 1000, 1656000000000, rng.below(EPOCH_MS)]))
                wall = 0
            else:
                lines.append('send %d' % wall)
            if dts(clock) < norm_wall(wall): clock = pack(norm_wall(wall), 0, mynode)
            else: clock += 256
        else:
            w = norm_wall(wall)
            ref = rng.choice([w, dts(clock)])
            k = rng.below(12)
            onode = mynode if k == 0 else (mynode + 1 + rng.below(255)) % 256
            if k == 1: ms = max(0, ref - rng.choice([4, 1000, 10 ** 6]))
            elif k in (2, 3, 4): ms = ref
            elif k == 5: ms = w + DRIFT_MS
            elif k == 6: ms = w + DRIFT_MS + 4
            elif k == 7: ms = w + DRIFT_MS - 4
            elif k == 8: ms = ref + rng.choice([4, 8, 1000])
            else: ms = max(0, ref + rng.range(-2000, 2000) // 4 * 4)
            ctr = rng.choice([0, counter(clock), max(0, counter(clock) - 1), min(65535, counter(clock) + 1), 65534, 65535, rng.below(65536)])
            msg = pack(ms, ctr, onode)
            if k == 9:
                msg = (msg & ~(0xFF << 24)) | (rng.range(250, 255) << 24)
            lines.append('recv %d %d' % (wall, msg))
            if dts(msg) <= w + DRIFT_MS and onode != mynode:
                t = max(dts(clock), w, dts(msg))
                clock = pack(t, min(65535, max(counter(clock), counter(msg)) + 1), mynode)
    lines.append('end')
    return lines


def generate(rng, tier):
    n = dict(quick=4000, thorough=600000, search=60000)[tier]
    cases = []
    for i in range(n):
        ln = rng.range(1, 12) if rng.chance(2, 3) else rng.range(12, 60)
        cases.append(gen_case(rng.fork(), ln, i))
    if tier in ('thorough', 'search'):
        # exhaustive 3-call sequences over a 6-value grid per argument
        base = 117_000_000_000
        walls = [base, base + 4, base - 4, base + DRIFT_MS, base + 1000, base + 2]
        msgs = [pack(base, 0, 2), pack(base, 65535, 2), pack(base + 4, 3, 2), pack(base + DRIFT_MS + 4, 0, 2), pack(base - 4, 9, 2), pack(base, 1, 1)]
        calls = ['send %d' % w for w in walls] + ['recv %d %d' % (w, m) for w in walls[:3] for m in msgs]
        idx = n
        for a in calls:
            for b in calls:
                for c in calls:
                    cases.append(['case %d ts' % idx, 'init %d' % pack(base, 65534, 1), a, b, c, 'end'])
                    idx += 1
    return cases


def _parse(out):
    toks = out.split()
    clock = None
    for t in toks:
        if t.startswith('clock='):
            clock = int(t[6:])
    return toks, clock


def oracle(case, impl):
    """The property itself, evaluated on what the implementation returned."""
    bad = []
    clock = 0      # a case without `init` starts from the all-zero clock
    history = []   # stamps issued or accepted so far
    mynode = 0
    for line, out in zip(case, impl):
        t = line.split()
        if t[0] == 'init':
            clock = int(t[1]); mynode = node(clock); continue
        if t[0] == 'send-unix':   # the reading of the system clock: before the epoch it counts as the epoch (truncated subtraction)
            t = ['send', str(max(0, int(t[1]) - EPOCH_MS))]
        if t[0] not in ('send', 'recv'):
            continue
        toks, after = _parse(out)
        if after is None:
            bad.append('unparsable output %r' % out); continue
        wall = norm_wall(int(t[1]))
        wall_ok = True     # no exclusion: beyond the representable range (year 2159) a call must FAIL, not wrap or panic (D16)
        if toks[0] == 'ok':
            r = int(toks[1])
            if wall_ok:
                if not after > clock:
                    bad.append('%s: clock did not strictly increase (%d -> %d)' % (line, clock, after))
                if t[0] == 'send':
                    if r != after: bad.append('%s: returned stamp differs from the clock' % line)
                    if node(r) != mynode: bad.append('%s: issued stamp does not carry the clock node id' % line)
                    if dts(r) > wall + DRIFT_MS: bad.append('%s: issued stamp more than the drift ahead of the wall clock' % line)
                    for h in history:
                        if not r > h: bad.append('%s: issued stamp %d not greater than earlier stamp %d' % (line, r, h))
                    history.append(r)
                else:
                    msg = int(t[2])
                    if not after > msg: bad.append('%s: clock %d not greater than accepted remote stamp' % (line, after))
                    if node(msg) == mynode: bad.append('%s: accepted a stamp with the clock own node id' % line)
                    if dts(msg) > wall + DRIFT_MS: bad.append('%s: accepted a stamp beyond the allowed drift' % line)
                    history.append(msg)
            clock = after
        elif toks[0].startswith('err:'):
            if after != clock:
                bad.append('%s: failed call changed the clock (%d -> %d)' % (line, clock, after))
        else:  # panic
            if wall_ok:
                bad.append('%s: panicked' % line)
            clock = after
    return bad


def nontrivial(case, impl):
    ok_send = any(l.startswith('send') and o.startswith('ok') for l, o in zip(case, impl))
    other = any((l.startswith('recv') and o.startswith('ok')) or o.startswith('err') for l, o in zip(case, impl))
    walls = [int(l.split()[1]) for l in case if l.startswith(('send', 'recv'))]
    stalled = any(b <= a for a, b in zip(walls, walls[1:]))
    return ok_send and (other or stalled)


def stats(verdicts):
    d = {}
    for v in verdicts:
        for l, o in zip(v['case'], v['impl']):
            k = l.split()[0]
            if k in ('send', 'recv', 'send-unix'):
                key = k + ':' + o.split()[0]
                d[key] = d.get(key, 0) + 1
    d['case_lengths'] = {'<=12': sum(1 for v in verdicts if len(v['case']) <= 15), '>12': sum(1 for v in verdicts if len(v['case']) > 15)}
    return d
