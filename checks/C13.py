"""C13 — a message is served exactly when its service is currently registered."""
import itertools

ID = 'C13'
LEAN_MODULES = ['C13', 'C13b', 'C13c', 'C13d']
RULE = ('one case = a real datacake_rpc::Server on loopback with three services (A and B share the message type M1, C handles M1 and M2) and a sequence of '
        'add_service / remove_service events (each add installs a new instance, so replacement is observable); after EVERY event all four (service, message) '
        'pairs are sent over a fresh client channel AND over one long-lived connection per case and classified ok:<instance> / unavailable; quick: all sequences up to length 3 plus random ones up to 10; ' 'a second family has two service TYPES registered under ONE name, a four-message service and eight single-message bystanders (16 pairs called after every event); '
        'thorough: all sequences up to length 5; non-trivial = contains a remove of a registered service while another service is registered; distinct by hash')
ASSUMPTIONS = ['(none about a hash function any more: since fix D26 a handler is keyed by its request path itself; path_keys_well_owned)',
               'hyper/h2 deliver each request to the service function (transport is exercised, not modelled)']
TRUSTED_BASE = ['correspondence: dcharness (real Server::add_service/remove_service + RpcClient::send over 127.0.0.1) vs dcdriver (Datacake.Rpc registry model); '
                'spec oracle = last-event function `registered`']
THEOREM_NOTE = 'Datacake.Rpc.addHandlers/removeHandlers/getHandler (Model/Rpc.lean); theorems served_iff_registered, remove_does_not_disable_others, remove_leaves_nothing_behind and their general forms (several types per name) in Props/C13b; at the wire (Props/C13d, Exchange.exchange over the registry as handler table): wire_unknown_refused, wire_registered_served, wire_registered_error, wire_remove_then_refused, wire_remove_keeps_others'
EXHAUSTIVE = {'quick': True, 'thorough': True}
JOBS = 8
PAIRS = [('A', 'M1'), ('B', 'M1'), ('C', 'M1'), ('C', 'M2')]
EVENTS = ['add A', 'add B', 'add C', 'remove A', 'remove B', 'remove C']
# second family: D and E are two service TYPES registered under ONE name ("shared"), S has four message types,
# P0..P7 are single-message bystanders; X and Y are two names whose request paths for the message `u64` have the same 64-bit
# std-hash value (the key of a handler used to be that hash: D26)
TYPES2 = ['D', 'E', 'S', 'G', 'H', 'I', 'J', 'K', 'L', 'X', 'Y', 'Q', 'R', 'T', 'V'] + ['P%d' % i for i in range(8)]      # G: a service whose name contains '<' and '>' (generic type); H: the same generic name with another parameter; I, J: `kv::store` / `kv_store`; K: `gen-M1-` (what a lossy sanitiser could turn G's name into); L: `pair<M1, M2>` (type_name of a two-parameter generic: a comma and a space)
PAIRS2 = [('D', 'M1'), ('E', 'M2'), ('G', 'M1'), ('H', 'M1'), ('I', 'M1'), ('J', 'M1'), ('K', 'M1'), ('L', 'M1'), ('X', 'U'), ('Y', 'U'), ('Q', 'M1'), ('R', 'M1'), ('T', 'M1'), ('V', 'M1'), ('S', 'M1'), ('S', 'M2'), ('S', 'M3'), ('S', 'M4')] + [('P%d' % i, 'M1') for i in range(8)] + [('A', 'M1'), ('C', 'M2')]
EVENTS2 = ['add %s' % t for t in TYPES2 + ['A', 'C']] + ['remove %s' % t for t in TYPES2 + ['A', 'C']]


def removable(line):
    return line.startswith(('add', 'remove', 'uri'))


def mk(idx, evs, pairs=None):
    pairs = pairs or PAIRS
    lines = ['case %d rpc' % idx]
    inst = 100
    for e in evs:
        if e.startswith('add'):
            inst += 1
            lines.append('%s %d' % (e, inst))
        else:
            lines.append(e)
        for (s, m) in pairs:
            lines.append('call %s %s' % (s, m))
        # the same requests over the long-lived connection of the case (what it served before must not stick to it)
        for (s, m) in pairs:
            lines.append('callp %s %s' % (s, m))
    lines.append('end')
    return lines


NAME_PARTS = ['gen', 'pair', 'kv', 'store', 'Svc', 'M1', 'M2', 'u8', 'alloc::vec::Vec', 'datacake_rpc::Status', '<', '>', '<', '>', ', ', '-', '_', '::', ':', '/', '%', '%3C',
              '%2F', ' ', '[', ']', '; ', '(', ')', '&', "'static", '*', '.', '~', '?', '#', '=', '+', '@', '!', '\\', '"', '{', '}', '|', '^', '`', 'é', 'ß', '€', '\t']


def gen_name(rng):
    return ''.join(rng.choice(NAME_PARTS) for _ in range(rng.range(0, 7)))


def gen_uri(rng, idx):
    """the request path for pairs of (service name, message name): arbitrary type-name-like strings; pairs built to collide under
    a lossy or non-injective encoding (one part replaced by what it could be folded to, the `/` moved between the two names)"""
    lines = ['case %d rpc' % idx]
    hx = lambda x: x.encode('utf-8').hex() or '-'
    for _ in range(rng.range(1, 6)):
        sname, mname = gen_name(rng), gen_name(rng)
        lines.append('uri %s %s' % (hx(sname), hx(mname)))
        k = rng.below(6)
        if k == 0:
            for a, b in (('<', '-'), ('>', '-'), ('<', '%3C'), (', ', ','), ('::', '_'), ('/', '%2F'), (' ', '%20'), ('%', '%25')):
                if a in sname:
                    lines.append('uri %s %s' % (hx(sname.replace(a, b)), hx(mname)))
        elif k == 1 and sname:
            cut = rng.below(len(sname) + 1)
            lines.append('uri %s %s' % (hx(sname[:cut]), hx(sname[cut:] + '/' + mname)))
            lines.append('uri %s %s' % (hx(sname + '/' + mname[:1]), hx(mname[1:])))
    lines.append('end')
    return lines


def oracle(case, impl):
    """request paths: always valid for the HTTP client, and distinct (service, message) pairs never share one (within a case)"""
    bad, seen = [], {}
    for line, out in zip(case, impl):
        t = line.split()
        if t[0] != 'uri':
            continue
        if out.startswith(('panic', 'crash')):
            bad.append('%s: %s' % (line, out)); continue
        if out.endswith('INVALID'):
            bad.append('%s: the request path is not a valid URI: the client cannot send to this service (%s)' % (line, bytes.fromhex(out.split()[1]).decode('utf-8', 'replace')))
        path = out.split()[1] if len(out.split()) > 1 else ''
        if path in seen and seen[path] != (t[1], t[2]):
            bad.append('%s: same request path as `uri %s %s`: two different (service, message) pairs share a handler key' % (line, seen[path][0], seen[path][1]))
        seen.setdefault(path, (t[1], t[2]))
    return bad


def generate(rng, tier):
    cases, idx = [], 0
    for _ in range(dict(quick=300, thorough=20000, search=2000)[tier]):
        cases.append(gen_uri(rng.fork(), 100000 + idx)); idx += 1
    maxlen = dict(quick=3, thorough=5, search=4)[tier]
    for ln in range(0, maxlen + 1):
        for evs in itertools.product(EVENTS, repeat=ln):
            cases.append(mk(idx, list(evs))); idx += 1
    for _ in range(dict(quick=150, thorough=2000, search=1000)[tier]):
        cases.append(mk(idx, [rng.choice(EVENTS) for _ in range(rng.range(4, 10))])); idx += 1
    # shared names, a wide service, bystanders: first everything is registered, then random events (removals twice as likely)
    for _ in range(dict(quick=40, thorough=1500, search=300)[tier]):
        pre = ['add %s' % t for t in rng.shuffle(TYPES2) if rng.chance(3, 4)]
        evs = pre + [rng.choice(EVENTS2 + EVENTS2[len(EVENTS2) // 2:]) for _ in range(rng.range(1, 6))]
        cases.append(mk(idx, evs, PAIRS2)); idx += 1
    # the two shapes by themselves, exhaustively short
    for evs in (['add G', 'remove G', 'add G', 'add P1', 'remove G'], ['add D', 'add E', 'remove D'], ['add E', 'add D', 'remove E'], ['add D', 'add P0', 'add E', 'remove D', 'add D'],
                ['add S'] + ['add P%d' % i for i in range(8)] + ['remove S'], ['add P%d' % i for i in range(8)] + ['add S', 'add D', 'add E', 'remove S', 'remove E']):
        cases.append(mk(idx, evs, PAIRS2)); idx += 1
    return cases


def nontrivial(case, impl):
    reg = set()
    for l in case:
        t = l.split()
        if t[0] == 'add': reg.add(t[1])
        elif t[0] == 'remove':
            if t[1] in reg and len(reg) > 1: return True
            reg.discard(t[1])
    return False


def stats(verdicts):
    d = {'calls_ok': 0, 'calls_unavailable': 0, 'calls_other': 0, 'events': 0}
    for v in verdicts:
        for l, o in zip(v['case'], v['impl']):
            if l.startswith('call'):
                if o.startswith('ok'): d['calls_ok'] += 1
                elif o == 'unavailable': d['calls_unavailable'] += 1
                else: d['calls_other'] += 1
            elif l.startswith(('add', 'remove')): d['events'] += 1
    return d
