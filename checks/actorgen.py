"""Generators for keyspace-actor request histories (C02, C07)."""
from checks.tsutil import *

T0 = 117_000_000_000


def parse_state(out):
    """'set E a:b,.. D a:b,.. | store id:ts:f,...' -> (live, dead, store_live, store_dead)"""
    s, st = out.split(' | store ')
    toks = s.split()
    def pp(x):
        return {} if x == '-' else {int(a): int(b) for a, b in (y.split(':') for y in x.split(','))}
    live, dead = pp(toks[2]), pp(toks[4])
    sl, sd = {}, {}
    if st != '-':
        for r in st.split(','):
            i, ts, tb = r.split(':')
            (sd if tb == 't' else sl)[int(i)] = int(ts)
    return live, dead, sl, sd


class Hist:
    def __init__(self, rng, backend='mem', allow_dups=False):
        self.rng = rng
        self.ids = [1, 2, 3, 4][:rng.range(2, 4)]
        if rng.chance(1, 5):
            # document ids at the boundaries of the integer types a backend may store them in (SQLite: i64)
            self.ids = rng.shuffle([1, 2 ** 63 - 1, 2 ** 63, 2 ** 64 - 1, 2 ** 32])[:rng.range(2, 4)]
        elif rng.chance(1, 5):
            # ids whose order as bytes (LMDB keys are little endian, compared bytewise) differs from their order as numbers
            self.ids = rng.shuffle([1, 45, 255, 256, 300, 65536, 2 ** 24 + 1])[:rng.range(2, 4)]
        self.origins = rng.shuffle([1, 2, 3, 9])[:rng.range(1, 3)]
        self.t = (0 if rng.chance(1, 6) else T0) + rng.below(10 ** 5) * 4   # one history in six starts at the datacake epoch (D17)
        self.allow_dups = allow_dups
        self.used = set()
        self.retry = None

    def stamp(self):
        rng = self.rng
        for _ in range(50):
            k = rng.below(10)
            if k < 5: self.t += rng.choice([4, 1000, 60000]); base = self.t
            elif k < 8: base = self.t - rng.choice([4, 1000, 60000, F_MS - 4, F_MS, F_MS + 4, 2 * F_MS])
            else: base = self.t + rng.choice([F_MS, 2 * F_MS])
            base = max(base, 0)
            st = pack(base, rng.below(3), rng.choice(self.origins))
            if st not in self.used:
                self.used.add(st); return st
        raise RuntimeError

    def data(self):
        return ''.join('%02x' % self.rng.below(256) for _ in range(self.rng.range(0, 6))) or '-'

    def request(self, fail_ok=True):
        r = self._request(fail_ok)
        # a request that was made to fail is often retried unchanged by the caller
        base = r.split(' w=')[0].replace(' fail', '')
        self.retry = base if base != r else None
        return r

    def batch_stamps(self, n):
        """`put_many` / `del_many` stamp a whole batch with ONE timestamp; repair batches carry individual ones."""
        if n and self.rng.chance(1, 2):
            return [self.stamp()] * n
        return [self.stamp() for _ in range(n)]

    def _request(self, fail_ok=True):
        rng = self.rng
        if self.retry is not None and rng.chance(1, 2):
            return self.retry
        m = rng.below(12)
        src = rng.below(2)
        suffix = ''
        if m < 3:
            if fail_ok and rng.chance(1, 6): suffix = ' fail'
            return 'set %d %d %d %s%s' % (src, rng.choice(self.ids), self.stamp(), self.data(), suffix)
        if m < 5:
            if fail_ok and rng.chance(1, 6): suffix = ' fail'
            return 'del %d %d %d%s' % (src, rng.choice(self.ids), self.stamp(), suffix)
        if m < 8:
            n = rng.range(0, 6)
            ids = [rng.choice(self.ids) for _ in range(n)] if self.allow_dups else rng.shuffle(self.ids)[:n]
            docs = ['%d:%d:%s' % (i, st, self.data()) for i, st in zip(ids, self.batch_stamps(len(ids)))]
            if fail_ok and rng.chance(1, 3):
                suffix = ' w=' + (','.join(str(j) for j in range(len(docs)) if rng.chance(1, 2)) or '-')
            return 'mset %d %s%s' % (src, ','.join(docs) or '-', suffix)
        if m < 10:
            n = rng.range(0, 5)
            ids = [rng.choice(self.ids) for _ in range(n)] if self.allow_dups else rng.shuffle(self.ids)[:n]
            docs = ['%d:%d' % (i, st) for i, st in zip(ids, self.batch_stamps(len(ids)))]
            if fail_ok and rng.chance(1, 3):
                suffix = ' w=' + (','.join(str(j) for j in range(len(docs)) if rng.chance(1, 2)) or '-')
            return 'mdel %d %s%s' % (src, ','.join(docs) or '-', suffix)
        if fail_ok and rng.chance(1, 3):
            suffix = ' w=' + (','.join(str(j) for j in range(4) if rng.chance(1, 2)) or '-')
        return 'purge' + suffix
