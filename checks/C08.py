"""C08 — purging tombstones is invisible and deletes stay deleted."""
from checks.tsutil import *
from checks.orswotgen import *

ID = 'C08'
LEAN_MODULES = ['C08', 'C08b', 'C08c']
RULE = ('one case = 1-3 replicas (OrSWotSet<2>, some <1>) that each receive the same pool of inserts/deletes (<=3 origins, <=4 keys, distinct stamps) in their own '
        'arrival order and through random sources, with purge_old_deletes calls inserted at arbitrary positions; half of the cases are timely by construction (every '
        'operation arrives less than F after everything the replica had applied: stamps spread over up to 3 hours but delivered in near-stamp order), the rest are untimely '
        '(model agreement only). After every purge: dump, cut-off probes, and will_apply/insert/delete probes at and below each purged tombstone from the deleting node; '
        'at the end the live entries of every replica are compared with the Lean LWW oracle (printed only when the arrival order is timely) and with each other; '
        'a second family replays valid TIMED CLUSTER RUNS of the C08b model on 2-3 real replicas (every operation delivered to every replica, duplicates included, less than D = 1000 s after its stamp and never more than the skew of 1000 s early; purges and real diff/apply exchanges at arbitrary moments; stamps spread over hours) and checks that every replica ends on exactly the last-writer-wins live documents (python oracle + Lean lww); ' 'non-trivial = at least one purge that actually removed a tombstone; distinct by hash')
ASSUMPTIONS = ['timeliness (delivery delay + clock skew < forgiveness period) is a hypothesis of the cluster statement; it is checked on the arrival order by the driver before the oracle is printed',
               'FORGIVENESS_PERIOD = 3600 s; valid stamps']
TRUSTED_BASE = ['correspondence: dcharness (real purge_old_deletes / insert / delete / will_apply) vs dcdriver (Datacake.OrSwot.purgeOldDeletes model)']
THEOREM_NOTE = 'Datacake.OrSwot.purgeOldDeletes / isBefore (Model/Orswot.lean); theorems purge_local, purge_keeps_live, purged_stays_refused; cluster level (Props/C08b): live_is_lww_of_applied, timely_purge_invisible, purging_equals_never_purging'


def removable(line):
    return line.split()[0] in ('ins', 'del', 'purge')


def removable_for(case):
    """Shrinking must stay inside the property's premise: in a timed cluster run a delivery cannot be dropped
    (every operation reaches every replica in time); purges and exchanges can."""
    if 'tag timed' in case:
        return lambda line: line.split()[0] in ('purge', 'applydiff')
    return removable


def canon(line, out):
    return 'ok' if line.startswith(('tag', 'mode')) else out


def gen_case(rng, idx):
    timely = rng.chance(1, 2)
    n = 2 if rng.chance(3, 4) else 1
    nreg = rng.range(1, 3)
    origins = rng.shuffle([0, 1, 2, 9])[:rng.range(1, 3)]
    keys = [1, 2, 3, 4][:rng.range(1, 4)]
    # stamps over up to 3 hours, ascending
    ops, t = [], T0
    used = set()
    for _ in range(rng.range(3, 14)):
        t += rng.choice([4, 1000, 60_000, 600_000, F_MS - 4, F_MS, F_MS + 4, 1_800_000])
        st = pack(t, rng.below(3), rng.choice(origins))
        if st in used: continue
        used.add(st)
        ops.append((rng.choice(['ins', 'del', 'del']), rng.choice(keys), st))
    lines = ['case %d orswot %d' % (idx, n)]
    for r in range(nreg):
        order = list(ops)
        if timely:
            # local perturbation: swap neighbours whose times are less than F apart (keeps arrival timely)
            for i in range(len(order) - 1):
                if rng.chance(1, 3) and abs(dts(order[i][2]) - dts(order[i + 1][2])) < F_MS - 8 and \
                        (i == 0 or dts(order[i - 1][2]) < dts(order[i + 1][2]) + F_MS - 8):
                    order[i], order[i + 1] = order[i + 1], order[i]
        else:
            order = rng.shuffle(order)
        for (kd, k, st) in order:
            srcs = [rng.below(n)] if rng.chance(1, 2) else list(range(n))   # through one source, or through all (e.g. broadcast + repair)
            for j, src in enumerate(srcs):
                lines.append('%s %d %d %d %d' % (kd, r, src, k, st))
            if rng.chance(1, 3):
                lines += ['dump %d' % r, 'purge %d' % r, 'tag purged', 'dump %d' % r]
                for nd in origins:
                    lines.append('cut %d %d' % (r, nd))
        lines += ['dump %d' % r, 'purge %d' % r, 'tag purged', 'dump %d' % r, 'lwwlive %d' % r]
    lines.append('mode %d' % (0 if timely else 2))
    lines.append('end')
    return lines, ops


DELAY = 1_000_000     # D: bound on the delivery delay (ms)
SKEW = 1_000_000      # sigma: bound on the clock skew (ms); D + sigma <= F as C08b.Params demands


def gen_timed(rng, idx):
    """A valid timed run of the C08b cluster model on 2-3 real replicas: every operation reaches every replica less than D
    after its stamp (duplicates too, any source), never from further in the future than the skew; purges and anti-entropy
    exchanges (real diff against the peer's current, possibly purged, state) at arbitrary moments; stamps spread over hours."""
    nreg = rng.range(2, 3)
    origins = rng.shuffle([0, 1, 2, 9])[:rng.range(1, 3)]
    keys = [1, 2, 3][:rng.range(1, 3)]
    ops, t, used = [], T0, set()
    for _ in range(rng.range(3, 12)):
        t += rng.choice([4, 1000, 60_000, 600_000, 1_800_000, F_MS - 4, F_MS, F_MS + 4, 2 * F_MS])
        st = pack(t, rng.below(3), rng.choice(origins))
        if st in used: continue
        used.add(st)
        ops.append((rng.choice(['ins', 'del', 'del']), rng.choice(keys), st))
    events = []     # (time, order, line)
    seq = 0
    for (kd, k, st) in ops:
        for r in range(nreg):
            # first delivery, then possibly duplicates, each within [stamp - skew, stamp + D)
            for d in range(1 + (1 if rng.chance(1, 3) else 0) + (1 if rng.chance(1, 6) else 0)):
                off = rng.choice([0, 0, 4, 1000, 500_000, DELAY - 4, -4, -1000, -SKEW])
                tau = max(0, dts(st) + off)
                srcs = [rng.below(2)] if rng.chance(1, 2) else [0, 1]
                for src in srcs:
                    seq += 1
                    events.append((tau, seq, '%s %d %d %d %d' % (kd, r, src, k, st)))
    tmin, tmax = min(e[0] for e in events), max(e[0] for e in events)
    for _ in range(rng.range(1, 6)):
        seq += 1
        events.append((rng.range(tmin, tmax + 10), seq, 'purge %d' % rng.below(nreg)))
    for _ in range(rng.range(0, 4)):
        j = rng.below(nreg); i = (j + 1 + rng.below(nreg - 1)) % nreg
        seq += 1
        events.append((rng.range(tmin, tmax + 10), seq, 'applydiff %d %d 1 %d' % (j, i, rng.choice([0, 1, 2 + 2 * rng.below(64)]))))
    events.sort()
    validate_timed(events, ops, nreg)
    lines = ['case %d orswot 2' % idx, 'tag timed']
    for (_, _, l) in events:
        if l.startswith('purge'):
            r = l.split()[1]
            lines += ['dump %s' % r, l, 'tag purged', 'dump %s' % r]
        else:
            lines.append(l)
    for r in range(nreg):
        lines += ['dump %d' % r, 'purge %d' % r, 'tag purged', 'dump %d' % r, 'lwwlive %d' % r]
    lines += ['mode 0', 'end']
    return lines, ops


def validate_timed(events, ops, nreg):
    """The hypotheses of C08b.ValidRun, checked on the generated schedule: each delivery is admissible at its time, and at
    every event every operation at least D old has already been delivered to every replica."""
    delivered = {}
    for (tau, _, l) in events:
        for (kd, k, st) in ops:
            if dts(st) + DELAY <= tau:
                for r in range(nreg):
                    assert (r, st) in delivered, 'untimely schedule: %d not yet at replica %d at time %d' % (st, r, tau)
        t = l.split()
        if t[0] in ('ins', 'del'):
            st = int(t[4])
            assert dts(st) <= tau + SKEW and tau < dts(st) + DELAY, 'inadmissible delivery %s at %d' % (l, tau)
            delivered[(int(t[1]), st)] = True
    for (kd, k, st) in ops:
        for r in range(nreg):
            assert (r, st) in delivered


def py_lww_live(ops):
    best = {}
    for (kd, k, st) in ops:
        rank = 2 * st + (1 if kd == 'ins' else 0)
        if k not in best or rank > best[k]: best[k] = rank
    return {k: r // 2 for k, r in best.items() if r % 2 == 1}


def generate(rng, tier):
    n = dict(quick=2000, thorough=250000, search=30000)[tier]
    cases = []
    for i in range(n):
        lines, ops = gen_case(rng.fork(), i)
        # probes after each purge are stamps taken from the pool: every delete stamp and the stamp just below it
        out = []
        dels = [(k, st) for (kd, k, st) in ops if kd == 'del']
        for l in lines:
            out.append(l)
            if l.startswith('tag purged'):
                r = int(out[-2].split()[1])
                for (k, st) in dels[:4]:
                    out.append('will %d %d %d' % (r, k, st))
                    if st >= 512: out.append('will %d %d %d' % (r, 77, st - 256))
        cases.append(out)
    for i in range(dict(quick=600, thorough=100000, search=8000)[tier]):
        lines, ops = gen_timed(rng.fork(), n + i)
        cases.append(lines)
    return cases


def oracle(case, impl):
    bad = []
    mode = [int(l.split()[1]) for l in case if l.startswith('mode')]
    purged_by_reg = {}
    prev_dump = {}
    final_live = {}
    i = 0
    while i < len(case):
        line, out = case[i], impl[i]
        t = line.split()
        if out.startswith(('crash', 'panic')):
            bad.append('%s: %s' % (line, out))
        if t[0] == 'dump':
            prev_dump[t[1]] = parse_dump(out)
            both = set(prev_dump[t[1]][0]) & set(prev_dump[t[1]][1])
            if both:
                bad.append('%s: ids %s are live AND tombstoned at once (a purge would hand a live id to remove_tombstones)' % (line, sorted(both)))
        elif t[0] == 'purge':
            r = t[1]
            purged = {} if out == '-' else {int(a): int(b) for a, b in (x.split(':') for x in out.split(','))}
            before = prev_dump.get(r)
            after = parse_dump(impl[i + 2]) if i + 2 < len(case) and case[i + 2].startswith('dump') else None
            if before and after:
                if before[0] != after[0]:
                    bad.append('%s changed the live entries: %s -> %s' % (line, before[0], after[0]))
                for k, d in purged.items():
                    if k in before[0]: bad.append('%s returned key %d which is live: purging must remove only tombstones' % (line, k))
                    if before[1].get(k) != d: bad.append('%s returned (%d,%d) which was not a tombstone' % (line, k, d))
                    if k in after[1]: bad.append('%s returned key %d but kept its tombstone' % (line, k))
                for k, d in after[1].items():
                    if before[1].get(k) != d: bad.append('%s invented/changed tombstone %d' % (line, k))
                if set(after[1]) | set(purged) != set(before[1]):
                    bad.append('%s lost a tombstone without reporting it' % line)
            purged_by_reg.setdefault(r, {}).update(purged)
        elif t[0] == 'will':
            r, k, st = t[1], int(t[2]), int(t[3])
            for pk, pd in purged_by_reg.get(r, {}).items():
                if node(st) == node(pd) and st <= pd and out != 'false':
                    bad.append('%s: an operation from the deleting node not newer than the purged delete (%d,%d) would still be applied' % (line, pk, pd))
        elif t[0] == 'lwwlive':
            final_live[t[1]] = out
        i += 1
    if 'tag timed' in case:
        ops = {}
        for l in case:
            t = l.split()
            if t[0] in ('ins', 'del') and len(t) == 5: ops[(t[0], int(t[3]), int(t[4]))] = 1
        want = py_lww_live(list(ops))
        for r, out in final_live.items():
            got = parse_dump(out + ' D -')[0] if out.startswith('E ') else None
            if got != want:
                bad.append('timely cluster run with purges: replica %s ends with live entries %s, the last-writer-wins live documents are %s' % (r, got, want))
    if mode and mode[0] == 0 and len(set(final_live.values())) > 1:
        bad.append('timely replicas that received the same operations expose different live entries: %s' % final_live)
    return bad


def nontrivial(case, impl):
    return any(l.startswith('purge') and o != '-' for l, o in zip(case, impl))


def stats(verdicts):
    d = {'timely_cases': 0, 'untimely_cases': 0, 'purges': 0, 'purges_nonempty': 0, 'tombstones_purged': 0, 'lwwlive_checked': 0, 'lwwlive_skipped': 0, 'probes': 0, 'probes_refused': 0}
    for v in verdicts:
        if 'mode 0' in v['case']: d['timely_cases'] += 1
        else: d['untimely_cases'] += 1
        for l, o, m in zip(v['case'], v['impl'], v['model']):
            if l.startswith('purge'):
                d['purges'] += 1
                if o != '-': d['purges_nonempty'] += 1; d['tombstones_purged'] += o.count(':')
            elif l.startswith('lwwlive'):
                if m.endswith('#spec -'): d['lwwlive_skipped'] += 1
                else: d['lwwlive_checked'] += 1
            elif l.startswith('will'):
                d['probes'] += 1
                if o == 'false': d['probes_refused'] += 1
    return d
