"""C14 — under network faults an RPC answers correctly or fails; never twice or mixed."""
import os
import vlib

ID = 'C14'
HARNESS_DIR = 'harness-sim'
HARNESS_BIN = os.path.join(vlib.CACHE, 'target-sim', 'debug', 'dcsim')
EXTRA_HARNESS_DIRS = ['harness']
HARNESS_BIN_BY_DOMAIN = {'rpc': vlib.HARNESS_BIN}      # the real transport (hyper over loopback TCP) through a byte proxy
RULE = ('one case = one turmoil simulation of the real datacake-rpc client and server (feature `simulation`): 1-4 clients x 1-6 requests each (sequential and concurrently in flight, handler delays 0 / 5 / 300 / 2500 ms, '
        'with a 2 s client timeout or none; plus 1-4 long polls answered by a later request on the same channel, no fault (runrv); plus long outages: 35-60 requests on one channel through a partition lasting tens of seconds) under a seeded schedule of partition / hold / release / repair events placed before connection set-up, between requests, during handler runs and before replies; '
        'the observed event trace (send, handler begin/end, completion with outcome and simulated time) must be a run of the Lean protocol model RpcNet (trace inclusion = the correspondence; protocol_runs_satisfy_spec: every run => Spec) and is independently checked by the Lean monitor (monitor_sound: accepted => Spec): every completion is the reply computed for that very '
        'request or a connection/timeout error, no request is executed twice, no reply without a handler run, completion within timeout + 25 ms. The five scenarios of simulation-tests/tests/rpc.rs are in the schedule list. '
        'non-trivial = at least one fault event and at least one completed request; distinct by hash')
ASSUMPTIONS = ['turmoil is the network; hyper/h2 deliver each request to the service at most once and match replies to streams: these are OBSERVED by the monitor on sampled schedules, not proved (partial)',
               'without a client timeout a held link blocks the call for ever (documented behaviour); the harness bounds its own wait']
TRUSTED_BASE = ['dcsim (harness-sim: real RpcClient/Server over turmoil) produces the trace; dcdriver evaluates RpcNet.firstRefused (model acceptance) and Monitor.firstBad on it', 'RpcNet assumptions about hyper/h2/turmoil (a stream request is never duplicated, replies are matched to their stream) are checked by trace inclusion on sampled schedules only']
THEOREM_NOTE = 'Datacake.RpcNet (Model/RpcNet.lean) + Datacake.Monitor.Spec; theorems protocol_runs_satisfy_spec, accepted_trace_satisfies_spec, protocol_reply_is_own, protocol_handler_at_most_once, monitor_sound, monitor_complete, reply_is_own, handler_at_most_once, within_timeout'
JOBS = 8
SHRINK = False


def augment(case, impl):
    out = []
    for l, o in zip(case, impl):
        if l.startswith('run') and o.startswith('trace '):
            t = o.split()
            tau = t[2].split('=')[1]
            out.append('sim-trace %s %s' % (tau, ' '.join(t[3:])))
        else:
            out.append(l)
    return out


def canon(line, out):
    if line.startswith('proxy') and out.startswith('proxy setup-failed'):
        return 'proxy ' + {'none': 'reply', 'close': 'conn'}.get(line.split()[3], 'timeout') + ' in-time'
    if line.startswith('run'):
        return 'trace' if out.startswith(('trace done', 'trace')) and 'simerr' not in out and not out.startswith('trace\t') else out
    return out


def gen_faults(rng, clients):
    evs = []
    t = 0
    for _ in range(rng.range(0, 5)):
        t += rng.choice([10, 60, 200, 450, 900, 2100])
        c = rng.below(clients)
        k = rng.choice('PHLX')
        evs.append('%d%s%d' % (t, k, c))
    return ','.join(evs) or '-'


def generate(rng, tier):
    n = dict(quick=160, thorough=40000, search=1500)[tier]
    cases = []
    fixed = ['0P0', '0H0', '250H0', '250H0,2600L0', '40P0,1500X0', '-']   # the scenarios of simulation-tests
    for i in range(n):
        clients = rng.range(1, 4)
        reqs = rng.range(1, 6)
        tau = rng.choice([2000, 2000, 500, 1000, 0])
        faults = fixed[i] if i < len(fixed) else gen_faults(rng, clients)
        if tau == 0 and ('H' in faults or 'P' in faults):
            tau = rng.choice([2000, 500])      # without a client timeout a held or partitioned link pends for ever by design (turmoil never retransmits)
        cases.append(['case %d sim' % i, 'run %d %d %d %d %s' % (rng.below(1 << 31), clients, reqs, tau, faults), 'end'])
    # long outages: one channel sees dozens of consecutive failed connection attempts (a partition from the start, or from the
    # middle), then the link is repaired (or not) and more requests follow: every one of them must still end in a reply or an error
    for k in range(dict(quick=4, thorough=200, search=20)[tier]):
        reqs = rng.choice([35, 45, 60])
        tau = rng.choice([300, 500])
        faults = rng.choice(['0P0', '0P0,%dX0' % rng.choice([12000, 20000, 30000]), '%dP0,%dX0' % (rng.choice([400, 3000]), rng.choice([25000, 40000])), '0H0,%dL0' % rng.choice([15000, 30000])])
        cases.append(['case %d sim' % (n + k), 'run %d 1 %d %d %s' % (rng.below(1 << 31), reqs, tau, faults), 'end'])
    # faults while the BODY of a reply is in flight (the response head has arrived): a reply larger than the initial HTTP/2 window
    # needs several flights; the link is held / partitioned between them (simulated network, latency pinned to 10 ms: request
    # arrives at +10, head and first flight at +20), or - on the real transport, through a byte proxy - goes quiet or is torn
    # down after a byte budget.  (An unharmed multi-flight reply is not generated in the simulator: turmoil 0.4 panics on it.)
    base = len(cases)
    nb = dict(quick=24, thorough=600, search=80)[tier]
    for k in range(nb):
        tau = rng.choice([500, 1000, 2000])
        size = rng.choice([100000, 200000, 1000000])
        at = rng.choice([2, 5, 10, 12, 15, 18, 20, 22, 25, 28])
        # one in three: the large answer is an ERROR status (400 + a Status frame of that size), read by another branch of the client
        cases.append(['case %d sim' % (base + k), 'runbig %d %d %s %d%s' % (tau, size, rng.choice('HP'), at, ' err' if k % 3 == 2 else ''), 'end'])
    cases.append(['case %d sim' % (base + nb), 'runbig 2000 1000 - 0', 'end'])
    cases.append(['case %d sim' % (base + nb + 1), 'runbig 2000 1000 - 0 err', 'end'])
    # concurrent requests that DEPEND on each other, on one channel and a healthy network (the empty fault schedule): long polls
    # which are answered once a later request has been handled.  Each request travels on its own HTTP/2 stream, so all of them
    # return; a channel that carries one request at a time (D31) leaves them pending for ever, with no fault at all.
    base = len(cases)
    nr = dict(quick=12, thorough=400, search=40)[tier]
    for k in range(nr):
        cases.append(['case %d sim' % (base + k), 'runrv %d %d %d %d' % (rng.below(1 << 31), rng.choice([0, 0, 2000, 5000]), rng.range(1, 4), rng.choice([0, 5, 100, 500, 1500])), 'end'])
    base = len(cases)
    for k in range(dict(quick=8, thorough=120, search=16)[tier]):
        tau = rng.choice([300, 500, 800])
        size = rng.choice([1 << 20, 4 << 20])
        fault = rng.choice(['hold', 'close', 'close', 'none'])
        budget = rng.choice([0, 1, 4096, 32768, size // 4])
        cases.append(['case %d rpc' % (base + k), 'proxy %d %d %s %d' % (tau, size, fault, budget), 'end'])
    return cases


def oracle(case, impl):
    bad = []
    for line, out in zip(case, impl):
        if line.startswith('run'):
            if out.startswith(('crash', 'panic')) or 'simerr' in out:
                bad.append('%s: %s' % (line, out[:100]))
        if line.startswith('proxy'):
            t, o = line.split(), out.split()
            if out.startswith('proxy setup-failed'): continue      # the machine, not the property
            if len(o) != 3 or o[2] != 'in-time': bad.append('%s: %s (a client with a timeout gets an answer or an error within that bound)' % (line, out))
            elif o[1] not in ('reply', 'conn', 'timeout'): bad.append('%s: %s (neither the handler reply nor a connection/timeout error)' % (line, out))
    return bad


def nontrivial(case, impl):
    if case[1].startswith('proxy'): return case[1].split()[3] != 'none'
    if case[1].startswith('runbig'): return case[1].split()[3] != '-'
    if case[1].startswith('runrv'): return sum(1 for e in ' '.join(impl).split() if e.startswith('B:')) >= 2      # at least two requests were in the handlers
    return case[1].split()[5] != '-' and any(' D:' in o for o in impl)


def stats(verdicts):
    d = {'runs': 0, 'events': 0, 'replies': 0, 'conn_errors': 0, 'timeouts': 0, 'handler_runs': 0, 'with_faults': 0}
    for v in verdicts:
        for l, o in zip(v['case'], v['impl']):
            if l.startswith('proxy'): d['real_transport_body_faults'] = d.get('real_transport_body_faults', 0) + 1
            if l.startswith('runbig'): d['sim_body_faults'] = d.get('sim_body_faults', 0) + 1
            if l.startswith('runrv'):
                d['sim_dependent_concurrent'] = d.get('sim_dependent_concurrent', 0) + 1
                # not a violation by the letter of C14 (a connection error is an allowed outcome), but worth seeing: with no fault
                # scheduled nothing should fail (simultaneous requests on one simulated channel did, between a85e19d and its follow-up)
                d['fault_free_conn_errors'] = d.get('fault_free_conn_errors', 0) + sum(1 for e in o.split() if ':conn:' in e)
            if l.startswith('run ') and o.startswith('trace'):
                d['runs'] += 1
                ev = o.split()[3:]
                d['events'] += len(ev)
                d['replies'] += sum(1 for e in ev if e.startswith('D:') and ':r' in e)
                d['conn_errors'] += sum(1 for e in ev if ':conn:' in e)
                d['timeouts'] += sum(1 for e in ev if ':timeout:' in e)
                d['handler_runs'] += sum(1 for e in ev if e.startswith('B:'))
                if l.split()[5] != '-': d['with_faults'] += 1
    return d
