#![cfg(feature = "test-utils")]
//! Scratch (hunt C01): the real stack (chitchat membership, distributor, poller) under
//! concurrent clients, then a late joiner; all nodes must end up equal.

use std::collections::BTreeMap;
use std::time::Duration;

use datacake_crdt::{HLCTimestamp, Key};
use datacake_eventual_consistency::test_utils::MemStore;
use datacake_eventual_consistency::{
    EventuallyConsistentStoreExtension,
    ReplicatedStoreHandle,
};
use datacake_node::{
    ConnectionConfig,
    Consistency,
    DCAwareSelector,
    DatacakeNode,
    DatacakeNodeBuilder,
};
use rand::rngs::StdRng;
use rand::{Rng, SeedableRng};

static KEYSPACES: [&str; 2] = ["ks-a", "ks-b"];
const IDS: [Key; 6] = [0, 1, 2, 3, u64::MAX, 1 << 63];

async fn live(
    handle: &ReplicatedStoreHandle<MemStore>,
) -> BTreeMap<(String, Key), (HLCTimestamp, Vec<u8>)> {
    let mut out = BTreeMap::new();
    for ks in KEYSPACES {
        for (id, _, tombstone) in handle.iter_metadata(ks).await.unwrap() {
            if tombstone {
                continue;
            }
            if let Some(doc) = handle.get(ks, id).await.unwrap() {
                out.insert(
                    (ks.to_string(), id),
                    (doc.last_updated(), doc.data().to_vec()),
                );
            }
        }
    }
    out
}

async fn client(handle: ReplicatedStoreHandle<MemStore>, seed: u64, ops: usize) {
    let mut rng = StdRng::seed_from_u64(seed);
    for i in 0..ops {
        let ks = KEYSPACES[rng.gen_range(0..2)];
        let id = IDS[rng.gen_range(0..IDS.len())];
        let consistency = match rng.gen_range(0..4) {
            0 => Consistency::None,
            1 => Consistency::One,
            2 => Consistency::Quorum,
            _ => Consistency::All,
        };
        let data = format!("{seed}-{i}").into_bytes();
        let res = match rng.gen_range(0..4) {
            0 => handle.put(ks, id, data, consistency).await,
            1 => handle.del(ks, id, consistency).await,
            2 => {
                let other = IDS[rng.gen_range(0..IDS.len())];
                handle
                    .put_many(ks, [(id, data.clone()), (other, data)], consistency)
                    .await
            },
            _ => {
                let other = IDS[rng.gen_range(0..IDS.len())];
                handle.del_many(ks, [id, other], consistency).await
            },
        };
        if let Err(e) = res {
            println!("op failed: {e}");
        }
        tokio::time::sleep(Duration::from_millis(rng.gen_range(0..30))).await;
    }
}

#[tokio::test(flavor = "multi_thread", worker_threads = 4)]
async fn fullstack() -> anyhow::Result<()> {
    let addrs: Vec<_> = (0..4).map(|_| test_helper::get_unused_addr()).collect();
    let seeds: Vec<String> = addrs.iter().map(|a| a.to_string()).collect();

    let mut nodes: Vec<DatacakeNode> = Vec::new();
    for i in 0..3 {
        let cfg = ConnectionConfig::new(addrs[i], addrs[i], seeds.clone());
        nodes.push(
            DatacakeNodeBuilder::<DCAwareSelector>::new(i as u8 + 1, cfg)
                .connect()
                .await?,
        );
    }
    for (i, node) in nodes.iter().enumerate() {
        let others: Vec<u8> = (1..=3).filter(|id| *id != i as u8 + 1).collect();
        node.wait_for_nodes(&others, Duration::from_secs(60)).await?;
    }

    let mut stores = Vec::new();
    for node in &nodes {
        stores.push(
            node.add_extension(EventuallyConsistentStoreExtension::new(MemStore::default()))
                .await?,
        );
    }
    tokio::time::sleep(Duration::from_secs(2)).await;

    let round: u64 = std::env::var("FS_SEED").ok().and_then(|v| v.parse().ok()).unwrap_or(1);
    let mut tasks = Vec::new();
    for (i, store) in stores.iter().enumerate() {
        for c in 0..2 {
            tasks.push(tokio::spawn(client(
                store.handle(),
                round * 1000 + (i as u64) * 10 + c,
                120,
            )));
        }
    }
    for task in tasks {
        task.await?;
    }

    // Late joiner.
    let cfg = ConnectionConfig::new(addrs[3], addrs[3], seeds.clone());
    let node_4 = DatacakeNodeBuilder::<DCAwareSelector>::new(4, cfg).connect().await?;
    node_4.wait_for_nodes(&[1, 2, 3], Duration::from_secs(60)).await?;
    let store_4 = node_4
        .add_extension(EventuallyConsistentStoreExtension::new(MemStore::default()))
        .await?;
    stores.push(store_4);

    let mut last = Vec::new();
    for attempt in 0..30 {
        tokio::time::sleep(Duration::from_secs(1)).await;
        last.clear();
        for store in &stores {
            last.push(live(&store.handle()).await);
        }
        if last.iter().all(|l| l == &last[0]) && attempt >= 5 {
            println!("converged after {attempt} s on {} live docs", last[0].len());
            return Ok(());
        }
    }
    for (i, l) in last.iter().enumerate() {
        println!("node {}: {:?}", i + 1, l);
    }
    panic!("not converged");
}
