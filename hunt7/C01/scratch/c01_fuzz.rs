#![cfg(all(feature = "verif", feature = "test-utils"))]
//! Scratch fuzz harness (hunt C01).

use std::collections::BTreeMap;
use std::marker::PhantomData;
use std::net::SocketAddr;
use std::sync::Arc;

use datacake_crdt::{HLCTimestamp, Key};
use datacake_eventual_consistency::test_utils::MemStore;
use datacake_eventual_consistency::verif::{
    repair_peer,
    repair_peer_concurrent,
    BatchPayload,
    ConsistencyClient,
    ConsistencyService,
    Context,
    Del,
    DocVec,
    KeyspaceGroup,
    MultiDel,
    MultiPutPayload,
    MultiRemovePayload,
    MultiSet,
    ReplicationService,
    Set,
    Tracker,
    CONSISTENCY_SOURCE_ID,
};
use datacake_eventual_consistency::{Document, DocumentMetadata, Storage};
use datacake_node::{Clock, RpcNetwork};
use datacake_rpc::Server;
use rand::rngs::StdRng;
use rand::seq::SliceRandom;
use rand::{Rng, SeedableRng};

static KEYSPACES: [&str; 3] = ["ks-a", "ks b/ü", ""];
const IDS: [Key; 7] = [0, 1, 2, 3, u64::MAX, 1 << 63, 77];

struct Node {
    id: u8,
    addr: SocketAddr,
    clock: Clock,
    group: KeyspaceGroup<MemStore>,
    network: RpcNetwork,
    tracker: Tracker,
    pending_put: BTreeMap<String, DocVec<Document>>,
    pending_del: BTreeMap<String, DocVec<DocumentMetadata>>,
    _server: Server,
}

impl Node {
    async fn start(id: u8) -> Self {
        let addr = test_helper::get_unused_addr();
        let clock = Clock::new(id);
        let group = KeyspaceGroup::new(Arc::new(MemStore::default()), clock.clone()).await;
        let network = RpcNetwork::default();
        let server = Server::listen(addr).await.expect("listen");
        server.add_service(ConsistencyService::new(group.clone(), network.clone()));
        server.add_service(ReplicationService::new(group.clone()));
        Self {
            id,
            addr,
            clock,
            group,
            network,
            tracker: Tracker::default(),
            pending_put: BTreeMap::new(),
            pending_del: BTreeMap::new(),
            _server: server,
        }
    }

    async fn live(&self, ks: &str) -> BTreeMap<Key, (HLCTimestamp, Vec<u8>)> {
        let storage = self.group.storage();
        let mut docs = BTreeMap::new();
        let mut ids = Vec::new();
        for (id, ts, tombstone) in storage.iter_metadata(ks).await.unwrap() {
            if tombstone {
                assert!(storage.get(ks, id).await.unwrap().is_none());
                continue;
            }
            ids.push(id);
            let doc = storage.get(ks, id).await.unwrap().expect("live doc readable");
            assert_eq!(doc.last_updated(), ts);
            docs.insert(id, (doc.last_updated(), doc.data().to_vec()));
        }
        let many: Vec<_> = storage.multi_get(ks, IDS.into_iter()).await.unwrap().collect();
        assert_eq!(many.len(), docs.len(), "multi_get vs iter_metadata");
        docs
    }
}

#[derive(Clone)]
enum Payload {
    Put(Document),
    MultiPut(DocVec<Document>),
    Del(DocumentMetadata),
    MultiDel(DocVec<DocumentMetadata>),
    Batch(Arc<BatchPayload>),
}

#[derive(Clone)]
struct Msg {
    from: usize,
    to: usize,
    ks: String,
    payload: Payload,
}

async fn deliver(nodes: &[Node], msg: &Msg) {
    let from = &nodes[msg.from];
    let to = &nodes[msg.to];
    let channel = from.network.get_or_connect(to.addr);
    let mut client = ConsistencyClient::<MemStore>::new(from.clock.clone(), channel);
    match &msg.payload {
        Payload::Put(doc) => client
            .put(msg.ks.clone(), doc.clone(), from.id, from.addr)
            .await
            .unwrap(),
        Payload::MultiPut(docs) => client
            .multi_put(msg.ks.clone(), docs.clone().into_iter(), from.id, from.addr)
            .await
            .unwrap(),
        Payload::Del(doc) => client
            .del(msg.ks.clone(), doc.id, doc.last_updated)
            .await
            .unwrap(),
        Payload::MultiDel(docs) => {
            client.multi_del(msg.ks.clone(), docs.clone()).await.unwrap()
        },
        Payload::Batch(batch) => client.apply_batch(batch).await.unwrap(),
    }
}

type Model = BTreeMap<(String, Key), (HLCTimestamp, Option<Vec<u8>>)>;

fn model_apply(model: &mut Model, ks: &str, id: Key, ts: HLCTimestamp, data: Option<Vec<u8>>) {
    let entry = model.entry((ks.to_string(), id)).or_insert((ts, data.clone()));
    // later call with the same stamp (same bulk request) wins, as the repaired code does.
    if entry.0 <= ts {
        *entry = (ts, data);
    }
}

async fn run(seed: u64, n_nodes: usize, n_ops: usize) -> Result<(), String> {
    let mut rng = StdRng::seed_from_u64(seed);
    let spread: u64 = std::env::var("FUZZ_SPREAD_MS").ok().and_then(|v| v.parse().ok()).unwrap_or(0);
    datacake_crdt::verif_clock::set_wall_ms(None);
    let t0 = datacake_crdt::get_datacake_timestamp().as_millis() as u64;
    if spread > 0 {
        datacake_crdt::verif_clock::set_wall_ms(Some(t0));
    }
    let mut nodes = Vec::new();
    for i in 0..n_nodes {
        nodes.push(Node::start(i as u8 + 1).await);
    }
    let mut model = Model::new();
    let mut queue: Vec<Msg> = Vec::new();
    let mut ops_left = n_ops;

    while ops_left > 0 || (!queue.is_empty() && rng.gen_bool(0.7)) {
        let choice = rng.gen_range(0..100);
        if choice < 35 && ops_left > 0 {
            ops_left -= 1;
            if spread > 0 {
                datacake_crdt::verif_clock::set_wall_ms(Some(t0 + rng.gen_range(0..spread)));
            }
            let o = rng.gen_range(0..n_nodes);
            let ks = KEYSPACES[rng.gen_range(0..KEYSPACES.len())].to_string();
            let kind = rng.gen_range(0..4);
            let keyspace = nodes[o].group.get_or_create_keyspace(&ks).await;
            let ts = nodes[o].clock.get_time().await;
            let payload = match kind {
                0 => {
                    let id = IDS[rng.gen_range(0..IDS.len())];
                    let data = format!("{seed}-{ops_left}").into_bytes();
                    let doc = Document::new(id, ts, data.clone());
                    keyspace
                        .send(Set {
                            source: CONSISTENCY_SOURCE_ID,
                            doc: doc.clone(),
                            ctx: None,
                            _marker: PhantomData::<MemStore>,
                        })
                        .await
                        .unwrap();
                    model_apply(&mut model, &ks, id, ts, Some(data));
                    nodes[o].pending_put.entry(ks.clone()).or_default().push(doc.clone());
                    Payload::Put(doc)
                },
                1 => {
                    let n = rng.gen_range(0..5);
                    let mut docs = DocVec::new();
                    for j in 0..n {
                        let id = IDS[rng.gen_range(0..IDS.len())];
                        let data = if rng.gen_bool(0.2) {
                            Vec::new()
                        } else {
                            format!("{seed}-{ops_left}-{j}").into_bytes()
                        };
                        docs.push(Document::new(id, ts, data.clone()));
                        model_apply(&mut model, &ks, id, ts, Some(data));
                    }
                    keyspace
                        .send(MultiSet {
                            source: CONSISTENCY_SOURCE_ID,
                            docs: docs.clone(),
                            ctx: None,
                            _marker: PhantomData::<MemStore>,
                        })
                        .await
                        .unwrap();
                    nodes[o].pending_put.entry(ks.clone()).or_default().extend(docs.clone());
                    Payload::MultiPut(docs)
                },
                2 => {
                    let id = IDS[rng.gen_range(0..IDS.len())];
                    let doc = DocumentMetadata::new(id, ts);
                    keyspace
                        .send(Del {
                            source: CONSISTENCY_SOURCE_ID,
                            doc,
                            _marker: PhantomData::<MemStore>,
                        })
                        .await
                        .unwrap();
                    model_apply(&mut model, &ks, id, ts, None);
                    nodes[o].pending_del.entry(ks.clone()).or_default().push(doc);
                    Payload::Del(doc)
                },
                _ => {
                    let n = rng.gen_range(0..5);
                    let mut docs = DocVec::new();
                    for _ in 0..n {
                        let id = IDS[rng.gen_range(0..IDS.len())];
                        docs.push(DocumentMetadata::new(id, ts));
                        model_apply(&mut model, &ks, id, ts, None);
                    }
                    keyspace
                        .send(MultiDel {
                            source: CONSISTENCY_SOURCE_ID,
                            docs: docs.clone(),
                            _marker: PhantomData::<MemStore>,
                        })
                        .await
                        .unwrap();
                    nodes[o].pending_del.entry(ks.clone()).or_default().extend(docs.clone());
                    Payload::MultiDel(docs)
                },
            };
            for to in 0..n_nodes {
                if to != o && rng.gen_bool(0.5) {
                    queue.push(Msg {
                        from: o,
                        to,
                        ks: ks.clone(),
                        payload: payload.clone(),
                    });
                }
            }
        } else if choice < 45 {
            // distributor tick at a random node
            let o = rng.gen_range(0..n_nodes);
            let puts = std::mem::take(&mut nodes[o].pending_put);
            let dels = std::mem::take(&mut nodes[o].pending_del);
            if puts.is_empty() && dels.is_empty() {
                continue;
            }
            let timestamp = nodes[o].clock.get_time().await;
            let batch = Arc::new(BatchPayload {
                timestamp,
                modified: puts
                    .into_iter()
                    .map(|(keyspace, documents)| MultiPutPayload {
                        keyspace,
                        ctx: Some(Context {
                            node_id: nodes[o].id,
                            node_addr: nodes[o].addr,
                        }),
                        documents,
                        timestamp,
                    })
                    .collect(),
                removed: dels
                    .into_iter()
                    .map(|(keyspace, documents)| MultiRemovePayload {
                        keyspace,
                        documents,
                        timestamp,
                    })
                    .collect(),
            });
            for to in 0..n_nodes {
                if rng.gen_bool(0.5) {
                    queue.push(Msg {
                        from: o,
                        to,
                        ks: String::new(),
                        payload: Payload::Batch(batch.clone()),
                    });
                }
            }
        } else if choice < 75 {
            if queue.is_empty() {
                continue;
            }
            let i = rng.gen_range(0..queue.len());
            let msg = if rng.gen_bool(0.15) {
                queue[i].clone() // duplicate: stays queued
            } else {
                queue.swap_remove(i)
            };
            if rng.gen_bool(0.8) {
                deliver(&nodes, &msg).await;
            } // else lost
        } else {
            let a = rng.gen_range(0..n_nodes);
            let b = rng.gen_range(0..n_nodes);
            exchange(&mut nodes, a, b, &mut rng).await;
        }
    }

    // quiescence: whatever is still queued is lost. every ordered pair exchanges once.
    let mut pairs = Vec::new();
    for a in 0..n_nodes {
        for b in 0..n_nodes {
            if a != b {
                pairs.push((a, b));
            }
        }
    }
    pairs.shuffle(&mut rng);
    for (a, b) in pairs {
        exchange(&mut nodes, a, b, &mut rng).await;
    }

    for ks in KEYSPACES {
        let expected: BTreeMap<Key, (HLCTimestamp, Vec<u8>)> = model
            .iter()
            .filter(|((k, _), (_, data))| k == ks && data.is_some())
            .map(|((_, id), (ts, data))| (*id, (*ts, data.clone().unwrap())))
            .collect();
        for node in &nodes {
            let live = node.live(ks).await;
            if live != expected {
                return Err(format!(
                    "seed {seed}: node {} keyspace {ks:?}\n live     {live:?}\n expected {expected:?}",
                    node.id
                ));
            }
        }
    }
    Ok(())
}

async fn exchange(nodes: &mut [Node], a: usize, b: usize, rng: &mut StdRng) {
    let peer = (nodes[b].id, nodes[b].addr);
    let group = nodes[a].group.clone();
    let network = nodes[a].network.clone();
    let res = match rng.gen_range(0..12) {
        0 => repair_peer(group, network, &mut nodes[a].tracker, peer.0, peer.1, true).await,
        1..=10 => repair_peer(group, network, &mut nodes[a].tracker, peer.0, peer.1, rng.gen_bool(0.5)).await,
        _ => {
            repair_peer_concurrent(group, network, &mut nodes[a].tracker, peer.0, peer.1)
                .await
        },
    };
    res.expect("exchange");
}

#[tokio::test(flavor = "multi_thread", worker_threads = 4)]
async fn fuzz() {
    let start: u64 = std::env::var("FUZZ_START").ok().and_then(|v| v.parse().ok()).unwrap_or(0);
    let count: u64 = std::env::var("FUZZ_COUNT").ok().and_then(|v| v.parse().ok()).unwrap_or(30);
    let mut failures = Vec::new();
    for seed in start..start + count {
        let n_nodes = 2 + (seed % 3) as usize;
        let n_ops = 5 + (seed % 25) as usize;
        if let Err(e) = run(seed, n_nodes, n_ops).await {
            println!("{e}");
            failures.push(seed);
        }
    }
    assert!(failures.is_empty(), "failing seeds: {failures:?}");
}
