//! C01 demonstration: two nodes whose wall clocks disagree by less than the drift the
//! clock accepts (`MAX_CLOCK_DRIFT`, 4100 s) make a third node refuse, for good, operations
//! that were issued well inside one forgiveness period (one hour) of every other operation.
//!
//! Run with:
//!   cargo test --offline -p datacake-eventual-consistency --features verif,test-utils \
//!       --test c01_clock_skew_window -- --test-threads=1 --nocapture
#![cfg(all(feature = "verif", feature = "test-utils"))]

use std::collections::BTreeMap;
use std::marker::PhantomData;
use std::net::SocketAddr;
use std::sync::Arc;

use datacake_crdt::{get_datacake_timestamp, verif_clock, HLCTimestamp, Key};
use datacake_eventual_consistency::test_utils::MemStore;
use datacake_eventual_consistency::verif::{
    repair_peer,
    ConsistencyClient,
    ConsistencyService,
    Del,
    KeyspaceGroup,
    ReplicationService,
    Set,
    Tracker,
    CONSISTENCY_SOURCE_ID,
};
use datacake_eventual_consistency::{Document, DocumentMetadata, Storage};
use datacake_node::{Clock, RpcNetwork};
use datacake_rpc::Server;

static KEYSPACE: &str = "skew";
const MIN: u64 = 60_000; // one minute in ms

/// The wall clock override is process wide, the scenarios must not overlap.
static SERIAL: tokio::sync::Mutex<()> = tokio::sync::Mutex::const_new(());

struct Node {
    id: u8,
    addr: SocketAddr,
    clock: Clock,
    group: KeyspaceGroup<MemStore>,
    network: RpcNetwork,
    tracker: Tracker,
    _server: Server,
}

impl Node {
    /// What `EventuallyConsistentStore::create` wires up, minus the background services:
    /// a clock, a keyspace group over a store, and the two RPC services.
    async fn start(id: u8) -> Self {
        let addr = test_helper::get_unused_addr();
        let clock = Clock::new(id);
        let group = KeyspaceGroup::new(Arc::new(MemStore::default()), clock.clone()).await;
        let network = RpcNetwork::default();
        let server = Server::listen(addr).await.expect("listen");
        server.add_service(ConsistencyService::new(group.clone(), network.clone()));
        server.add_service(ReplicationService::new(group.clone()));
        Self {
            id,
            addr,
            clock,
            group,
            network,
            tracker: Tracker::default(),
            _server: server,
        }
    }

    /// The local half of `ReplicatedStoreHandle::put`.
    async fn put(&self, id: Key, data: &str) -> Document {
        let ts = self.clock.get_time().await;
        let doc = Document::new(id, ts, data.as_bytes().to_vec());
        let keyspace = self.group.get_or_create_keyspace(KEYSPACE).await;
        keyspace
            .send(Set {
                source: CONSISTENCY_SOURCE_ID,
                doc: doc.clone(),
                ctx: None,
                _marker: PhantomData::<MemStore>,
            })
            .await
            .expect("local put");
        doc
    }

    /// The local half of `ReplicatedStoreHandle::del`.
    async fn del(&self, id: Key) -> DocumentMetadata {
        let ts = self.clock.get_time().await;
        let doc = DocumentMetadata::new(id, ts);
        let keyspace = self.group.get_or_create_keyspace(KEYSPACE).await;
        keyspace
            .send(Del {
                source: CONSISTENCY_SOURCE_ID,
                doc,
                _marker: PhantomData::<MemStore>,
            })
            .await
            .expect("local del");
        doc
    }

    /// The remote half of `ReplicatedStoreHandle::put`: one direct replication message
    /// which the network did deliver.
    async fn deliver_put(&self, to: &Node, doc: &Document) {
        let channel = self.network.get_or_connect(to.addr);
        ConsistencyClient::<MemStore>::new(self.clock.clone(), channel)
            .put(KEYSPACE, doc.clone(), self.id, self.addr)
            .await
            .expect("direct put");
    }

    /// One anti-entropy exchange: `self` pulls from `peer`.
    async fn pull_from(&mut self, peer: (u8, SocketAddr)) {
        repair_peer(
            self.group.clone(),
            self.network.clone(),
            &mut self.tracker,
            peer.0,
            peer.1,
            true,
        )
        .await
        .expect("exchange");
    }

    /// The live documents a reader of this node sees.
    async fn live(&self) -> BTreeMap<Key, (HLCTimestamp, String)> {
        let storage = self.group.storage();
        let mut docs = BTreeMap::new();
        for (id, _, tombstone) in storage.iter_metadata(KEYSPACE).await.unwrap() {
            if tombstone {
                continue;
            }
            if let Some(doc) = storage.get(KEYSPACE, id).await.unwrap() {
                docs.insert(
                    id,
                    (
                        doc.last_updated(),
                        String::from_utf8_lossy(doc.data()).to_string(),
                    ),
                );
            }
        }
        docs
    }
}

fn set_wall(ms: u64) {
    verif_clock::set_wall_ms(Some(ms));
}

/// `skew_ms`: how far the wall clock of node B runs ahead of the wall clocks of A and C.
/// `span_ms`: the real time between the first and the last operation of the history.
async fn scenario(skew_ms: u64, span_ms: u64) {
    let _serial = SERIAL.lock().await;
    verif_clock::set_wall_ms(None);
    let t0 = get_datacake_timestamp().as_millis() as u64;

    // Real time 0. A, B and C start; the wall clocks of A and C read `t0 + r`, the wall
    // clock of B reads `t0 + r + skew` at real time `r`.
    set_wall(t0);
    let mut a = Node::start(1).await;
    let mut b = Node::start(2).await;
    let mut c = Node::start(3).await;

    // Real time 0, node A: writes document 1 and document 4. The direct messages for
    // document 1 are all lost; document 4 reaches everybody.
    let k1 = a.put(1, "doc 1, written by A at the very start").await;
    let k4 = a.put(4, "doc 4, deleted by A half a minute later").await;
    a.deliver_put(&b, &k4).await;
    a.deliver_put(&c, &k4).await;

    // Real time 30 s, node A: deletes document 4, the direct messages are lost.
    set_wall(t0 + MIN / 2);
    let d4 = a.del(4).await;

    // Real time `span`, node B (its wall clock reads t0 + span + skew): writes document 8,
    // the direct message reaches A. This is how A's hybrid clock learns B's time.
    set_wall(t0 + span_ms + skew_ms);
    let k8 = b.put(8, "doc 8, written by B").await;
    b.deliver_put(&a, &k8).await;

    // Real time `span`, node A (wall clock t0 + span): writes documents 2 and 3. The message
    // for document 2 reaches only B, the message for document 3 reaches only C.
    set_wall(t0 + span_ms);
    let k2 = a.put(2, "doc 2, written by A").await;
    a.deliver_put(&b, &k2).await;
    let k3 = a.put(3, "doc 3, written by A").await;
    a.deliver_put(&c, &k3).await;

    println!("skew = {} s, span of the history in real time = {} s", skew_ms / 1000, span_ms / 1000);
    for (what, ts) in [
        ("put 1 @A", k1.last_updated()),
        ("put 4 @A", k4.last_updated()),
        ("del 4 @A", d4.last_updated),
        ("put 8 @B", k8.last_updated()),
        ("put 2 @A", k2.last_updated()),
        ("put 3 @A", k3.last_updated()),
    ] {
        println!("  {what}: stamp {ts} (t0 + {} s)", ts.seconds() as i64 - (t0 / 1000) as i64);
    }

    // No more operations. Anti-entropy: every node pulls from every other node, twice over.
    // C happens to talk to B before it talks to A.
    set_wall(t0 + span_ms + MIN);
    let (pa, pb, pc) = ((a.id, a.addr), (b.id, b.addr), (c.id, c.addr));
    for _round in 0..2 {
        c.pull_from(pb).await;
        c.pull_from(pa).await;
        a.pull_from(pb).await;
        a.pull_from(pc).await;
        b.pull_from(pa).await;
        b.pull_from(pc).await;
    }

    let (la, lb, lc) = (a.live().await, b.live().await, c.live().await);
    verif_clock::set_wall_ms(None);

    // Last writer wins, per document: 1, 2, 3 and 8 are present, 4 is deleted.
    let expected: BTreeMap<Key, (HLCTimestamp, String)> = [&k1, &k2, &k3, &k8]
        .into_iter()
        .map(|doc| {
            (
                doc.id(),
                (
                    doc.last_updated(),
                    String::from_utf8_lossy(doc.data()).to_string(),
                ),
            )
        })
        .collect();

    println!("node A: {:?}", la.keys().collect::<Vec<_>>());
    println!("node B: {:?}", lb.keys().collect::<Vec<_>>());
    println!("node C: {:?}", lc.keys().collect::<Vec<_>>());

    assert_eq!(la, expected, "node A does not hold the last-writer-wins documents");
    assert_eq!(lb, expected, "node B does not hold the last-writer-wins documents");
    assert_eq!(
        lc, expected,
        "node C does not hold the last-writer-wins documents (and differs from A and B)"
    );
}

/// B's clock is ten minutes fast. The whole history takes 55 minutes of real time.
#[tokio::test]
async fn ten_minutes_of_skew_and_a_history_of_55_minutes() {
    scenario(10 * MIN, 55 * MIN).await;
}

/// B's clock is 65 minutes fast, which the hybrid clock accepts without complaint
/// (`MAX_CLOCK_DRIFT` is 68 min 20 s). The whole history takes one minute of real time.
#[tokio::test]
async fn sixty_five_minutes_of_skew_and_a_history_of_one_minute() {
    scenario(65 * MIN, MIN).await;
}

/// Control: the same history and the same schedule with synchronised clocks converge.
#[tokio::test]
async fn control_no_skew() {
    scenario(0, 55 * MIN).await;
}
