//! C17 demo: a `SqliteStorage` built through the public constructor
//! `SqliteStorage::from_handle(StorageHandle::open(path))` does not behave like the
//! reference key-value model: the `state_entries` table is never created, so every
//! storage call (starting with the very first `put`) fails with "no such table".
//!
//! The same three-call history is run against the bundled in-memory backend (which is
//! the map model) and against the SQLite backend; the results must agree.

use std::collections::BTreeSet;

use datacake_crdt::HLCTimestamp;
use datacake_eventual_consistency::test_utils::MemStore;
use datacake_eventual_consistency::{Document, Storage};
use datacake_sqlite::{SqliteStorage, StorageHandle};

/// One short history allowed by the Storage contract; returns everything observable.
async fn history<S: Storage>(
    store: &S,
) -> Result<(Option<Document>, BTreeSet<(u64, u64, bool)>, Vec<String>), String> {
    let doc = Document::new(1, HLCTimestamp::from_u64(7 << 32), b"hello".to_vec());
    store
        .put("ks", doc)
        .await
        .map_err(|e| format!("put failed: {e}"))?;
    let got = store
        .get("ks", 1)
        .await
        .map_err(|e| format!("get failed: {e}"))?;
    let meta = store
        .iter_metadata("ks")
        .await
        .map_err(|e| format!("iter_metadata failed: {e}"))?
        .map(|(id, ts, tombstone)| (id, ts.as_u64(), tombstone))
        .collect();
    let list = store
        .get_keyspace_list()
        .await
        .map_err(|e| format!("get_keyspace_list failed: {e}"))?;
    Ok((got, meta, list))
}

fn temp_db() -> std::path::PathBuf {
    std::env::temp_dir().join(format!("c17-from-handle-{}.db", uuid::Uuid::new_v4()))
}

/// Control: the same history through `SqliteStorage::open` agrees with the model.
#[tokio::test]
async fn control_open_agrees_with_model() {
    let model = history(&MemStore::default()).await;
    let path = temp_db();
    let sqlite = history(&SqliteStorage::open(&path).await.expect("open")).await;
    let _ = std::fs::remove_file(&path);
    assert_eq!(model, sqlite);
}

/// FAILS: the same history through `from_handle` on a handle opened by the public
/// `StorageHandle::open`.
#[tokio::test]
async fn from_handle_agrees_with_model() {
    let model = history(&MemStore::default()).await;
    assert!(model.is_ok(), "the reference accepts the history: {model:?}");

    let path = temp_db();
    let handle = StorageHandle::open(&path).await.expect("open handle");
    let storage = SqliteStorage::from_handle(handle);
    let sqlite = history(&storage).await;
    let _ = std::fs::remove_file(&path);

    assert_eq!(
        model, sqlite,
        "SQLite backend (left = model, right = sqlite built with from_handle) disagrees with the reference model"
    );
}
