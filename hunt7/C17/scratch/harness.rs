// Differential harness: a Storage backend against a map model.
use std::collections::{BTreeMap, BTreeSet};
use std::future::Future;
use std::pin::Pin;

use datacake_crdt::HLCTimestamp;
use datacake_eventual_consistency::{Document, DocumentMetadata, Storage};

pub struct Rng(pub u64);
impl Rng {
    pub fn next(&mut self) -> u64 {
        // splitmix64
        self.0 = self.0.wrapping_add(0x9E3779B97F4A7C15);
        let mut z = self.0;
        z = (z ^ (z >> 30)).wrapping_mul(0xBF58476D1CE4E5B9);
        z = (z ^ (z >> 27)).wrapping_mul(0x94D049BB133111EB);
        z ^ (z >> 31)
    }
    pub fn below(&mut self, n: u64) -> u64 {
        self.next() % n
    }
}

type Model = BTreeMap<String, BTreeMap<u64, (u64, Option<Vec<u8>>)>>;

pub type Opener<S> = Box<dyn Fn() -> Pin<Box<dyn Future<Output = S>>>>;

const IDS: &[u64] = &[
    0,
    1,
    2,
    255,
    256,
    i64::MAX as u64,
    (i64::MAX as u64) + 1,
    u64::MAX - 1,
    u64::MAX,
    0x0100_0000_0000_0000,
    0x0000_0000_0000_0100,
];

fn pick_id(r: &mut Rng) -> u64 {
    if r.below(4) == 0 {
        r.next()
    } else {
        IDS[r.below(IDS.len() as u64) as usize]
    }
}

fn pick_ts(r: &mut Rng) -> u64 {
    match r.below(6) {
        0 => 0,
        1 => u64::MAX,
        2 => 1u64 << 63,
        3 => (r.below(5) << 32) | (r.below(256) << 24) | (r.below(3) << 8) | r.below(3),
        _ => r.next(),
    }
}

fn pick_payload(r: &mut Rng, big: usize) -> Vec<u8> {
    let len = match r.below(8) {
        0 => 0,
        1 => 1,
        2 => 4096,
        3 => 4097,
        4 => big,
        _ => r.below(300) as usize,
    };
    let mut v = Vec::with_capacity(len);
    let mode = r.below(3);
    for i in 0..len {
        v.push(match mode {
            0 => 0u8,
            1 => (i % 256) as u8,
            _ => (r.next() & 0xFF) as u8,
        });
    }
    v
}

pub async fn check_all<S: Storage>(s: &S, model: &Model, keyspaces: &[&str], touched: &BTreeSet<String>, ctx: &str) {
    // keyspace list
    let list = s.get_keyspace_list().await.expect("keyspace list");
    let set: BTreeSet<String> = list.iter().cloned().collect();
    assert_eq!(set.len(), list.len(), "{ctx}: duplicate keyspaces {list:?}");
    for (ks, entries) in model {
        if !entries.is_empty() {
            assert!(set.contains(ks), "{ctx}: keyspace {ks:?} has entries but is not listed: {list:?}");
        }
    }
    for ks in &set {
        assert!(touched.contains(ks), "{ctx}: listed keyspace {ks:?} never written");
    }

    for ks in keyspaces {
        let empty = BTreeMap::new();
        let m = model.get(*ks).unwrap_or(&empty);
        let mut meta: Vec<(u64, u64, bool)> = s
            .iter_metadata(ks)
            .await
            .unwrap_or_else(|e| panic!("{ctx}: iter_metadata({ks:?}) failed: {e}"))
            .map(|(k, ts, t)| (k, ts.as_u64(), t))
            .collect();
        meta.sort();
        let mut want: Vec<(u64, u64, bool)> =
            m.iter().map(|(k, (ts, d))| (*k, *ts, d.is_none())).collect();
        want.sort();
        assert_eq!(meta, want, "{ctx}: metadata of {ks:?}");

        let mut ids: Vec<u64> = IDS.to_vec();
        ids.extend(m.keys().copied());
        for id in &ids {
            let got = s.get(ks, *id).await.unwrap_or_else(|e| panic!("{ctx}: get({ks:?},{id}) failed: {e}"));
            let want = m.get(id).and_then(|(ts, d)| d.as_ref().map(|d| (*ts, d.clone())));
            let got = got.map(|d| {
                assert_eq!(d.id(), *id, "{ctx}: id");
                (d.last_updated().as_u64(), d.data().to_vec())
            });
            assert!(got == want, "{ctx}: get({ks:?}, {id}) differs: got {:?} want {:?}",
                got.as_ref().map(|(t, d)| (*t, d.len())), want.as_ref().map(|(t, d)| (*t, d.len())));
        }
        let got: Vec<(u64, u64, Vec<u8>)> = s
            .multi_get(ks, ids.clone().into_iter())
            .await
            .unwrap_or_else(|e| panic!("{ctx}: multi_get failed: {e}"))
            .map(|d| (d.id(), d.last_updated().as_u64(), d.data().to_vec()))
            .collect();
        let want: Vec<(u64, u64, Vec<u8>)> = ids
            .iter()
            .filter_map(|id| m.get(id).and_then(|(ts, d)| d.as_ref().map(|d| (*id, *ts, d.clone()))))
            .collect();
        let mut g = got.clone();
        g.sort();
        let mut w = want.clone();
        w.sort();
        assert!(g == w, "{ctx}: multi_get({ks:?}) differs");
    }
}

pub async fn run<S: Storage>(open: Opener<S>, seed: u64, steps: usize, keyspaces: &[&str], big: usize, reopen: bool) {
    let mut r = Rng(seed);
    let mut model: Model = BTreeMap::new();
    let mut touched: BTreeSet<String> = BTreeSet::new();
    let mut s = open().await;
    let mut log: Vec<String> = Vec::new();

    for step in 0..steps {
        let ks = keyspaces[r.below(keyspaces.len() as u64) as usize];
        let op = r.below(if reopen { 9 } else { 8 });
        let desc;
        match op {
            0 | 1 => {
                let id = pick_id(&mut r);
                let ts = pick_ts(&mut r);
                let data = pick_payload(&mut r, big);
                desc = format!("put({ks:?},{id},{ts},len={})", data.len());
                s.put(ks, Document::new(id, HLCTimestamp::from_u64(ts), data.clone()))
                    .await
                    .unwrap_or_else(|e| panic!("seed {seed} step {step} {desc}: {e}\nlog={log:#?}"));
                touched.insert(ks.to_string());
                model.entry(ks.to_string()).or_default().insert(id, (ts, Some(data)));
            },
            2 => {
                let n = r.below(5);
                let mut docs = Vec::new();
                for _ in 0..n {
                    let id = pick_id(&mut r);
                    let ts = pick_ts(&mut r);
                    let data = pick_payload(&mut r, 1000);
                    docs.push((id, ts, data));
                }
                desc = format!("multi_put({ks:?},{:?})", docs.iter().map(|d| (d.0, d.1, d.2.len())).collect::<Vec<_>>());
                s.multi_put(
                    ks,
                    docs.clone().into_iter().map(|(id, ts, d)| Document::new(id, HLCTimestamp::from_u64(ts), d)),
                )
                .await
                .unwrap_or_else(|e| panic!("seed {seed} step {step} {desc}: {e}"));
                touched.insert(ks.to_string());
                for (id, ts, d) in docs {
                    model.entry(ks.to_string()).or_default().insert(id, (ts, Some(d)));
                }
            },
            3 => {
                let id = if r.below(2) == 0 {
                    model.get(ks).and_then(|m| m.keys().next().copied()).unwrap_or(7)
                } else {
                    pick_id(&mut r)
                };
                let ts = pick_ts(&mut r);
                desc = format!("mark_as_tombstone({ks:?},{id},{ts})");
                s.mark_as_tombstone(ks, id, HLCTimestamp::from_u64(ts))
                    .await
                    .unwrap_or_else(|e| panic!("seed {seed} step {step} {desc}: {e}"));
                touched.insert(ks.to_string());
                model.entry(ks.to_string()).or_default().insert(id, (ts, None));
            },
            4 => {
                let n = r.below(4);
                let mut docs = Vec::new();
                for _ in 0..n {
                    docs.push((pick_id(&mut r), pick_ts(&mut r)));
                }
                desc = format!("mark_many({ks:?},{docs:?})");
                s.mark_many_as_tombstone(
                    ks,
                    docs.clone().into_iter().map(|(id, ts)| DocumentMetadata::new(id, HLCTimestamp::from_u64(ts))),
                )
                .await
                .unwrap_or_else(|e| panic!("seed {seed} step {step} {desc}: {e}"));
                touched.insert(ks.to_string());
                for (id, ts) in docs {
                    model.entry(ks.to_string()).or_default().insert(id, (ts, None));
                }
            },
            5 => {
                // remove some tombstones (only real tombstones, plus ids that do not exist)
                let mut ids: Vec<u64> = model
                    .get(ks)
                    .map(|m| m.iter().filter(|(_, (_, d))| d.is_none()).map(|(k, _)| *k).collect())
                    .unwrap_or_default();
                ids.retain(|_| r.below(2) == 0);
                if r.below(2) == 0 {
                    let extra = r.next();
                    if model.get(ks).map(|m| !m.contains_key(&extra)).unwrap_or(true) {
                        ids.push(extra);
                    }
                }
                if r.below(3) == 0 {
                    let dup = ids.clone();
                    ids.extend(dup);
                }
                desc = format!("remove_tombstones({ks:?},{ids:?})");
                s.remove_tombstones(ks, ids.clone().into_iter())
                    .await
                    .unwrap_or_else(|e| panic!("seed {seed} step {step} {desc}: {e}"));
                touched.insert(ks.to_string());
                if let Some(m) = model.get_mut(ks) {
                    for id in ids {
                        m.remove(&id);
                    }
                }
            },
            6 | 7 => {
                desc = "check".to_string();
            },
            _ => {
                desc = "reopen".to_string();
                drop(s);
                s = open().await;
            },
        }
        log.push(desc.clone());
        let ctx = format!("seed {seed} step {step} after {desc}");
        check_all(&s, &model, keyspaces, &touched, &ctx).await;
    }
}
