//! Adjacent observation (NOT claimed as a C17 violation: wiping the directory is outside
//! the property's quantifier). Dropping an `LmdbStorage` never closes the LMDB environment
//! (heed keeps a clone of the `Env` in its process-wide registry until
//! `Env::prepare_for_closing` is called, which datacake-lmdb never does), so an
//! `LmdbStorage::open` of the same path later in the same process is handed the OLD
//! environment - even if the directory was removed and re-created in between.

use datacake_crdt::HLCTimestamp;
use datacake_eventual_consistency::{Document, Storage};
use datacake_lmdb::LmdbStorage;

#[tokio::test]
async fn wipe_and_reopen_starts_empty() {
    let path = std::env::temp_dir().join(format!("c17-lmdb-wipe-{}", uuid::Uuid::new_v4()));
    std::fs::create_dir_all(&path).unwrap();

    let s = LmdbStorage::open(&path).await.unwrap();
    s.put("k", Document::new(1, HLCTimestamp::from_u64(1), vec![7u8; 10]))
        .await
        .unwrap();
    drop(s);
    tokio::time::sleep(std::time::Duration::from_millis(500)).await;

    std::fs::remove_dir_all(&path).unwrap();
    std::fs::create_dir_all(&path).unwrap();

    let s = LmdbStorage::open(&path).await.unwrap();
    let list = s.get_keyspace_list().await.unwrap();
    let doc = s.get("k", 1).await.unwrap();
    let files = std::fs::read_dir(&path).unwrap().count();
    assert!(
        list.is_empty() && doc.is_none() && files > 0,
        "a database opened in an empty directory shows list={list:?} doc={doc:?}, files on disk={files}"
    );
}
