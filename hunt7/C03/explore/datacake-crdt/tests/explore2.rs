#![cfg(feature = "rkyv-validation")]
use std::time::Duration;
use datacake_crdt::{HLCTimestamp, OrSWotSet};

fn ts(ms: u64, c: u16, n: u8) -> HLCTimestamp { HLCTimestamp::new(Duration::from_millis(ms), c, n) }

#[test]
fn roundtrip_merge() {
    let mut fails = 0;
    for round in 0..200u64 {
        let mut a = OrSWotSet::<2>::default();
        let mut b = OrSWotSet::<2>::default();
        for i in 0..(round * 7 % 300) {
            let t = ts(i * 40_000, (i % 3) as u16, (i % 4) as u8);
            if i % 3 == 0 { a.delete_with_source((i % 2) as usize, i % 50, t); } else { a.insert_with_source((i % 2) as usize, i % 50, t); }
            let t = ts(i * 40_000 + 4, (i % 3) as u16, (4 + i % 4) as u8);
            if i % 5 == 0 { b.delete_with_source((i % 2) as usize, i % 40, t); } else { b.insert_with_source((i % 2) as usize, i % 40, t); }
        }
        let bytes = b.as_bytes().unwrap();
        let b2 = match OrSWotSet::<2>::from_bytes(&bytes) { Ok(v) => v, Err(_) => { fails += 1; continue; } };
        let mut x = a.clone(); x.merge(b.clone());
        let mut y = a.clone(); y.merge(b2);
        let e = OrSWotSet::<2>::default();
        let (mut l1, mut d1) = e.diff(&x);
        let (mut l2, mut d2) = e.diff(&y);
        l1.sort(); l2.sort(); d1.sort(); d2.sort();
        assert_eq!(l1, l2); assert_eq!(d1, d2);
        // unaligned
        let mut shifted = vec![0u8; bytes.len() + 1];
        shifted[1..].copy_from_slice(&bytes);
        let _ = OrSWotSet::<2>::from_bytes(&shifted[1..]).is_ok();
    }
    assert_eq!(fails, 0);
}
