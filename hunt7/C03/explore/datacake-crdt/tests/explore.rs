use std::collections::BTreeMap;
use std::time::Duration;

use datacake_crdt::{HLCTimestamp, OrSWotSet};

struct Rng(u64);
impl Rng {
    fn next(&mut self) -> u64 {
        self.0 ^= self.0 << 13;
        self.0 ^= self.0 >> 7;
        self.0 ^= self.0 << 17;
        self.0
    }
    fn below(&mut self, n: u64) -> u64 {
        self.next() % n
    }
}

#[derive(Clone, Copy, Debug)]
struct Op {
    key: u64,
    del: bool,
    ts: HLCTimestamp,
}

const TIMES_MS: &[u64] = &[
    0, 4, 1_800_000, 3_599_996, 3_600_000, 3_600_004, 5_400_000, 7_199_996, 7_200_000,
    7_200_004, 10_800_000, 14_400_000, 14_400_004,
];

fn gen_history(rng: &mut Rng, nodes: usize, max_ops: usize, wide: bool) -> Vec<Vec<Op>> {
    let mut out = vec![];
    let mut used = std::collections::HashSet::new();
    for n in 0..nodes {
        let cnt = 1 + rng.below(max_ops as u64) as usize;
        let mut stamps = vec![];
        while stamps.len() < cnt {
            let t = if wide {
                TIMES_MS[rng.below(TIMES_MS.len() as u64) as usize]
            } else {
                // all inside one period (strictly)
                100_000 + rng.below(3) * 1_799_996 / 2
            };
            let c = rng.below(3) as u16;
            let ts = HLCTimestamp::new(Duration::from_millis(t), c, n as u8);
            if used.insert(ts) {
                stamps.push(ts);
            }
        }
        stamps.sort();
        let ops = stamps
            .into_iter()
            .map(|ts| Op {
                key: 1 + rng.below(2),
                del: rng.below(2) == 0,
                ts,
            })
            .collect::<Vec<_>>();
        out.push(ops);
    }
    out
}

fn model(history: &[Vec<Op>], prefix: &[usize]) -> BTreeMap<u64, HLCTimestamp> {
    let mut last: BTreeMap<u64, Op> = BTreeMap::new();
    for (n, ops) in history.iter().enumerate() {
        for op in &ops[..prefix[n]] {
            match last.get(&op.key) {
                Some(prev) if prev.ts > op.ts => {},
                _ => {
                    last.insert(op.key, *op);
                },
            }
        }
    }
    last.into_iter()
        .filter(|(_, op)| !op.del)
        .map(|(k, op)| (k, op.ts))
        .collect()
}

fn live<const N: usize>(s: &OrSWotSet<N>) -> BTreeMap<u64, HLCTimestamp> {
    let mut m = BTreeMap::new();
    for k in 1..=2u64 {
        if let Some(ts) = s.get(&k) {
            m.insert(k, *ts);
        }
    }
    let (changes, _) = OrSWotSet::<N>::default().diff(s);
    let d: BTreeMap<u64, HLCTimestamp> = changes.into_iter().collect();
    assert_eq!(d, m, "diff and get disagree");
    m
}

fn run<const N: usize>(seed: u64, wide: bool) -> Result<(), String> {
    let mut rng = Rng(seed.wrapping_mul(0x9E3779B97F4A7C15) | 1);
    let nodes = 2 + rng.below(2) as usize;
    let history = gen_history(&mut rng, nodes, 4, wide);
    let nrep = 3;
    let mut reps: Vec<OrSWotSet<N>> = (0..nrep).map(|_| OrSWotSet::default()).collect();
    let mut prefixes = vec![vec![0usize; nodes]; nrep];
    let mut trace = vec![];
    for _ in 0..30 {
        let r = rng.below(nrep as u64) as usize;
        if rng.below(3) == 0 {
            let s = rng.below(nrep as u64) as usize;
            let other = reps[s].clone();
            reps[r].merge(other);
            {
                let mut again = reps[r].clone();
                again.merge(reps[s].clone());
                let e = OrSWotSet::<N>::default();
                let (mut l1, mut d1) = e.diff(&reps[r]);
                let (mut l2, mut d2) = e.diff(&again);
                l1.sort(); l2.sort(); d1.sort(); d2.sort();
                if l1 != l2 || d1 != d2 || format!("{:?}", VersionsOf(&again)) != format!("{:?}", VersionsOf(&reps[r])) {
                    return Err(format!("re-merge changed state: seed {seed} {trace:#?} {l1:?} {l2:?} {d1:?} {d2:?}"));
                }
            }
            for n in 0..nodes {
                prefixes[r][n] = prefixes[r][n].max(prefixes[s][n]);
            }
            trace.push(format!("merge r{r} <- r{s}"));
        } else {
            let n = rng.below(nodes as u64) as usize;
            if prefixes[r][n] >= history[n].len() {
                continue;
            }
            let op = history[n][prefixes[r][n]];
            let src = rng.below(N as u64) as usize;
            if op.del {
                reps[r].delete_with_source(src, op.key, op.ts);
            } else {
                reps[r].insert_with_source(src, op.key, op.ts);
            }
            prefixes[r][n] += 1;
            trace.push(format!("apply r{r} src{src} {:?} {}", op, op.ts));
        }
        let got = live(&reps[r]);
        let want = model(&history, &prefixes[r]);
        {
            let (_, d) = OrSWotSet::<N>::default().diff(&reps[r]);
            let d: BTreeMap<u64, HLCTimestamp> = d.into_iter().collect();
            let wd = model_dead(&history, &prefixes[r]);
            if d != wd { return Err(format!("dead differs seed {seed} {history:#?} {trace:#?} {d:?} {wd:?}")); }
        }
        if got != want {
            return Err(format!(
                "seed {seed} N={N} wide={wide}\nhistory {history:#?}\ntrace {trace:#?}\ngot {got:?}\nwant {want:?}"
            ));
        }
    }
    Ok(())
}

#[test]
fn explore_prefix() {
    for seed in 1..400_000u64 {
        if let Err(e) = run::<1>(seed, true) {
            panic!("{e}");
        }
        if let Err(e) = run::<2>(seed, true) {
            panic!("{e}");
        }
    }
}

// ---------- case B: everything within one forgiveness period, any subsets, any order
fn run_b<const N: usize>(seed: u64) -> Result<(), String> {
    let mut rng = Rng(seed.wrapping_mul(0x9E3779B97F4A7C15) | 1);
    let bases_ms: [u64; 7] = [0, 4, 1_000_000, 3_599_000, 3_600_000, 5_000_000, ((1u64 << 32) - 1 - 3600) * 1000];
    let base = bases_ms[rng.below(7) as usize];
    let offs: [u64; 7] = [0, 4, 8, 1_800_000, 3_599_988, 3_599_992, 3_599_996];
    let nodes = 3usize;
    let mut ops = vec![];
    let mut used = std::collections::HashSet::new();
    let lo = offs[rng.below(3) as usize];
    while ops.len() < 8 {
        let mut t = offs[rng.below(7) as usize];
        if t < lo { t = lo; }
        // keep strictly within one period: t - lo < 3_600_000
        if t - lo >= 3_600_000 { continue; }
        let c = [0u16, 1, u16::MAX][rng.below(3) as usize];
        let n = rng.below(nodes as u64) as u8;
        let ts = HLCTimestamp::new(Duration::from_millis(base + t), c, n);
        if used.insert(ts) {
            ops.push(Op { key: 1 + rng.below(2), del: rng.below(2) == 0, ts });
        }
    }
    let nrep = 3;
    let mut reps: Vec<OrSWotSet<N>> = (0..nrep).map(|_| OrSWotSet::default()).collect();
    let mut applied: Vec<std::collections::BTreeSet<usize>> = vec![Default::default(); nrep];
    let mut trace = vec![];
    for _ in 0..30 {
        let r = rng.below(nrep as u64) as usize;
        if rng.below(3) == 0 {
            let s = rng.below(nrep as u64) as usize;
            let other = reps[s].clone();
            reps[r].merge(other);
            {
                let mut again = reps[r].clone();
                again.merge(reps[s].clone());
                let e = OrSWotSet::<N>::default();
                let (mut l1, mut d1) = e.diff(&reps[r]);
                let (mut l2, mut d2) = e.diff(&again);
                l1.sort(); l2.sort(); d1.sort(); d2.sort();
                if l1 != l2 || d1 != d2 || format!("{:?}", VersionsOf(&again)) != format!("{:?}", VersionsOf(&reps[r])) {
                    return Err(format!("re-merge changed state: seed {seed} {trace:#?} {l1:?} {l2:?} {d1:?} {d2:?}"));
                }
            }
            let add = applied[s].clone();
            applied[r].extend(add);
            trace.push(format!("merge r{r} <- r{s}"));
        } else {
            let i = rng.below(ops.len() as u64) as usize;
            let op = ops[i];
            let src = rng.below(N as u64) as usize;
            if op.del {
                reps[r].delete_with_source(src, op.key, op.ts);
            } else {
                reps[r].insert_with_source(src, op.key, op.ts);
            }
            applied[r].insert(i);
            trace.push(format!("apply r{r} src{src} {:?} {}", op, op.ts));
        }
        let got = live(&reps[r]);
        let mut last: BTreeMap<u64, Op> = BTreeMap::new();
        for &i in &applied[r] {
            let op = ops[i];
            match last.get(&op.key) {
                Some(prev) if prev.ts > op.ts => {},
                _ => { last.insert(op.key, op); },
            }
        }
        let want: BTreeMap<u64, HLCTimestamp> = last.into_iter().filter(|(_, o)| !o.del).map(|(k, o)| (k, o.ts)).collect();
        if got != want {
            return Err(format!(
                "seed {seed} N={N}\nops {ops:#?}\ntrace {trace:#?}\ngot {got:?}\nwant {want:?}"
            ));
        }
    }
    Ok(())
}

#[test]
fn explore_within_period() {
    for seed in 1..400_000u64 {
        if let Err(e) = run_b::<1>(seed) { panic!("{e}"); }
        if let Err(e) = run_b::<2>(seed) { panic!("{e}"); }
    }
}

struct VersionsOf<'a, const N: usize>(&'a OrSWotSet<N>);
impl<'a, const N: usize> std::fmt::Debug for VersionsOf<'a, N> {
    fn fmt(&self, f: &mut std::fmt::Formatter<'_>) -> std::fmt::Result {
        let s = format!("{:?}", self.0);
        let i = s.find("versions:").unwrap();
        write!(f, "{}", &s[i..])
    }
}

fn model_dead(history: &[Vec<Op>], prefix: &[usize]) -> BTreeMap<u64, HLCTimestamp> {
    let mut last: BTreeMap<u64, Op> = BTreeMap::new();
    for (n, ops) in history.iter().enumerate() {
        for op in &ops[..prefix[n]] {
            match last.get(&op.key) {
                Some(prev) if prev.ts > op.ts => {},
                _ => { last.insert(op.key, *op); },
            }
        }
    }
    last.into_iter().filter(|(_, op)| op.del).map(|(k, op)| (k, op.ts)).collect()
}
