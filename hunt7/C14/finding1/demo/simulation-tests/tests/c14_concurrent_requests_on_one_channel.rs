//! C14: "every request either returns the reply the handler computed for that very
//! request or returns a connection/timeout error", for all schedules of faults
//! "interleaved with sequential and concurrent requests in a simulated network" - the
//! empty fault schedule included.
//!
//! A `Channel` is documented as "a raw client connection which can produce multiplexed
//! streams", and over real sockets it is one: requests issued concurrently on one
//! channel are in flight together.  With the `simulation` feature `Channel::send_parts`
//! does
//!
//!     conn.lock().await.send_request(request).await?
//!
//! and the guard returned by `lock()` is a temporary of that statement: it lives until
//! the *response head* of the request has come back, not merely until the request has
//! been handed to the connection.  So in the simulated network a channel carries one
//! request at a time, and a second request is not even put on the wire before the
//! first one has been answered.
//!
//! When the answer to the first request depends on the second one being handled (a
//! long poll and the publish that ends it, a barrier, any handler which waits for
//! another message of the same peer) neither request ever returns: no reply, no error,
//! on a perfectly healthy network with an idle server.  The twin of this test over real
//! sockets (datacake-rpc/tests/c14_concurrent_requests_on_one_channel_real.rs) passes.

use std::net::{IpAddr, Ipv4Addr, SocketAddr};
use std::sync::atomic::{AtomicUsize, Ordering};
use std::sync::Arc;
use std::time::Duration;

use datacake::rpc::{
    Channel,
    Handler,
    Request,
    RpcClient,
    RpcService,
    Server,
    ServiceRegistry,
    Status,
};
use rkyv::{Archive, Deserialize, Serialize};
use tokio::sync::watch;
use turmoil::{lookup, Builder};

const PORT: u16 = 9999;

#[repr(C)]
#[derive(Serialize, Deserialize, Archive, Debug)]
#[archive(check_bytes)]
#[archive_attr(derive(Debug))]
/// Long poll: answered with the next published value.
pub struct WaitForValue;

#[repr(C)]
#[derive(Serialize, Deserialize, Archive, Debug)]
#[archive(check_bytes)]
#[archive_attr(derive(Debug))]
pub struct Publish {
    value: u64,
}

#[repr(C)]
#[derive(Serialize, Deserialize, Archive, Debug)]
#[archive(check_bytes)]
#[archive_attr(derive(Debug))]
pub struct Ping;

#[repr(C)]
#[derive(Serialize, Deserialize, Archive, Debug)]
#[archive(check_bytes)]
#[archive_attr(derive(Debug))]
pub struct Slow {
    millis: u64,
}

pub struct Topic {
    value: watch::Sender<Option<u64>>,
    publishes_handled: Arc<AtomicUsize>,
}

impl RpcService for Topic {
    fn register_handlers(registry: &mut ServiceRegistry<Self>) {
        registry.add_handler::<WaitForValue>();
        registry.add_handler::<Publish>();
        registry.add_handler::<Ping>();
        registry.add_handler::<Slow>();
    }
}

#[datacake::rpc::async_trait]
impl Handler<WaitForValue> for Topic {
    type Reply = u64;

    async fn on_message(&self, _msg: Request<WaitForValue>) -> Result<u64, Status> {
        let mut rx = self.value.subscribe();
        loop {
            if let Some(value) = *rx.borrow_and_update() {
                return Ok(value);
            }
            rx.changed().await.map_err(Status::internal)?;
        }
    }
}

#[datacake::rpc::async_trait]
impl Handler<Publish> for Topic {
    type Reply = u64;

    async fn on_message(&self, msg: Request<Publish>) -> Result<u64, Status> {
        self.publishes_handled.fetch_add(1, Ordering::SeqCst);
        let value = msg.deserialize_view().map_err(Status::internal)?.value;
        self.value.send_replace(Some(value));
        Ok(value)
    }
}

#[datacake::rpc::async_trait]
impl Handler<Ping> for Topic {
    type Reply = u64;

    async fn on_message(&self, _msg: Request<Ping>) -> Result<u64, Status> {
        Ok(0)
    }
}

#[datacake::rpc::async_trait]
impl Handler<Slow> for Topic {
    type Reply = u64;

    async fn on_message(&self, msg: Request<Slow>) -> Result<u64, Status> {
        let millis = msg.deserialize_view().map_err(Status::internal)?.millis;
        tokio::time::sleep(Duration::from_millis(millis)).await;
        Ok(millis)
    }
}

#[test]
fn long_poll_and_publish_on_one_channel() -> turmoil::Result {
    let mut sim = Builder::new()
        .simulation_duration(Duration::from_secs(120))
        .build();
    let publishes_handled = Arc::new(AtomicUsize::new(0));

    let handled = publishes_handled.clone();
    sim.host("server", move || {
        let publishes_handled = handled.clone();
        async move {
            let addr: SocketAddr = (IpAddr::from(Ipv4Addr::UNSPECIFIED), PORT).into();
            let server = Server::listen(addr).await?;
            server.add_service(Topic {
                value: watch::channel(None).0,
                publishes_handled,
            });
            std::future::pending::<()>().await;
            Ok(())
        }
    });

    let handled = publishes_handled.clone();
    sim.client("client", async move {
        // No partition, no hold: the network is healthy from start to end.
        let channel = Channel::connect((lookup("server"), PORT).into());

        // Make sure the connection exists, so that this is not about its set-up.
        let client = RpcClient::<Topic>::new(channel.clone());
        assert_eq!(client.send(&Ping).await.unwrap().deserialize_view().unwrap(), 0);

        let poller = RpcClient::<Topic>::new(channel.clone());
        let long_poll = tokio::spawn(async move {
            poller.send(&WaitForValue).await.map(|value| value.deserialize_view().unwrap())
        });

        // The publish follows a moment later, on the same channel.
        tokio::time::sleep(Duration::from_millis(500)).await;
        let publisher = RpcClient::<Topic>::new(channel.clone());
        let publish = tokio::spawn(async move {
            publisher
                .send(&Publish { value: 42 })
                .await
                .map(|value| value.deserialize_view().unwrap())
        });

        // A minute of simulated time on a network whose latency is at most 100ms.
        let both = async { (long_poll.await.unwrap(), publish.await.unwrap()) };
        match tokio::time::timeout(Duration::from_secs(60), both).await {
            Ok((polled, published)) => {
                assert_eq!(published.unwrap(), 42);
                assert_eq!(polled.unwrap(), 42);
            },
            Err(_) => panic!(
                "healthy network, idle server, 60s later: neither the long poll nor \
                 the publish has returned a reply or an error; the server has handled \
                 {} publish requests",
                handled.load(Ordering::SeqCst)
            ),
        }

        Ok(())
    });

    sim.run()
}

#[test]
/// Corollary, for the severity rather than for the letter of the property (a `Timeout`
/// is one of the outcomes the property allows): one slow handler makes every other
/// request on the channel time out, although the network is healthy and the server
/// would answer each of them at once - they are never sent.
fn corollary_fast_requests_next_to_a_slow_one() -> turmoil::Result {
    let mut sim = Builder::new()
        .simulation_duration(Duration::from_secs(120))
        .build();

    sim.host("server", move || async move {
        let addr: SocketAddr = (IpAddr::from(Ipv4Addr::UNSPECIFIED), PORT).into();
        let server = Server::listen(addr).await?;
        server.add_service(Topic {
            value: watch::channel(None).0,
            publishes_handled: Arc::new(AtomicUsize::new(0)),
        });
        std::future::pending::<()>().await;
        Ok(())
    });

    sim.client("client", async move {
        let channel = Channel::connect((lookup("server"), PORT).into());
        let client = RpcClient::<Topic>::new(channel.clone());
        assert_eq!(client.send(&Ping).await.unwrap().deserialize_view().unwrap(), 0);

        let patient = RpcClient::<Topic>::new(channel.clone());
        let slow = tokio::spawn(async move {
            patient.send(&Slow { millis: 5_000 }).await.map(|_| ())
        });
        tokio::time::sleep(Duration::from_millis(500)).await;

        let mut hasty = RpcClient::<Topic>::new(channel.clone());
        hasty.set_timeout(Duration::from_secs(1));
        for i in 0..3 {
            let start = tokio::time::Instant::now();
            let res = hasty.send(&Ping).await.map(|_| ());
            println!("ping {i}: {res:?} after {:?}", start.elapsed());
            assert!(res.is_ok(), "ping {i} next to a slow request: {res:?}");
        }
        slow.await.unwrap().unwrap();
        Ok(())
    });

    sim.run()
}
