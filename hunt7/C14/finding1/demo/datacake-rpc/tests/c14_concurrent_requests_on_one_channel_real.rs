//! Control for simulation-tests/tests/c14_concurrent_requests_on_one_channel.rs: the
//! same service, the same two concurrent requests on one channel, over real sockets
//! (no `simulation` feature).  Here the channel does multiplex, the publish is handled
//! while the long poll is outstanding, and both requests return their replies.
//! This test PASSES.

use std::sync::atomic::{AtomicUsize, Ordering};
use std::sync::Arc;
use std::time::Duration;

use datacake_rpc::{
    Channel,
    Handler,
    Request,
    RpcClient,
    RpcService,
    Server,
    ServiceRegistry,
    Status,
};
use rkyv::{Archive, Deserialize, Serialize};
use tokio::sync::watch;

#[repr(C)]
#[derive(Serialize, Deserialize, Archive, Debug)]
#[archive(check_bytes)]
#[archive_attr(derive(Debug))]
/// Long poll: answered with the next published value.
pub struct WaitForValue;

#[repr(C)]
#[derive(Serialize, Deserialize, Archive, Debug)]
#[archive(check_bytes)]
#[archive_attr(derive(Debug))]
pub struct Publish {
    value: u64,
}

#[repr(C)]
#[derive(Serialize, Deserialize, Archive, Debug)]
#[archive(check_bytes)]
#[archive_attr(derive(Debug))]
pub struct Ping;

pub struct Topic {
    value: watch::Sender<Option<u64>>,
    publishes_handled: Arc<AtomicUsize>,
}

impl RpcService for Topic {
    fn register_handlers(registry: &mut ServiceRegistry<Self>) {
        registry.add_handler::<WaitForValue>();
        registry.add_handler::<Publish>();
        registry.add_handler::<Ping>();
    }
}

#[datacake_rpc::async_trait]
impl Handler<WaitForValue> for Topic {
    type Reply = u64;

    async fn on_message(&self, _msg: Request<WaitForValue>) -> Result<u64, Status> {
        let mut rx = self.value.subscribe();
        loop {
            if let Some(value) = *rx.borrow_and_update() {
                return Ok(value);
            }
            rx.changed().await.map_err(Status::internal)?;
        }
    }
}

#[datacake_rpc::async_trait]
impl Handler<Publish> for Topic {
    type Reply = u64;

    async fn on_message(&self, msg: Request<Publish>) -> Result<u64, Status> {
        self.publishes_handled.fetch_add(1, Ordering::SeqCst);
        let value = msg.deserialize_view().map_err(Status::internal)?.value;
        self.value.send_replace(Some(value));
        Ok(value)
    }
}

#[datacake_rpc::async_trait]
impl Handler<Ping> for Topic {
    type Reply = u64;

    async fn on_message(&self, _msg: Request<Ping>) -> Result<u64, Status> {
        Ok(0)
    }
}

#[tokio::test]
async fn long_poll_and_publish_on_one_channel_real_sockets() {
    let addr = test_helper::get_unused_addr();
    let publishes_handled = Arc::new(AtomicUsize::new(0));
    let server = Server::listen(addr).await.unwrap();
    server.add_service(Topic {
        value: watch::channel(None).0,
        publishes_handled: publishes_handled.clone(),
    });

    let channel = Channel::connect(addr);
    let client = RpcClient::<Topic>::new(channel.clone());
    assert_eq!(client.send(&Ping).await.unwrap().deserialize_view().unwrap(), 0);

    let poller = RpcClient::<Topic>::new(channel.clone());
    let long_poll = tokio::spawn(async move {
        poller.send(&WaitForValue).await.map(|value| value.deserialize_view().unwrap())
    });

    tokio::time::sleep(Duration::from_millis(500)).await;
    let publisher = RpcClient::<Topic>::new(channel.clone());
    let publish = tokio::spawn(async move {
        publisher
            .send(&Publish { value: 42 })
            .await
            .map(|value| value.deserialize_view().unwrap())
    });

    let both = async { (long_poll.await.unwrap(), publish.await.unwrap()) };
    let (polled, published) = tokio::time::timeout(Duration::from_secs(10), both)
        .await
        .expect("both requests return");
    assert_eq!(published.unwrap(), 42);
    assert_eq!(polled.unwrap(), 42);
    assert_eq!(publishes_handled.load(Ordering::SeqCst), 1);
    server.shutdown();
}
