use std::collections::HashMap;
use std::net::{IpAddr, Ipv4Addr, SocketAddr};
use std::sync::{Arc, Mutex};
use std::time::Duration;

use datacake::rpc::{
    Channel,
    ErrorCode,
    Handler,
    Request,
    RpcClient,
    RpcService,
    Server,
    ServiceRegistry,
    Status,
};
use rkyv::{Archive, Deserialize, Serialize};
use turmoil::{lookup, Builder};

const PORT: u16 = 9999;

#[repr(C)]
#[derive(Serialize, Deserialize, Archive, PartialEq, Debug)]
#[archive(compare(PartialEq), check_bytes)]
#[archive_attr(derive(PartialEq, Debug))]
pub struct Msg {
    id: u64,
    delay_ms: u64,
    pad: Vec<u8>,
}

#[repr(C)]
#[derive(Serialize, Deserialize, Archive, PartialEq, Debug)]
#[archive(compare(PartialEq), check_bytes)]
#[archive_attr(derive(PartialEq, Debug))]
pub struct Reply {
    id: u64,
    pad: Vec<u8>,
}

#[derive(Clone, Default)]
struct Counts(Arc<Mutex<HashMap<u64, usize>>>);

pub struct Svc {
    counts: Counts,
}

impl RpcService for Svc {
    fn register_handlers(registry: &mut ServiceRegistry<Self>) {
        registry.add_handler::<Msg>();
    }
}

#[datacake::rpc::async_trait]
impl Handler<Msg> for Svc {
    type Reply = Reply;

    async fn on_message(&self, msg: Request<Msg>) -> Result<Self::Reply, Status> {
        let m: Msg = msg.deserialize_view().unwrap();
        *self.counts.0.lock().unwrap().entry(m.id).or_insert(0) += 1;
        if m.delay_ms > 0 {
            tokio::time::sleep(Duration::from_millis(m.delay_ms)).await;
        }
        Ok(Reply {
            id: m.id,
            pad: m.pad,
        })
    }
}

struct Lcg(u64);
impl Lcg {
    fn next(&mut self) -> u64 {
        self.0 = self
            .0
            .wrapping_mul(6364136223846793005)
            .wrapping_add(1442695040888963407);
        self.0 >> 33
    }
    fn below(&mut self, n: u64) -> u64 {
        self.next() % n
    }
}

fn addr(name: &str) -> SocketAddr {
    (lookup(name), PORT).into()
}

async fn one_request(
    client: RpcClient<Svc>,
    id: u64,
    delay_ms: u64,
    pad: usize,
    timeout: Duration,
) -> Result<(), String> {
    let msg = Msg {
        id,
        delay_ms,
        pad: vec![(id % 251) as u8; pad],
    };
    let start = tokio::time::Instant::now();
    let res = client.send(&msg).await;
    let took = start.elapsed();
    if took > timeout + Duration::from_millis(5) {
        return Err(format!("id {id}: took {took:?} > timeout {timeout:?}"));
    }
    match res {
        Ok(view) => {
            let r: Reply = view.deserialize_view().unwrap();
            if r.id != id || r.pad != msg.pad {
                return Err(format!("id {id}: got reply for {}", r.id));
            }
        },
        Err(e) => {
            if e.code != ErrorCode::ConnectionError && e.code != ErrorCode::Timeout {
                return Err(format!("id {id}: error {e:?}"));
            }
        },
    }
    Ok(())
}

fn run_seed(seed: u64) -> Result<(), String> {
    let counts = Counts::default();
    let mut sim = Builder::new()
        .simulation_duration(Duration::from_secs(600))
        .build();

    let c2 = counts.clone();
    sim.host("server", move || {
        let counts = c2.clone();
        async move {
            let server = Server::listen((IpAddr::from(Ipv4Addr::UNSPECIFIED), PORT).into())
                .await?;
            server.add_service(Svc { counts });
            std::future::pending::<()>().await;
            Ok(())
        }
    });

    let failures: Arc<Mutex<Vec<String>>> = Default::default();
    let f2 = failures.clone();
    sim.client("client", async move {
        let mut rng = Lcg(seed.wrapping_mul(0x9E3779B97F4A7C15) ^ 0xABCDEF);
        let mut channel = Channel::connect(addr("server"));
        let mut next_id = seed * 1_000_000;
        let mut tasks = Vec::new();
        let steps = 10 + rng.below(30);
        for _ in 0..steps {
            match rng.below(12) {
                0 => turmoil::partition("client", "server"),
                1 => turmoil::repair("client", "server"),
                2 => turmoil::hold("client", "server"),
                3 => turmoil::release("client", "server"),
                4 => {
                    tokio::time::sleep(Duration::from_millis(rng.below(2500))).await
                },
                5 => {
                    // fresh channel
                    channel = Channel::connect(addr("server"));
                },
                6..=8 => {
                    // sequential request
                    next_id += 1;
                    let mut client = RpcClient::<Svc>::new(channel.clone());
                    let t = Duration::from_millis(1 + rng.below(3000));
                    client.set_timeout(t);
                    let delay = if rng.below(3) == 0 { rng.below(1500) } else { 0 };
                    let pad = rng.below(64) as usize;
                    if let Err(e) = one_request(client, next_id, delay, pad, t).await {
                        f2.lock().unwrap().push(e);
                    }
                },
                _ => {
                    // concurrent requests
                    let n = 1 + rng.below(4);
                    for _ in 0..n {
                        next_id += 1;
                        let mut client = RpcClient::<Svc>::new(channel.clone());
                        let t = Duration::from_millis(1 + rng.below(3000));
                        client.set_timeout(t);
                        let delay =
                            if rng.below(3) == 0 { rng.below(1500) } else { 0 };
                        let pad = rng.below(64) as usize;
                        let f3 = f2.clone();
                        let id = next_id;
                        tasks.push(tokio::spawn(async move {
                            if let Err(e) = one_request(client, id, delay, pad, t).await {
                                f3.lock().unwrap().push(e);
                            }
                        }));
                    }
                },
            }
        }
        turmoil::release("client", "server");
        turmoil::repair("client", "server");
        for t in tasks {
            t.await.unwrap();
        }
        tokio::time::sleep(Duration::from_secs(5)).await;
        Ok(())
    });

    sim.run().map_err(|e| format!("sim error: {e}"))?;

    for (id, n) in counts.0.lock().unwrap().iter() {
        if *n > 1 {
            failures
                .lock()
                .unwrap()
                .push(format!("id {id} executed {n} times"));
        }
    }
    let f = failures.lock().unwrap();
    if f.is_empty() {
        Ok(())
    } else {
        Err(f.join("; "))
    }
}

#[test]
fn explore() {
    let from: u64 = std::env::var("SEED_FROM")
        .ok()
        .and_then(|s| s.parse().ok())
        .unwrap_or(0);
    let n: u64 = std::env::var("SEEDS")
        .ok()
        .and_then(|s| s.parse().ok())
        .unwrap_or(200);
    let mut bad = 0;
    for seed in from..from + n {
        let r = std::panic::catch_unwind(|| run_seed(seed));
        match r {
            Ok(Ok(())) => {},
            Ok(Err(e)) => {
                bad += 1;
                println!("seed {seed}: FAIL {e}");
            },
            Err(p) => {
                let msg = p
                    .downcast_ref::<String>()
                    .cloned()
                    .or_else(|| p.downcast_ref::<&str>().map(|s| s.to_string()))
                    .unwrap_or_default();
                println!("seed {seed}: PANIC {msg}");
            },
        }
    }
    assert_eq!(bad, 0);
}
