use std::collections::HashMap;
use std::net::SocketAddr;
use std::sync::atomic::{AtomicU8, Ordering};
use std::sync::{Arc, Mutex};
use std::time::{Duration, Instant};

use datacake_rpc::{
    Channel,
    ErrorCode,
    Handler,
    Request,
    RpcClient,
    RpcService,
    Server,
    ServiceRegistry,
    Status,
};
use rkyv::{Archive, Deserialize, Serialize};
use tokio::io::{AsyncReadExt, AsyncWriteExt};
use tokio::net::{TcpListener, TcpStream};
use tokio::sync::Notify;

#[repr(C)]
#[derive(Serialize, Deserialize, Archive, PartialEq, Debug)]
#[archive(compare(PartialEq), check_bytes)]
#[archive_attr(derive(PartialEq, Debug))]
pub struct Msg {
    id: u64,
    delay_ms: u64,
    pad: Vec<u8>,
}

#[repr(C)]
#[derive(Serialize, Deserialize, Archive, PartialEq, Debug)]
#[archive(compare(PartialEq), check_bytes)]
#[archive_attr(derive(PartialEq, Debug))]
pub struct Reply {
    id: u64,
    pad: Vec<u8>,
}

#[derive(Clone, Default)]
struct Counts(Arc<Mutex<HashMap<u64, usize>>>);

pub struct Svc {
    counts: Counts,
}

impl RpcService for Svc {
    fn register_handlers(registry: &mut ServiceRegistry<Self>) {
        registry.add_handler::<Msg>();
    }
}

#[datacake_rpc::async_trait]
impl Handler<Msg> for Svc {
    type Reply = Reply;

    async fn on_message(&self, msg: Request<Msg>) -> Result<Self::Reply, Status> {
        let m: Msg = msg.deserialize_view().unwrap();
        *self.counts.0.lock().unwrap().entry(m.id).or_insert(0) += 1;
        if m.delay_ms > 0 {
            tokio::time::sleep(Duration::from_millis(m.delay_ms)).await;
        }
        Ok(Reply {
            id: m.id,
            pad: m.pad,
        })
    }
}

static STATS: Mutex<std::collections::BTreeMap<String, usize>> = Mutex::new(std::collections::BTreeMap::new());
const PASS: u8 = 0;
const HOLD: u8 = 1;

#[derive(Clone)]
struct Proxy {
    mode: Arc<AtomicU8>,
    changed: Arc<Notify>,
    sever: Arc<tokio::sync::watch::Sender<u64>>,
}

impl Proxy {
    async fn start(listen: SocketAddr, target: SocketAddr) -> Self {
        let (tx, _rx) = tokio::sync::watch::channel(0u64);
        let p = Proxy {
            mode: Arc::new(AtomicU8::new(PASS)),
            changed: Arc::new(Notify::new()),
            sever: Arc::new(tx),
        };
        let listener = TcpListener::bind(listen).await.unwrap();
        let p2 = p.clone();
        tokio::spawn(async move {
            loop {
                let (inbound, _) = listener.accept().await.unwrap();
                let p3 = p2.clone();
                tokio::spawn(async move {
                    let outbound = match TcpStream::connect(target).await {
                        Ok(o) => o,
                        Err(_) => return,
                    };
                    inbound.set_nodelay(true).ok();
                    outbound.set_nodelay(true).ok();
                    let (ir, iw) = inbound.into_split();
                    let (or, ow) = outbound.into_split();
                    let a = tokio::spawn(p3.clone().pipe(ir, ow));
                    let b = tokio::spawn(p3.clone().pipe(or, iw));
                    let mut rx = p3.sever.subscribe();
                    let _ = rx.changed().await;
                    a.abort();
                    b.abort();
                });
            }
        });
        p
    }

    async fn pipe(
        self,
        mut r: tokio::net::tcp::OwnedReadHalf,
        mut w: tokio::net::tcp::OwnedWriteHalf,
    ) {
        let mut buf = vec![0u8; 16 << 10];
        loop {
            let n = match r.read(&mut buf).await {
                Ok(0) | Err(_) => {
                    let _ = w.shutdown().await;
                    return;
                },
                Ok(n) => n,
            };
            loop {
                let notified = self.changed.notified();
                if self.mode.load(Ordering::SeqCst) == PASS {
                    break;
                }
                notified.await;
            }
            if w.write_all(&buf[..n]).await.is_err() {
                return;
            }
        }
    }

    fn hold(&self) {
        self.mode.store(HOLD, Ordering::SeqCst);
        self.changed.notify_waiters();
    }
    fn release(&self) {
        self.mode.store(PASS, Ordering::SeqCst);
        self.changed.notify_waiters();
    }
    fn sever(&self) {
        self.sever.send_modify(|v| *v += 1);
    }
}

struct Lcg(u64);
impl Lcg {
    fn next(&mut self) -> u64 {
        self.0 = self
            .0
            .wrapping_mul(6364136223846793005)
            .wrapping_add(1442695040888963407);
        self.0 >> 33
    }
    fn below(&mut self, n: u64) -> u64 {
        self.next() % n
    }
}

async fn one_request(
    client: RpcClient<Svc>,
    id: u64,
    delay_ms: u64,
    pad: usize,
    timeout: Duration,
) -> Result<(), String> {
    let msg = Msg {
        id,
        delay_ms,
        pad: vec![(id % 251) as u8; pad],
    };
    let start = Instant::now();
    let res = client.send(&msg).await;
    let took = start.elapsed();
    if took > timeout + Duration::from_millis(150) {
        return Err(format!("id {id}: took {took:?} > timeout {timeout:?}"));
    }
    STATS.lock().unwrap().entry(match &res { Ok(_) => "ok".to_string(), Err(e) => format!("{:?}:{}", e.code, e.message) }).and_modify(|v| *v += 1).or_insert(1usize);
    match res {
        Ok(view) => {
            let r: Reply = view.deserialize_view().unwrap();
            if r.id != id || r.pad != msg.pad {
                return Err(format!("id {id}: got reply for {}", r.id));
            }
        },
        Err(e) => {
            if e.code != ErrorCode::ConnectionError && e.code != ErrorCode::Timeout {
                return Err(format!("id {id}: error {e:?}"));
            }
        },
    }
    Ok(())
}

async fn run_seed(seed: u64) -> Result<(), String> {
    let counts = Counts::default();
    let server_addr = test_helper::get_unused_addr();
    let proxy_addr = test_helper::get_unused_addr();
    let server = Server::listen(server_addr).await.unwrap();
    server.add_service(Svc {
        counts: counts.clone(),
    });
    let proxy = Proxy::start(proxy_addr, server_addr).await;

    let failures: Arc<Mutex<Vec<String>>> = Default::default();
    let mut rng = Lcg(seed.wrapping_mul(0x9E3779B97F4A7C15) ^ 0xABCDEF);
    let mut channel = Channel::connect(proxy_addr);
    let mut next_id = seed * 1_000_000;
    let mut tasks = Vec::new();
    let steps = 20 + rng.below(40);
    for _ in 0..steps {
        match rng.below(12) {
            0 => proxy.sever(),
            1 | 2 => proxy.hold(),
            3 => proxy.release(),
            4 => tokio::time::sleep(Duration::from_millis(rng.below(300))).await,
            5 => {
                if rng.below(4) == 0 {
                    channel = Channel::connect(proxy_addr);
                }
            },
            6..=7 => {
                next_id += 1;
                let mut client = RpcClient::<Svc>::new(channel.clone());
                let t = Duration::from_millis(1 + rng.below(400));
                client.set_timeout(t);
                let delay = if rng.below(3) == 0 { rng.below(300) } else { 0 };
                let pad = if rng.below(4) == 0 {
                    rng.below(300_000) as usize
                } else {
                    rng.below(2000) as usize
                };
                if let Err(e) = one_request(client, next_id, delay, pad, t).await {
                    failures.lock().unwrap().push(e);
                }
            },
            _ => {
                let n = 1 + rng.below(30);
                for _ in 0..n {
                    next_id += 1;
                    let mut client = RpcClient::<Svc>::new(channel.clone());
                    let t = Duration::from_millis(1 + rng.below(400));
                    client.set_timeout(t);
                    let delay = if rng.below(3) == 0 { rng.below(300) } else { 0 };
                    let pad = if rng.below(8) == 0 {
                        rng.below(300_000) as usize
                    } else {
                        rng.below(2000) as usize
                    };
                    let f3 = failures.clone();
                    let id = next_id;
                    tasks.push(tokio::spawn(async move {
                        if let Err(e) = one_request(client, id, delay, pad, t).await {
                            f3.lock().unwrap().push(e);
                        }
                    }));
                }
            },
        }
    }
    proxy.release();
    for t in tasks {
        t.await.unwrap();
    }
    tokio::time::sleep(Duration::from_millis(500)).await;
    server.shutdown();

    for (id, n) in counts.0.lock().unwrap().iter() {
        if *n > 1 {
            failures
                .lock()
                .unwrap()
                .push(format!("id {id} executed {n} times"));
        }
    }
    let f = failures.lock().unwrap();
    if f.is_empty() {
        Ok(())
    } else {
        Err(f.join("; "))
    }
}

#[tokio::test(flavor = "multi_thread", worker_threads = 4)]
async fn explore_real() {
    let from: u64 = std::env::var("SEED_FROM")
        .ok()
        .and_then(|s| s.parse().ok())
        .unwrap_or(0);
    let n: u64 = std::env::var("SEEDS")
        .ok()
        .and_then(|s| s.parse().ok())
        .unwrap_or(30);
    let mut bad = 0;
    for seed in from..from + n {
        match run_seed(seed).await {
            Ok(()) => {},
            Err(e) => {
                bad += 1;
                println!("seed {seed}: FAIL {e}");
            },
        }
    }
    println!("{:#?}", STATS.lock().unwrap());
    assert_eq!(bad, 0);
}
