//! C14: "a client configured with a timeout gets an answer or a timeout error within
//! that bound" - also when the link is held (or the server is slow) after the head of
//! the reply has arrived but before its last body byte.
//!
//! Commit b2eb480 moved the reading of the reply body inside the timeout, but that only
//! covers replies which are rkyv messages.  For a handler with `type Reply = Body` the
//! `from_body` step is `Ok(body)`: `send` resolves as soon as the response head is in,
//! the timer is dropped, and the caller is handed a body that is still in flight with
//! no deadline on it at all.  The link going quiet at that moment leaves the client
//! waiting for ever: no reply, no `Timeout`, no `ConnectionError`.
//!
//! The tests run over real sockets; the "network" is a small forwarding proxy in this
//! file which can be told to hold everything (like `turmoil::hold`).

use std::net::SocketAddr;
use std::sync::atomic::{AtomicBool, Ordering};
use std::sync::Arc;
use std::time::{Duration, Instant};

use datacake_rpc::{
    Body,
    Channel,
    ErrorCode,
    Handler,
    Request,
    RpcClient,
    RpcService,
    Server,
    ServiceRegistry,
    Status,
};
use hyper::body::HttpBody;
use rkyv::{Archive, Deserialize, Serialize};
use tokio::io::{AsyncReadExt, AsyncWriteExt};
use tokio::net::{TcpListener, TcpStream};
use tokio::sync::Notify;

const CLIENT_TIMEOUT: Duration = Duration::from_millis(500);
/// How long the test is prepared to wait for "an answer or an error": ten times
/// the timeout the client was configured with.
const PATIENCE: Duration = Duration::from_secs(5);

const FIRST: &[u8] = b"first half of the reply;";
const SECOND: &[u8] = b"second half of the reply";

#[repr(C)]
#[derive(Serialize, Deserialize, Archive, Debug)]
#[archive(check_bytes)]
#[archive_attr(derive(Debug))]
pub struct Streamed {
    /// The pause of the server between the two halves of its reply.
    pause_ms: u64,
}

#[repr(C)]
#[derive(Serialize, Deserialize, Archive, Debug)]
#[archive(check_bytes)]
#[archive_attr(derive(Debug))]
pub struct Whole {
    pause_ms: u64,
}

pub struct Svc;

impl RpcService for Svc {
    fn register_handlers(registry: &mut ServiceRegistry<Self>) {
        registry.add_handler::<Streamed>();
        registry.add_handler::<Whole>();
    }
}

#[datacake_rpc::async_trait]
impl Handler<Streamed> for Svc {
    type Reply = Body;

    async fn on_message(&self, msg: Request<Streamed>) -> Result<Body, Status> {
        let pause = Duration::from_millis(msg.pause_ms);
        let (mut tx, body) = hyper::Body::channel();
        tokio::spawn(async move {
            let _ = tx.send_data(FIRST.into()).await;
            tokio::time::sleep(pause).await;
            let _ = tx.send_data(SECOND.into()).await;
        });
        Ok(Body::new(body))
    }
}

#[datacake_rpc::async_trait]
impl Handler<Whole> for Svc {
    // The same reply, but as a message: this one is read inside the timeout.
    type Reply = Vec<u8>;

    async fn on_message(&self, msg: Request<Whole>) -> Result<Vec<u8>, Status> {
        tokio::time::sleep(Duration::from_millis(msg.pause_ms)).await;
        Ok([FIRST, SECOND].concat())
    }
}

/// Reads the streamed reply to its end.
async fn read_all(body: Body) -> Result<Vec<u8>, hyper::Error> {
    let mut body = body.into_inner();
    let mut all = Vec::new();
    while let Some(chunk) = body.data().await {
        all.extend_from_slice(&chunk?);
    }
    Ok(all)
}

#[tokio::test]
/// The link is held after the head (and the first half) of a streamed reply arrived.
async fn held_link_under_a_streamed_reply() {
    let server_addr = test_helper::get_unused_addr();
    let proxy_addr = test_helper::get_unused_addr();
    let server = Server::listen(server_addr).await.unwrap();
    server.add_service(Svc);
    let proxy = Proxy::start(proxy_addr, server_addr).await;

    let mut client = RpcClient::<Svc>::new(Channel::connect(proxy_addr));
    client.set_timeout(CLIENT_TIMEOUT);

    // Warm up: without faults the whole reply is there long before the timeout.
    let body = client.send(&Streamed { pause_ms: 100 }).await.unwrap();
    assert_eq!(read_all(body).await.unwrap(), [FIRST, SECOND].concat());

    let start = Instant::now();
    let outcome = tokio::time::timeout(PATIENCE, async {
        let body = client.send(&Streamed { pause_ms: 100 }).await?;
        // The head is in. Now the link goes quiet, 100ms before the second half is sent.
        proxy.hold();
        read_all(body).await.map_err(Status::connection)
    })
    .await;
    let took = start.elapsed();
    proxy.release();

    match outcome {
        Ok(Ok(reply)) => assert_eq!(reply, [FIRST, SECOND].concat()),
        Ok(Err(status)) => assert!(
            matches!(status.code, ErrorCode::Timeout | ErrorCode::ConnectionError),
            "{status:?}"
        ),
        Err(_) => panic!(
            "client configured with a timeout of {CLIENT_TIMEOUT:?} has neither the reply \
             nor a Timeout nor a ConnectionError after {took:?}"
        ),
    }
    assert!(
        took <= CLIENT_TIMEOUT + Duration::from_millis(250),
        "took {took:?}"
    );
    server.shutdown();
}

#[tokio::test]
/// No network fault at all, just a server which is slow between the head and the
/// end of its reply.
async fn slow_server_under_a_streamed_reply() {
    let server_addr = test_helper::get_unused_addr();
    let server = Server::listen(server_addr).await.unwrap();
    server.add_service(Svc);

    let mut client = RpcClient::<Svc>::new(Channel::connect(server_addr));
    client.set_timeout(CLIENT_TIMEOUT);

    let start = Instant::now();
    let outcome = async {
        let body = client.send(&Streamed { pause_ms: 3_000 }).await?;
        read_all(body).await.map_err(Status::connection)
    }
    .await;
    let took = start.elapsed();

    // Whatever the outcome is, it has to be there within the bound.
    assert!(
        took <= CLIENT_TIMEOUT + Duration::from_millis(250),
        "client configured with a timeout of {CLIENT_TIMEOUT:?} got {:?} after {took:?}",
        outcome.map(|reply| String::from_utf8(reply).unwrap()),
    );
    server.shutdown();
}

#[tokio::test]
/// Control: the same two scenarios with a reply that is a message. These pass, the
/// timeout does cover the body of such a reply (commit b2eb480).
async fn control_message_reply_is_bounded() {
    let server_addr = test_helper::get_unused_addr();
    let server = Server::listen(server_addr).await.unwrap();
    server.add_service(Svc);

    let mut client = RpcClient::<Svc>::new(Channel::connect(server_addr));
    client.set_timeout(CLIENT_TIMEOUT);

    let reply = client.send(&Whole { pause_ms: 100 }).await.unwrap();
    assert_eq!(reply.as_slice(), [FIRST, SECOND].concat());

    let start = Instant::now();
    let err = client.send(&Whole { pause_ms: 3_000 }).await.unwrap_err();
    assert_eq!(err.code, ErrorCode::Timeout);
    assert!(start.elapsed() <= CLIENT_TIMEOUT + Duration::from_millis(250));
    server.shutdown();
}

/// A forwarding proxy standing in for the network between client and server.
#[derive(Clone)]
struct Proxy {
    held: Arc<AtomicBool>,
    changed: Arc<Notify>,
}

impl Proxy {
    async fn start(listen: SocketAddr, target: SocketAddr) -> Self {
        let proxy = Proxy {
            held: Arc::new(AtomicBool::new(false)),
            changed: Arc::new(Notify::new()),
        };
        let listener = TcpListener::bind(listen).await.unwrap();
        let this = proxy.clone();
        tokio::spawn(async move {
            loop {
                let (inbound, _) = listener.accept().await.unwrap();
                let outbound = TcpStream::connect(target).await.unwrap();
                inbound.set_nodelay(true).unwrap();
                outbound.set_nodelay(true).unwrap();
                let (ir, iw) = inbound.into_split();
                let (or, ow) = outbound.into_split();
                tokio::spawn(this.clone().pipe(ir, ow));
                tokio::spawn(this.clone().pipe(or, iw));
            }
        });
        proxy
    }

    async fn pipe(
        self,
        mut from: tokio::net::tcp::OwnedReadHalf,
        mut to: tokio::net::tcp::OwnedWriteHalf,
    ) {
        let mut buf = vec![0u8; 16 << 10];
        loop {
            let n = match from.read(&mut buf).await {
                Ok(0) | Err(_) => return,
                Ok(n) => n,
            };
            // A held link keeps what it has been given until it is released.
            loop {
                let changed = self.changed.notified();
                if !self.held.load(Ordering::SeqCst) {
                    break;
                }
                changed.await;
            }
            if to.write_all(&buf[..n]).await.is_err() {
                return;
            }
        }
    }

    fn hold(&self) {
        self.held.store(true, Ordering::SeqCst);
        self.changed.notify_waiters();
    }

    fn release(&self) {
        self.held.store(false, Ordering::SeqCst);
        self.changed.notify_waiters();
    }
}
