use datacake_crdt::HLCTimestamp;

#[test]
fn archived_hostile_bytes() {
    let mut buf = rkyv::AlignedVec::new();
    buf.extend_from_slice(&[0xFFu8; 32]);
    for start in 0..16 {
        for end in start..32 {
            let r = rkyv::check_archived_root::<HLCTimestamp>(&buf[start..end]);
            if let Ok(a) = r {
                assert_eq!(a.cast().as_u64(), u64::MAX);
            }
        }
    }
    for raw in [0u64, 1, u64::MAX, 1 << 63, 0x0102030405060708] {
        let ts = HLCTimestamp::from_u64(raw);
        let bytes = rkyv::to_bytes::<_, 64>(&ts).unwrap();
        assert_eq!(&bytes[..], &raw.to_le_bytes());
        let a = rkyv::check_archived_root::<HLCTimestamp>(&bytes).unwrap();
        assert_eq!(a.cast(), ts);
    }
}
