use std::str::FromStr;
use std::time::Duration;

use datacake_crdt::HLCTimestamp;

const TMAX: u64 = (1u64 << 32) - 1;

fn secs_grid() -> Vec<u64> {
    vec![0, 1, 2, 255, 256, 65535, 65536, (1 << 31) - 1, 1 << 31, (1 << 31) + 1, TMAX - 1, TMAX]
}
fn nanos_grid() -> Vec<u32> {
    let mut v = vec![0, 1, 999_999, 1_000_000, 3_999_999, 4_000_000, 4_000_001, 7_999_999, 8_000_000,
        500_000_000, 995_999_999, 996_000_000, 996_000_001, 999_000_000, 999_999_999];
    for f in 0..250u32 { v.push(f * 4_000_000); v.push(f * 4_000_000 + 3_999_999); }
    v
}
fn counter_grid() -> Vec<u16> { vec![0, 1, 9, 10, 15, 16, 255, 256, 4095, 4096, 0x7FFF, 0x8000, 0xFFFE, 0xFFFF] }
fn node_grid() -> Vec<u8> { vec![0, 1, 9, 10, 99, 100, 127, 128, 254, 255] }

#[test]
fn grid() {
    let mut all = Vec::new();
    for s in secs_grid() { for n in nanos_grid() { for c in counter_grid() { for nd in node_grid() {
        let d = Duration::new(s, n);
        let ts = HLCTimestamp::new(d, c, nd);
        let q = (d.as_millis() / 4) as u64;
        assert_eq!(ts.seconds(), s);
        assert_eq!(ts.fractional() as u32, n / 4_000_000);
        assert_eq!(ts.counter(), c);
        assert_eq!(ts.node(), nd);
        assert_eq!(ts.datacake_timestamp(), Duration::from_millis(q * 4));
        assert_eq!(HLCTimestamp::from_u64(ts.as_u64()), ts);
        let txt = ts.to_string();
        assert_eq!(HLCTimestamp::from_str(&txt).unwrap(), ts, "{txt}");
        assert_eq!(HLCTimestamp::new(ts.datacake_timestamp(), ts.counter(), ts.node()), ts);
        let bytes = rkyv::to_bytes::<_, 64>(&ts).unwrap();
        let arch = rkyv::check_archived_root::<HLCTimestamp>(&bytes).unwrap();
        assert_eq!(arch.cast(), ts);
        assert!(*arch == ts);
        let back: HLCTimestamp = rkyv::from_bytes(&bytes).unwrap();
        assert_eq!(back, ts);
        all.push(((q, c, nd), ts));
    }}}}
    // ordering on a sample
    let step = 97;
    let sample: Vec<_> = all.iter().step_by(step).collect();
    for a in &sample { for b in &sample {
        assert_eq!(a.0.cmp(&b.0), a.1.cmp(&b.1));
    }}
}

#[test]
fn hostile() {
    let parts = ["", "0", "-", "+", "+1", "-1", "00000000000000000000001", "4294967295", "4294967296",
        "18446744073709551615", "18446744073709551616", "255", "256", "0249", "0250", "FFFF", "ffff", "10000", "+FFFF",
        "0x10", " 1", "1 ", "\u{0661}", "1e3", "１", "\0", "zz", "99999999999999999999999999999999999999999"];
    for a in parts { for b in parts { for c in parts { for d in parts {
        let s = format!("{a}-{b}-{c}-{d}");
        if let Ok(ts) = HLCTimestamp::from_str(&s) {
            let again = HLCTimestamp::from_str(&ts.to_string()).unwrap();
            assert_eq!(again, ts);
        }
    }}}}
    for s in ["", "-", "--", "---", "----", "1-2-3", "1-2-3-4-5", "1-2-3-4-", "\u{FFFD}", "1--2-3-4"] {
        let _ = HLCTimestamp::from_str(s);
    }
    let huge = "9".repeat(10_000_000);
    assert!(HLCTimestamp::from_str(&huge).is_err());
    let huge = "-".repeat(10_000_000);
    assert!(HLCTimestamp::from_str(&huge).is_err());
}

#[test]
fn random_u64() {
    let mut x = 0x9E3779B97F4A7C15u64;
    for _ in 0..2_000_000 {
        x ^= x << 13; x ^= x >> 7; x ^= x << 17;
        let ts = HLCTimestamp::from_u64(x);
        assert_eq!(ts.as_u64(), x);
        assert_eq!(HLCTimestamp::from_str(&ts.to_string()).unwrap(), ts);
        let repack = (ts.seconds() << 32) | ((ts.fractional() as u64) << 24) | ((ts.counter() as u64) << 8) | ts.node() as u64;
        assert_eq!(repack, x);
    }
}
