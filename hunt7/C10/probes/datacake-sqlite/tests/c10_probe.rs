use std::time::Duration;

use datacake_crdt::HLCTimestamp;
use datacake_eventual_consistency::{Document, DocumentMetadata, Storage};
use datacake_sqlite::SqliteStorage;

fn grid() -> Vec<HLCTimestamp> {
    let mut v = vec![];
    for s in [0u64, 1, 9, 10, 99, 100, 4294967294, 4294967295, 1 << 31] {
        for ms in [0u32, 3, 4, 8, 36, 40, 396, 400, 996, 999] {
            for c in [0u16, 1, 9, 10, 15, 16, 0xFFF, 0x1000, 0xFFFF] {
                for n in [0u8, 1, 9, 10, 99, 100, 255] {
                    v.push(HLCTimestamp::new(Duration::new(s, ms * 1_000_000), c, n));
                }
            }
        }
    }
    for raw in [0u64, 1, u64::MAX, 1 << 63, (1 << 63) - 1, 0xFFFF_FFFF_FA00_0000, 0x0000_0000_FF00_0000] {
        v.push(HLCTimestamp::from_u64(raw));
    }
    v
}

#[tokio::test]
async fn sqlite_roundtrip() {
    let store = SqliteStorage::open_in_memory().await.unwrap();
    let g = grid();
    for (i, ts) in g.iter().enumerate() {
        let id = i as u64;
        store.put("ks", Document::new(id, *ts, b"x".to_vec())).await.unwrap();
        let d = store.get("ks", id).await.unwrap().unwrap();
        assert_eq!(d.last_updated(), *ts);
    }
    let meta: Vec<_> = store.iter_metadata("ks").await.unwrap().collect();
    assert_eq!(meta.len(), g.len());
    for (id, ts, tomb) in meta {
        assert_eq!(ts, g[id as usize]);
        assert!(!tomb);
    }
    // tombstones
    store
        .mark_many_as_tombstone(
            "ks",
            g.iter().enumerate().map(|(i, ts)| DocumentMetadata::new(i as u64, *ts)),
        )
        .await
        .unwrap();
    let meta: Vec<_> = store.iter_metadata("ks").await.unwrap().collect();
    for (id, ts, tomb) in meta {
        assert_eq!(ts, g[id as usize]);
        assert!(tomb);
    }
    store
        .multi_put("k2", g.iter().enumerate().map(|(i, ts)| Document::new(u64::MAX - i as u64, *ts, Vec::new())))
        .await
        .unwrap();
    let docs: Vec<_> = store.multi_get("k2", (0..g.len()).map(|i| u64::MAX - i as u64)).await.unwrap().collect();
    assert_eq!(docs.len(), g.len());
    for d in docs {
        assert_eq!(d.last_updated(), g[(u64::MAX - d.id()) as usize]);
    }
}

#[tokio::test]
async fn sqlite_hostile_rows() {
    let store = SqliteStorage::open_in_memory().await.unwrap();
    let h = store.handle();
    let bad = ["", "-", "1-2-3", "4294967296-0000-0000-0000", "99999999999999999999999-0-0-0", "1-256-0-0",
               "1-0-10000-0", "1-0-0-256", "a-b-c-d", "1-2-3-4-5", "\u{0}", "1-0000-0000--1"];
    for (i, b) in bad.iter().enumerate() {
        h.execute(
            "INSERT INTO state_entries (keyspace, doc_id, ts, data) VALUES (?, ?, ?, ?)",
            (format!("k{i}"), 1i64, b.to_string(), vec![1u8]),
        ).await.unwrap();
        assert!(store.get(&format!("k{i}"), 1).await.is_err(), "{b:?}");
        assert!(store.iter_metadata(&format!("k{i}")).await.is_err());
    }
    // other storage classes
    h.execute("INSERT INTO state_entries (keyspace, doc_id, ts, data) VALUES ('n', 1, NULL, x'00')", ()).await.unwrap();
    assert!(store.get("n", 1).await.is_err());
    h.execute("INSERT INTO state_entries (keyspace, doc_id, ts, data) VALUES ('b', 1, x'ff', x'00')", ()).await.unwrap();
    assert!(store.get("b", 1).await.is_err());
    h.execute("INSERT INTO state_entries (keyspace, doc_id, ts, data) VALUES ('i', 1, 5, x'00')", ()).await.unwrap();
    let r = store.get("i", 1).await;
    println!("int ts: {:?}", r);
}
