//! scratch model-based fuzz (not a deliverable)
use std::collections::{BTreeMap, BTreeSet};
use std::time::Duration;

use datacake_crdt::{HLCTimestamp, OrSWotSet};

struct Rng(u64);
impl Rng {
    fn next(&mut self) -> u64 {
        self.0 ^= self.0 << 13;
        self.0 ^= self.0 >> 7;
        self.0 ^= self.0 << 17;
        self.0
    }
    fn below(&mut self, n: u64) -> u64 {
        self.next() % n
    }
}

static PURGED: std::sync::atomic::AtomicUsize = std::sync::atomic::AtomicUsize::new(0);
const BASE_MS: u64 = 10 * 24 * 3600 * 1000; // 10 days after the epoch
const HOUR_MS: u64 = 3_600_000;

#[derive(Clone)]
struct Hlc {
    node: u8,
    ms: u64, // logical ms (multiple of 4)
    counter: u16,
}
impl Hlc {
    fn send(&mut self, wall_ms: u64) -> HLCTimestamp {
        let wall = wall_ms / 4 * 4;
        if wall > self.ms {
            self.ms = wall;
            self.counter = 0;
        } else {
            self.counter += 1;
        }
        HLCTimestamp::new(Duration::from_millis(self.ms), self.counter, self.node)
    }
    fn recv(&mut self, wall_ms: u64, msg: HLCTimestamp) {
        let wall = wall_ms / 4 * 4;
        let m = msg.datacake_timestamp().as_millis() as u64;
        let new = wall.max(self.ms).max(m);
        let c = if new == self.ms && new == m {
            self.counter.max(msg.counter()) + 1
        } else if new == self.ms {
            self.counter + 1
        } else if new == m {
            msg.counter() + 1
        } else {
            0
        };
        self.ms = new;
        self.counter = c;
    }
}

#[derive(Clone, Copy, Debug)]
struct Op {
    key: u64,
    ts: HLCTimestamp,
    del: bool,
}

#[derive(Clone)]
struct Replica {
    set: OrSWotSet<2>,
}
impl Replica {
    fn apply(&mut self, src: usize, op: Op) {
        if !self.set.will_apply(op.key, op.ts) {
            return;
        }
        if op.del {
            self.set.delete_with_source(src, op.key, op.ts);
        } else {
            self.set.insert_with_source(src, op.key, op.ts);
        }
    }
    fn live(&self, keys: u64) -> BTreeMap<u64, HLCTimestamp> {
        (0..keys)
            .filter_map(|k| self.set.get(&k).map(|ts| (k, *ts)))
            .collect()
    }
}

fn anti_entropy(reps: &mut [Replica], r: usize, q: usize) {
    let qset = reps[q].set.clone();
    let (changes, removals) = reps[r].set.diff(&qset);
    // production runs both halves concurrently; do removals then modified
    for (k, ts) in removals {
        reps[r].apply(1, Op { key: k, ts, del: true });
    }
    for (k, _ts) in changes {
        if let Some(ts) = qset.get(&k) {
            reps[r].apply(1, Op { key: k, ts: *ts, del: false });
        }
    }
}

fn run(seed: u64, purge: bool, n: usize, keys: u64, verbose: bool, skew_min: u64, nops: u64, nae: u64) -> Vec<BTreeMap<u64, HLCTimestamp>> {
    let mut rng = Rng(seed.wrapping_mul(0x9E3779B97F4A7C15) | 1);
    // skews in ms relative to real time, within +-10 min; max pairwise 20 min.
    let skews: Vec<i64> = (0..n).map(|_| (rng.below(skew_min * 60_000) as i64) - (skew_min as i64) * 30_000).collect();
    let max_skew = skew_min * 60_000u64;
    let max_delay = HOUR_MS - max_skew - 60_000;
    let nops = nops as usize; let _ = nops; // delay + skew < 1h
    let mut hlcs: Vec<Hlc> = (0..n).map(|i| Hlc { node: i as u8, ms: 0, counter: 0 }).collect();
    let mut reps: Vec<Replica> = (0..n).map(|_| Replica { set: OrSWotSet::default() }).collect();

    // event queue: (real_ms, seq, kind)
    #[derive(Clone, Debug)]
    enum Ev {
        Gen(usize),
        Deliver(usize, Op),
        Ae(usize, usize),
        Purge(usize),
    }
    let mut q: BTreeMap<(u64, u64), Ev> = BTreeMap::new();
    let mut seq = 0u64;
    let horizon = 12 * HOUR_MS;
    for _ in 0..nops {
        let t = rng.below(horizon);
        let node = rng.below(n as u64) as usize;
        q.insert((t, seq), Ev::Gen(node));
        seq += 1;
    }
    for _ in 0..nae {
        let t = rng.below(horizon + 2 * HOUR_MS);
        let a = rng.below(n as u64) as usize;
        let mut b = rng.below(n as u64) as usize;
        if a == b {
            b = (b + 1) % n;
        }
        q.insert((t, seq), Ev::Ae(a, b));
        seq += 1;
    }
    for _ in 0..40 {
        let t = rng.below(horizon + 2 * HOUR_MS);
        let a = rng.below(n as u64) as usize;
        q.insert((t, seq), Ev::Purge(a));
        seq += 1;
    }

    // the random choices of generation must not depend on `purge`, so use a second rng
    let mut rng2 = Rng(seed.wrapping_mul(0xD1B54A32D192ED03) | 1);
    let mut purged_log: Vec<Vec<(u64, HLCTimestamp)>> = vec![Vec::new(); n];

    while let Some((&(t, s), _)) = q.iter().next() {
        let ev = q.remove(&(t, s)).unwrap();
        for (r, log) in purged_log.iter().enumerate() {
            for (k, st) in log {
                for kk in 0..keys {
                    assert!(!reps[r].set.will_apply(kk, *st), "purged delete {k} {st} no longer rejected at {r}");
                    let older = HLCTimestamp::from_u64(st.as_u64() - (1 << 8));
                    if older.node() == st.node() { assert!(!reps[r].set.will_apply(kk, older)); }
                }
            }
        }
        match ev {
            Ev::Gen(node) => {
                let wall = (BASE_MS + t) as i64 + skews[node];
                let ts = hlcs[node].send(wall as u64);
                let key = rng2.below(keys);
                let del = rng2.below(2) == 0;
                let op = Op { key, ts, del };
                if verbose {
                    println!("t={t} gen at {node}: {op:?}");
                }
                reps[node].apply(0, op);
                for other in 0..n {
                    if other != node {
                        let d = rng2.below(max_delay);
                        // mostly fast, sometimes slow
                        let d = if rng2.below(3) == 0 { d } else { d % 2000 };
                        q.insert((t + d, seq), Ev::Deliver(other, op));
                        seq += 1;
                    }
                }
            },
            Ev::Deliver(node, op) => {
                let wall = (BASE_MS + t) as i64 + skews[node];
                hlcs[node].recv(wall as u64, op.ts);
                if verbose {
                    println!("t={t} deliver at {node}: {op:?}");
                }
                reps[node].apply(0, op);
            },
            Ev::Ae(a, b) => {
                if verbose {
                    println!("t={t} ae {a} <- {b}");
                }
                anti_entropy(&mut reps, a, b);
            },
            Ev::Purge(a) => {
                if purge {
                    let before = reps[a].live(keys);
                    let purged = reps[a].set.purge_old_deletes();
                    for (k, st) in purged.iter() { purged_log[a].push((*k, *st)); }
                    PURGED.fetch_add(purged.len(), std::sync::atomic::Ordering::Relaxed);
                    if verbose {
                        println!("t={t} purge at {a}: {purged:?}");
                    }
                    assert_eq!(before, reps[a].live(keys));
                }
            },
        }
    }

    // final rounds of anti entropy until quiescent
    for _ in 0..4 {
        for a in 0..n {
            for b in 0..n {
                if a != b {
                    anti_entropy(&mut reps, a, b);
                }
            }
        }
    }

    reps.iter().map(|r| r.live(keys)).collect()
}

#[test]
fn fuzz() {
    let mut bad = 0;
    for seed in 1..=20000u64 {
        let (n, keys, skew, nops, nae) = match seed % 4 { 0 => (3, 4, 20, 60, 40), 1 => (4, 3, 50, 80, 80), 2 => (2, 2, 58, 40, 60), _ => (5, 6, 5, 120, 120) };
        let a = run(seed, true, n, keys, false, skew, nops, nae);
        let b = run(seed, false, n, keys, false, skew, nops, nae);
        let ka: Vec<BTreeSet<u64>> = a.iter().map(|m| m.keys().copied().collect()).collect();
        let kb: Vec<BTreeSet<u64>> = b.iter().map(|m| m.keys().copied().collect()).collect();
        if ka != kb || ka.iter().any(|x| x != &ka[0]) {
            println!("seed {seed}: purge {ka:?} nopurge {kb:?}");
            bad += 1;
            if bad == 1 {
                run(seed, true, n, keys, true, skew, nops, nae);
            }
            if bad > 5 {
                break;
            }
        }
    }
    println!("purged total {}", PURGED.load(std::sync::atomic::Ordering::Relaxed));
    assert_eq!(bad, 0);
}
