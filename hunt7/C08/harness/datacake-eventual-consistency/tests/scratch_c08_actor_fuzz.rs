//! scratch (not a deliverable): actor level twin fuzz with storage faults
#![cfg(all(feature = "verif", feature = "test-utils"))]
use std::collections::{BTreeMap, HashMap};
use std::marker::PhantomData;
use std::sync::atomic::{AtomicI64, AtomicUsize, Ordering};
use std::sync::Arc;
use std::time::Duration;

use datacake_crdt::{HLCTimestamp, Key, OrSWotSet};
use datacake_eventual_consistency::verif::{
    Del,
    Diff,
    KeyspaceGroup,
    MultiDel,
    MultiSet,
    PurgeDeletes,
    Serialize,
    Set,
    NUM_SOURCES,
};
use datacake_eventual_consistency::{BulkMutationError, Document, DocumentMetadata, Storage};
use datacake_node::Clock;
use parking_lot::Mutex;

#[derive(Debug, thiserror::Error)]
#[error("injected failure")]
struct Injected;

type Rows = HashMap<Key, (HLCTimestamp, Option<Vec<u8>>)>;

#[derive(Default)]
struct FaultyStore {
    rows: Mutex<HashMap<String, Rows>>,
    /// number of items that succeed before the next call fails (-1 = no failure)
    fail_after: AtomicI64,
    purge_fail_after: AtomicI64,
}

impl FaultyStore {
    fn budget(&self) -> i64 {
        self.fail_after.swap(-1, Ordering::SeqCst)
    }
}

#[async_trait::async_trait]
impl Storage for FaultyStore {
    type Error = Injected;
    type DocsIter = std::vec::IntoIter<Document>;
    type MetadataIter = std::vec::IntoIter<(Key, HLCTimestamp, bool)>;

    async fn get_keyspace_list(&self) -> Result<Vec<String>, Self::Error> {
        Ok(self.rows.lock().keys().cloned().collect())
    }

    async fn iter_metadata(&self, keyspace: &str) -> Result<Self::MetadataIter, Self::Error> {
        Ok(self
            .rows
            .lock()
            .get(keyspace)
            .map(|r| r.iter().map(|(k, (ts, d))| (*k, *ts, d.is_none())).collect::<Vec<_>>())
            .unwrap_or_default()
            .into_iter())
    }

    async fn remove_tombstones(
        &self,
        keyspace: &str,
        keys: impl Iterator<Item = Key> + Send,
    ) -> Result<(), BulkMutationError<Self::Error>> {
        let budget = self.purge_fail_after.swap(-1, Ordering::SeqCst);
        let mut lock = self.rows.lock();
        let rows = lock.entry(keyspace.to_string()).or_default();
        let mut done = Vec::new();
        for key in keys {
            if budget >= 0 && done.len() as i64 >= budget {
                return Err(BulkMutationError::new(Injected, done));
            }
            if let Some((_, data)) = rows.get(&key) {
                assert!(data.is_none(), "asked to remove a live row {key}");
            }
            rows.remove(&key);
            done.push(key);
        }
        Ok(())
    }

    async fn put(&self, keyspace: &str, document: Document) -> Result<(), Self::Error> {
        self.multi_put(keyspace, [document].into_iter())
            .await
            .map_err(|e| e.into_inner())
    }

    async fn multi_put(
        &self,
        keyspace: &str,
        documents: impl Iterator<Item = Document> + Send,
    ) -> Result<(), BulkMutationError<Self::Error>> {
        let budget = self.budget();
        let mut lock = self.rows.lock();
        let rows = lock.entry(keyspace.to_string()).or_default();
        let mut done = Vec::new();
        for doc in documents {
            if budget >= 0 && done.len() as i64 >= budget {
                return Err(BulkMutationError::new(Injected, done));
            }
            rows.insert(doc.id(), (doc.last_updated(), Some(doc.data().to_vec())));
            done.push(doc.id());
        }
        Ok(())
    }

    async fn mark_as_tombstone(
        &self,
        keyspace: &str,
        doc_id: Key,
        timestamp: HLCTimestamp,
    ) -> Result<(), Self::Error> {
        self.mark_many_as_tombstone(keyspace, [DocumentMetadata::new(doc_id, timestamp)].into_iter())
            .await
            .map_err(|e| e.into_inner())
    }

    async fn mark_many_as_tombstone(
        &self,
        keyspace: &str,
        documents: impl Iterator<Item = DocumentMetadata> + Send,
    ) -> Result<(), BulkMutationError<Self::Error>> {
        let budget = self.budget();
        let mut lock = self.rows.lock();
        let rows = lock.entry(keyspace.to_string()).or_default();
        let mut done = Vec::new();
        for doc in documents {
            if budget >= 0 && done.len() as i64 >= budget {
                return Err(BulkMutationError::new(Injected, done));
            }
            rows.insert(doc.id, (doc.last_updated, None));
            done.push(doc.id);
        }
        Ok(())
    }

    async fn get(&self, keyspace: &str, doc_id: Key) -> Result<Option<Document>, Self::Error> {
        Ok(self.rows.lock().get(keyspace).and_then(|r| {
            r.get(&doc_id)
                .and_then(|(ts, d)| d.clone().map(|d| Document::new(doc_id, *ts, d)))
        }))
    }

    async fn multi_get(
        &self,
        keyspace: &str,
        doc_ids: impl Iterator<Item = Key> + Send,
    ) -> Result<Self::DocsIter, Self::Error> {
        let lock = self.rows.lock();
        let mut out = Vec::new();
        if let Some(r) = lock.get(keyspace) {
            for id in doc_ids {
                if let Some((ts, Some(d))) = r.get(&id) {
                    out.push(Document::new(id, *ts, d.clone()));
                }
            }
        }
        Ok(out.into_iter())
    }
}

struct Rng(u64);
impl Rng {
    fn next(&mut self) -> u64 {
        self.0 ^= self.0 << 13;
        self.0 ^= self.0 >> 7;
        self.0 ^= self.0 << 17;
        self.0
    }
    fn below(&mut self, n: u64) -> u64 {
        self.next() % n
    }
}

const BASE_MS: u64 = 10 * 24 * 3600 * 1000;
const HOUR_MS: u64 = 3_600_000;
const KS: &str = "ks";
static PURGED: AtomicUsize = AtomicUsize::new(0);
static FAILED: AtomicUsize = AtomicUsize::new(0);

struct Hlc {
    node: u8,
    ms: u64,
    counter: u16,
}
impl Hlc {
    fn send(&mut self, wall_ms: u64) -> HLCTimestamp {
        let wall = wall_ms / 4 * 4;
        if wall > self.ms {
            self.ms = wall;
            self.counter = 0;
        } else {
            self.counter += 1;
        }
        HLCTimestamp::new(Duration::from_millis(self.ms), self.counter, self.node)
    }
    fn recv(&mut self, wall_ms: u64, msg: HLCTimestamp) {
        let wall = wall_ms / 4 * 4;
        let m = msg.datacake_timestamp().as_millis() as u64;
        let new = wall.max(self.ms).max(m);
        let c = if new == self.ms && new == m {
            self.counter.max(msg.counter()) + 1
        } else if new == self.ms {
            self.counter + 1
        } else if new == m {
            msg.counter() + 1
        } else {
            0
        };
        self.ms = new;
        self.counter = c;
    }
}

#[derive(Clone, Debug)]
struct Op {
    /// (key, is_delete) all with the same stamp (put_many / del_many style) - one kind per op
    keys: Vec<u64>,
    ts: HLCTimestamp,
    del: bool,
}

struct Replica {
    store: Arc<FaultyStore>,
    group: KeyspaceGroup<FaultyStore>,
}

impl Replica {
    async fn state(&self) -> OrSWotSet<NUM_SOURCES> {
        let ks = self.group.get_or_create_keyspace(KS).await;
        let bytes = ks.send(Serialize).await.unwrap();
        OrSWotSet::from_bytes(&bytes).unwrap()
    }

    /// returns true when the whole op went through
    async fn apply(&self, src: usize, op: &Op, fail_after: i64) -> bool {
        let ks = self.group.get_or_create_keyspace(KS).await;
        self.store.fail_after.store(fail_after, Ordering::SeqCst);
        let ok = if op.del {
            if op.keys.len() == 1 {
                ks.send(Del {
                    source: src,
                    doc: DocumentMetadata::new(op.keys[0], op.ts),
                    _marker: PhantomData::<FaultyStore>,
                })
                .await
                .is_ok()
            } else {
                ks.send(MultiDel {
                    source: src,
                    docs: op.keys.iter().map(|k| DocumentMetadata::new(*k, op.ts)).collect(),
                    _marker: PhantomData::<FaultyStore>,
                })
                .await
                .is_ok()
            }
        } else if op.keys.len() == 1 {
            ks.send(Set {
                source: src,
                doc: Document::new(op.keys[0], op.ts, b"x".to_vec()),
                ctx: None,
                _marker: PhantomData::<FaultyStore>,
            })
            .await
            .is_ok()
        } else {
            ks.send(MultiSet {
                source: src,
                docs: op.keys.iter().map(|k| Document::new(*k, op.ts, b"x".to_vec())).collect(),
                ctx: None,
                _marker: PhantomData::<FaultyStore>,
            })
            .await
            .is_ok()
        };
        self.store.fail_after.store(-1, Ordering::SeqCst);
        ok
    }

    async fn check_storage_matches_state(&self, keys: u64) {
        let state = self.state().await;
        let empty = OrSWotSet::<NUM_SOURCES>::default();
        let (live, dead) = empty.diff(&state);
        let rows = self.store.rows.lock().get(KS).cloned().unwrap_or_default();
        let live: BTreeMap<_, _> = live.into_iter().collect();
        let dead: BTreeMap<_, _> = dead.into_iter().collect();
        for k in 0..keys {
            match rows.get(&k) {
                Some((ts, Some(_))) => assert_eq!(live.get(&k), Some(ts), "key {k} live in storage"),
                Some((ts, None)) => assert_eq!(dead.get(&k), Some(ts), "key {k} tombstone in storage"),
                None => assert!(!live.contains_key(&k) && !dead.contains_key(&k), "key {k} missing in storage"),
            }
        }
    }

    async fn live(&self, keys: u64) -> BTreeMap<u64, HLCTimestamp> {
        let state = self.state().await;
        (0..keys).filter_map(|k| state.get(&k).map(|ts| (k, *ts))).collect()
    }
}

async fn anti_entropy(reps: &[Replica], r: usize, q: usize) {
    let qset = reps[q].state().await;
    let ks = reps[r].group.get_or_create_keyspace(KS).await;
    let (changes, removals) = ks.send(Diff(qset.clone())).await;
    if !removals.is_empty() {
        // one message, like handle_removals
        let mut by_ts: BTreeMap<HLCTimestamp, Vec<u64>> = BTreeMap::new();
        for (k, ts) in &removals {
            by_ts.entry(*ts).or_default().push(*k);
        }
        let docs = removals.iter().map(|(k, ts)| DocumentMetadata::new(*k, *ts)).collect();
        let _ = ks
            .send(MultiDel { source: 1, docs, _marker: PhantomData::<FaultyStore> })
            .await;
    }
    if !changes.is_empty() {
        let ids: Vec<u64> = changes.iter().map(|c| c.0).collect();
        let docs: Vec<Document> = reps[q].store.multi_get(KS, ids.into_iter()).await.unwrap().collect();
        let _ = ks
            .send(MultiSet { source: 1, docs: docs.into(), ctx: None, _marker: PhantomData::<FaultyStore> })
            .await;
    }
}

async fn run(seed: u64, purge: bool, n: usize, keys: u64, verbose: bool) -> Vec<BTreeMap<u64, HLCTimestamp>> {
    let mut rng = Rng(seed.wrapping_mul(0x9E3779B97F4A7C15) | 1);
    let skews: Vec<i64> = (0..n).map(|_| (rng.below(20 * 60_000) as i64) - 10 * 60_000).collect();
    let max_skew = 20 * 60_000u64;
    let max_delay = HOUR_MS - max_skew - 5 * 60_000;
    let mut hlcs: Vec<Hlc> = (0..n).map(|i| Hlc { node: i as u8, ms: 0, counter: 0 }).collect();
    let mut reps = Vec::new();
    for i in 0..n {
        let store = Arc::new(FaultyStore::default());
        store.fail_after.store(-1, Ordering::SeqCst);
        store.purge_fail_after.store(-1, Ordering::SeqCst);
        let group = KeyspaceGroup::new(store.clone(), Clock::new(i as u8)).await;
        reps.push(Replica { store, group });
    }

    #[derive(Clone, Debug)]
    enum Ev {
        Gen(usize),
        Deliver(usize, usize, Op, bool),
        Ae(usize, usize),
        Purge(usize),
    }
    let mut q: BTreeMap<(u64, u64), Ev> = BTreeMap::new();
    let mut seq = 0u64;
    let horizon = 10 * HOUR_MS;
    for _ in 0..40 {
        let t = rng.below(horizon);
        let node = rng.below(n as u64) as usize;
        q.insert((t, seq), Ev::Gen(node));
        seq += 1;
    }
    for _ in 0..30 {
        let t = rng.below(horizon + 2 * HOUR_MS);
        let a = rng.below(n as u64) as usize;
        let mut b = rng.below(n as u64) as usize;
        if a == b {
            b = (b + 1) % n;
        }
        q.insert((t, seq), Ev::Ae(a, b));
        seq += 1;
    }
    for _ in 0..30 {
        let t = rng.below(horizon + 2 * HOUR_MS);
        let a = rng.below(n as u64) as usize;
        q.insert((t, seq), Ev::Purge(a));
        seq += 1;
    }

    let mut rng2 = Rng(seed.wrapping_mul(0xD1B54A32D192ED03) | 1);
    let mut rng3 = Rng(seed.wrapping_mul(0xA24BAED4963EE407) | 1);

    while let Some((&(t, s), _)) = q.iter().next() {
        let ev = q.remove(&(t, s)).unwrap();
        match ev {
            Ev::Gen(node) => {
                let wall = (BASE_MS + t) as i64 + skews[node];
                let ts = hlcs[node].send(wall as u64);
                let nkeys = 1 + rng2.below(3);
                let mut ks: Vec<u64> = (0..nkeys).map(|_| rng2.below(keys)).collect();
                ks.dedup();
                let del = rng2.below(2) == 0;
                let op = Op { keys: ks, ts, del };
                // the origin applies without failures (a failed local write is not distributed)
                if verbose { println!("t={t} gen at {node} (skew {}): {:?} {} ts={}", skews[node], op.keys, if op.del {"DEL"} else {"PUT"}, op.ts); }
                assert!(reps[node].apply(0, &op, -1).await);
                for other in 0..n {
                    if other != node {
                        let d = rng2.below(max_delay / 2);
                        let d = if rng2.below(3) == 0 { d } else { d % 2000 };
                        let fail = rng2.below(4) == 0;
                        q.insert((t + d, seq), Ev::Deliver(other, 0, op.clone(), fail));
                        seq += 1;
                    }
                }
            },
            Ev::Deliver(node, src, op, fail) => {
                let wall = (BASE_MS + t) as i64 + skews[node];
                hlcs[node].recv(wall as u64, op.ts);
                let budget = if fail { rng2.below(op.keys.len() as u64 + 1) as i64 } else { -1 };
                let ok = reps[node].apply(src, &op, budget).await;
                if verbose { println!("t={t} deliver at {node} src={src}: {:?} {} ts={} budget={budget} ok={ok} live={:?}", op.keys, if op.del {"DEL"} else {"PUT"}, op.ts, reps[node].live(keys).await.keys().collect::<Vec<_>>()); }
                if !ok {
                    FAILED.fetch_add(1, Ordering::Relaxed);
                    // repaired a little later (still timely), through the repair source
                    let d = rng2.below(max_delay / 2);
                    q.insert((t + d, seq), Ev::Deliver(node, 1, op, false));
                    seq += 1;
                }
            },
            Ev::Ae(a, b) => {
                anti_entropy(&reps, a, b).await;
                if verbose { println!("t={t} ae {a} <- {b} live={:?}", reps[a].live(keys).await.keys().collect::<Vec<_>>()); }
            },
            Ev::Purge(a) => {
                if purge {
                    let before = reps[a].live(keys).await;
                    let ndead_before = reps[a].store.rows.lock().get(KS).map(|r| r.values().filter(|v| v.1.is_none()).count()).unwrap_or(0);
                    let ks = reps[a].group.get_or_create_keyspace(KS).await;
                    let budget = if rng3.below(3) == 0 { rng3.below(3) as i64 } else { -1 };
                    reps[a].store.purge_fail_after.store(budget, Ordering::SeqCst);
                    let _ = ks.send(PurgeDeletes(PhantomData::<FaultyStore>)).await;
                    reps[a].store.purge_fail_after.store(-1, Ordering::SeqCst);
                    let ndead_after = reps[a].store.rows.lock().get(KS).map(|r| r.values().filter(|v| v.1.is_none()).count()).unwrap_or(0);
                    PURGED.fetch_add(ndead_before - ndead_after, Ordering::Relaxed);
                    if verbose { println!("t={t} purge at {a} budget={budget} removed {}", ndead_before - ndead_after); }
                    assert_eq!(before, reps[a].live(keys).await);
                    reps[a].check_storage_matches_state(keys).await;
                }
            },
        }
    }

    for _ in 0..4 {
        for a in 0..n {
            for b in 0..n {
                if a != b {
                    anti_entropy(&reps, a, b).await;
                }
            }
        }
    }
    let mut out = Vec::new();
    for r in &reps {
        r.check_storage_matches_state(keys).await;
        out.push(r.live(keys).await);
    }
    out
}

#[tokio::test(flavor = "multi_thread", worker_threads = 2)]
async fn actor_fuzz() {
    let mut bad = 0;
    for seed in 1..=3000u64 {
        let a = run(seed, true, 3, 5, false).await;
        let b = run(seed, false, 3, 5, false).await;
        let ka: Vec<Vec<u64>> = a.iter().map(|m| m.keys().copied().collect()).collect();
        let kb: Vec<Vec<u64>> = b.iter().map(|m| m.keys().copied().collect()).collect();
        if ka != kb || ka.iter().any(|x| x != &ka[0]) {
            println!("seed {seed}: purge {ka:?} nopurge {kb:?}");
            bad += 1;
            if bad > 50 {
                break;
            }
        }
    }
    println!("purged {} failed {}", PURGED.load(Ordering::Relaxed), FAILED.load(Ordering::Relaxed));
    assert_eq!(bad, 0);
}
