//! C07 - "A restarted node rebuilds exactly what storage holds; acked writes survive".
//!
//! A node that is started again on the same storage rebuilds its replicated set from the
//! storage, but NOT its clock: `Clock::new(node_id)` starts from the wall clock again, although
//! the storage holds timestamps *of this very node* that are ahead of the wall clock (the hybrid
//! logical clock of a node runs ahead of its wall clock as soon as it has heard from a peer
//! whose clock is ahead; up to `MAX_CLOCK_DRIFT` = 4100 s is accepted by design).
//!
//! The restarted node therefore re-uses a part of the timestamp range it has already used,
//! which the CRDT documents as "incorrect" ("It is your responsibility to ensure that timestamps
//! from the same node are monotonic"). Two consequences are shown here, on the unmodified tree
//! and through the public API only:
//!
//! 1. `acked_mutations_are_lost_over_restarts`: `put`/`del` calls of the restarted node return
//!    `Ok(())` and are never stored; they are still missing after the *next* restart, i.e. a
//!    mutation whose call had returned before a stop is not visible after the restart.
//! 2. `restarted_node_never_converges_with_its_peer`: if the lead of the logical clock was larger
//!    than the forgiveness period (3600 s < lead < 4100 s), what the restarted node writes falls
//!    behind the peers' safe cut-off for this node: the peer refuses it for good, in the direct
//!    replication and in every repair round. The two nodes never converge.
//!    The same history with a lead of 0 s or 3000 s converges (the two control tests pass).
//!
//! Every incarnation of a node runs in a tokio runtime of its own which is shut down to stop the
//! node, so that nothing of the old incarnation survives (a process exit).
use std::net::SocketAddr;
use std::path::Path;
use std::time::Duration;

use anyhow::Result;
use datacake_crdt::HLCTimestamp;
use datacake_eventual_consistency::{
    EventuallyConsistentStore,
    EventuallyConsistentStoreExtension,
};
use datacake_node::{
    ConnectionConfig,
    Consistency,
    DCAwareSelector,
    DatacakeNode,
    DatacakeNodeBuilder,
};
use datacake_sqlite::SqliteStorage;
use tokio::runtime::{Builder, Runtime};

const KS: &str = "ks";

fn runtime() -> Runtime {
    Builder::new_multi_thread()
        .worker_threads(2)
        .enable_all()
        .build()
        .unwrap()
}

fn db_path() -> std::path::PathBuf {
    std::env::temp_dir().join(format!("c07-{}.db", uuid::Uuid::new_v4()))
}

async fn start(
    id: u8,
    addr: SocketAddr,
    seeds: Vec<String>,
    store: SqliteStorage,
) -> Result<(DatacakeNode, EventuallyConsistentStore<SqliteStorage>)> {
    let node = DatacakeNodeBuilder::<DCAwareSelector>::new(
        id,
        ConnectionConfig::new(addr, addr, seeds),
    )
    .connect()
    .await?;
    let store = node
        .add_extension(EventuallyConsistentStoreExtension::new(store))
        .await?;
    Ok((node, store))
}

/// What every RPC handler of the node does with the timestamp of an incoming message
/// (`self.group.clock().register_ts(payload.timestamp)`): here the message comes from a
/// peer whose wall clock is `lead` ahead of ours.
async fn hear_from_a_peer_with_a_fast_clock(node: &DatacakeNode, lead: Duration) {
    let now = node.clock().get_time().await;
    let remote = HLCTimestamp::new(now.datacake_timestamp() + lead, 0, 200);
    node.clock().register_ts(remote).await;
}

/// Runs one incarnation of a single node on the storage at `path`, then kills it.
fn incarnation<T>(
    path: &Path,
    body: impl for<'a> FnOnce(
        &'a DatacakeNode,
        &'a EventuallyConsistentStore<SqliteStorage>,
    ) -> std::pin::Pin<Box<dyn std::future::Future<Output = Result<T>> + 'a>>,
) -> Result<T> {
    let rt = runtime();
    let addr = test_helper::get_unused_addr();
    let out = rt.block_on(async {
        let (node, store) =
            start(1, addr, Vec::new(), SqliteStorage::open(path).await?).await?;
        let out = body(&node, &store).await?;
        drop(store);
        drop(node);
        Ok::<_, anyhow::Error>(out)
    });
    rt.shutdown_timeout(Duration::from_secs(2));
    out
}

#[test]
fn acked_mutations_are_lost_over_restarts() -> Result<()> {
    let path = db_path();

    // First incarnation. Its logical clock leads the wall clock by 30s, as it does in any
    // cluster in which one peer has a clock that is 30s fast.
    incarnation(&path, |node, store| {
        Box::pin(async move {
            hear_from_a_peer_with_a_fast_clock(node, Duration::from_secs(30)).await;
            let handle = store.handle();
            handle.put(KS, 1, b"v1".to_vec(), Consistency::All).await?;
            handle.put(KS, 2, b"to be deleted".to_vec(), Consistency::All).await?;
            Ok(())
        })
    })?;

    // Second incarnation, on the same storage: an update and a delete, both acknowledged.
    let (seen_1, seen_2) = incarnation(&path, |_node, store| {
        Box::pin(async move {
            let handle = store.handle();
            handle
                .put(KS, 1, b"v2".to_vec(), Consistency::All)
                .await
                .expect("the update is acknowledged");
            handle
                .del(KS, 2, Consistency::All)
                .await
                .expect("the delete is acknowledged");
            let seen_1 = handle.get(KS, 1).await?.map(|d| d.data().to_vec());
            let seen_2 = handle.get(KS, 2).await?.map(|d| d.data().to_vec());
            Ok((seen_1, seen_2))
        })
    })?;
    println!(
        "second incarnation, after put(1, v2) and del(2) returned Ok: doc 1 = {:?}, doc 2 = {:?}",
        seen_1.as_deref().map(String::from_utf8_lossy),
        seen_2.as_deref().map(String::from_utf8_lossy),
    );

    // Third incarnation: both calls had returned before the stop.
    let (doc_1, doc_2, metadata) = incarnation(&path, |_node, store| {
        Box::pin(async move {
            let handle = store.handle();
            let doc_1 = handle.get(KS, 1).await?.map(|d| d.data().to_vec());
            let doc_2 = handle.get(KS, 2).await?.map(|d| d.data().to_vec());
            let mut metadata = handle
                .iter_metadata(KS)
                .await?
                .map(|(id, ts, tombstone)| (id, ts.to_string(), tombstone))
                .collect::<Vec<_>>();
            metadata.sort();
            Ok((doc_1, doc_2, metadata))
        })
    })?;
    println!("third incarnation: storage holds {metadata:?}");

    assert_eq!(
        doc_1.as_deref(),
        Some(b"v2".as_ref()),
        "put(1, v2) had returned Ok before the stop, the restarted node must show it",
    );
    assert_eq!(
        doc_2, None,
        "del(2) had returned Ok before the stop, the restarted node must not show doc 2",
    );
    Ok(())
}

/// `lead`: by how much the logical clock of node 1 led its wall clock before it was restarted.
fn restart_in_a_cluster(lead: Duration) -> Result<()> {
    let path = db_path();
    let addr_1 = test_helper::get_unused_addr();
    let addr_2 = test_helper::get_unused_addr();

    // Node 1, persistent. It writes doc 1 while it is alone.
    let rt_1 = runtime();
    let (node_1, store_1) = rt_1.block_on(async {
        start(1, addr_1, vec![addr_2.to_string()], SqliteStorage::open(&path).await?).await
    })?;
    let handle_1 = store_1.handle();
    rt_1.block_on(async {
        hear_from_a_peer_with_a_fast_clock(&node_1, lead).await;
        handle_1.put(KS, 1, b"a".to_vec(), Consistency::None).await?;
        Ok::<_, anyhow::Error>(())
    })?;

    // Node 2 joins and gets doc 1 by read repair ...
    let rt_2 = runtime();
    let (node_2, store_2) = rt_2.block_on(async {
        start(
            2,
            addr_2,
            vec![addr_1.to_string()],
            SqliteStorage::open_in_memory().await?,
        )
        .await
    })?;
    let handle_2 = store_2.handle();
    rt_2.block_on(async {
        node_2.wait_for_nodes(&[1], Duration::from_secs(30)).await?;
        for _ in 0..150 {
            if handle_2.get(KS, 1).await?.is_some() {
                break;
            }
            tokio::time::sleep(Duration::from_millis(200)).await;
        }
        assert!(handle_2.get(KS, 1).await?.is_some(), "node 2 repairs doc 1");
        Ok::<_, anyhow::Error>(())
    })?;
    // ... and doc 2 by direct replication.
    rt_1.block_on(async {
        node_1.wait_for_nodes(&[2], Duration::from_secs(30)).await?;
        handle_1.put(KS, 2, b"b".to_vec(), Consistency::All).await?;
        Ok::<_, anyhow::Error>(())
    })?;
    rt_2.block_on(async {
        assert!(handle_2.get(KS, 2).await?.is_some(), "node 2 was handed doc 2");
        Ok::<_, anyhow::Error>(())
    })?;

    // Node 1 is stopped between two requests and started again on the same storage.
    drop(handle_1);
    drop(store_1);
    drop(node_1);
    rt_1.shutdown_timeout(Duration::from_secs(2));
    std::thread::sleep(Duration::from_millis(500));

    let rt_1 = runtime();
    let (node_1, store_1) = rt_1.block_on(async {
        start(1, addr_1, vec![addr_2.to_string()], SqliteStorage::open(&path).await?).await
    })?;
    let handle_1 = store_1.handle();
    rt_1.block_on(async {
        // The first write of the restarted node.
        handle_1.put(KS, 3, b"c".to_vec(), Consistency::None).await?;
        node_1.wait_for_nodes(&[2], Duration::from_secs(30)).await?;
        // Control: a later write, made once the node has talked to its peer again.
        tokio::time::sleep(Duration::from_secs(3)).await;
        handle_1.put(KS, 4, b"d".to_vec(), Consistency::All).await?;
        Ok::<_, anyhow::Error>(())
    })?;

    // Fifteen repair rounds (the repair interval of the test configuration is 1s).
    let (has_3, has_4) = rt_2.block_on(async {
        for _ in 0..30 {
            if handle_2.get(KS, 3).await?.is_some() {
                break;
            }
            tokio::time::sleep(Duration::from_millis(500)).await;
        }
        Ok::<_, anyhow::Error>((
            handle_2.get(KS, 3).await?.is_some(),
            handle_2.get(KS, 4).await?.is_some(),
        ))
    })?;
    let (ts_2, ts_3) = rt_1.block_on(async {
        Ok::<_, anyhow::Error>((
            handle_1.get(KS, 2).await?.map(|d| d.last_updated().to_string()),
            handle_1.get(KS, 3).await?.map(|d| d.last_updated().to_string()),
        ))
    })?;
    println!(
        "lead {lead:?}: node 1 holds doc 2 @ {ts_2:?} (before the restart) and doc 3 @ {ts_3:?} \
         (after the restart); node 2 holds doc 3: {has_3}, doc 4: {has_4}"
    );

    assert!(ts_3.is_some(), "node 1 holds doc 3");
    assert!(has_4, "node 2 holds doc 4, the cluster works");
    assert!(
        has_3,
        "node 2 must receive doc 3 of the restarted node 1, the nodes must converge",
    );
    Ok(())
}

#[test]
fn restarted_node_never_converges_with_its_peer() -> Result<()> {
    restart_in_a_cluster(Duration::from_secs(4_000))
}

#[test]
fn control_restart_without_a_lead_converges() -> Result<()> {
    restart_in_a_cluster(Duration::from_secs(0))
}

#[test]
fn control_restart_with_a_lead_within_the_forgiveness_period_converges() -> Result<()> {
    restart_in_a_cluster(Duration::from_secs(3_000))
}
