//! C13: a message is served exactly when its service is currently registered.
//!
//! `Server::shutdown` only aborts the accept loop. Every connection that was accepted
//! before runs in its own detached task which owns a clone of the `ServerState` of the
//! server that accepted it, and keeps dispatching out of that registry for as long as the
//! client keeps the connection open (the `Channel` of datacake-rpc pools its HTTP/2
//! connection and keeps it alive while idle, i.e. for ever).
//!
//! So after the server of an address is shut down and started again (a restart in the
//! middle of a history), a client that was connected before talks to the registry of the
//! dead server: what is registered on the running server is refused as unknown and what
//! was never registered on it is dispatched.
use std::net::SocketAddr;
use std::sync::atomic::{AtomicUsize, Ordering};
use std::sync::Arc;
use std::time::Duration;

use datacake_rpc::{
    Channel,
    ErrorCode,
    Handler,
    Request,
    RpcClient,
    RpcService,
    Server,
    ServiceRegistry,
    Status,
};
use rkyv::{Archive, Deserialize, Serialize};

#[repr(C)]
#[derive(Serialize, Deserialize, Archive, Debug)]
#[archive(check_bytes)]
#[archive_attr(derive(Debug))]
pub struct Ping {
    value: u64,
}

/// Two services handling the same message type, each counts its dispatches.
pub struct Alpha(Arc<AtomicUsize>);
pub struct Beta(Arc<AtomicUsize>);

impl RpcService for Alpha {
    fn service_name() -> &'static str {
        "alpha"
    }
    fn register_handlers(registry: &mut ServiceRegistry<Self>) {
        registry.add_handler::<Ping>();
    }
}

impl RpcService for Beta {
    fn service_name() -> &'static str {
        "beta"
    }
    fn register_handlers(registry: &mut ServiceRegistry<Self>) {
        registry.add_handler::<Ping>();
    }
}

#[datacake_rpc::async_trait]
impl Handler<Ping> for Alpha {
    type Reply = u64;
    async fn on_message(&self, _msg: Request<Ping>) -> Result<Self::Reply, Status> {
        self.0.fetch_add(1, Ordering::SeqCst);
        Ok(1)
    }
}

#[datacake_rpc::async_trait]
impl Handler<Ping> for Beta {
    type Reply = u64;
    async fn on_message(&self, _msg: Request<Ping>) -> Result<Self::Reply, Status> {
        self.0.fetch_add(1, Ordering::SeqCst);
        Ok(2)
    }
}

async fn ask<S>(channel: &Channel) -> Result<u64, Status>
where
    S: RpcService + Handler<Ping, Reply = u64>,
{
    let client = RpcClient::<S>::new(channel.clone());
    let reply = client.send(&Ping { value: 0 }).await?;
    Ok(reply.deserialize_view().expect("reply"))
}

/// The listener of the old server is closed by the abort a moment after `shutdown`.
async fn listen_again(addr: SocketAddr) -> Server {
    for _ in 0..100 {
        match Server::listen(addr).await {
            Ok(server) => return server,
            Err(_) => tokio::time::sleep(Duration::from_millis(50)).await,
        }
    }
    panic!("the address of the shut down server never became free");
}

fn refused_as_unknown(res: &Result<u64, Status>) -> bool {
    matches!(res, Err(status) if status.code == ErrorCode::ServiceUnavailable
        && status.message.starts_with("Unknown service"))
}

/// History on the running (second) server of the address: add(beta).
/// Expected: beta is dispatched, alpha is refused as unknown.
#[tokio::test(flavor = "multi_thread", worker_threads = 2)]
async fn restarted_server_serves_exactly_what_is_registered_on_it() {
    let addr = test_helper::get_unused_addr();
    let alpha_calls = Arc::new(AtomicUsize::new(0));
    let beta_calls = Arc::new(AtomicUsize::new(0));

    // First life of the server: alpha only.
    let first = Server::listen(addr).await.unwrap();
    first.add_service(Alpha(alpha_calls.clone()));

    let channel = Channel::connect(addr);
    assert_eq!(ask::<Alpha>(&channel).await, Ok(1));
    assert!(refused_as_unknown(&ask::<Beta>(&channel).await));

    // Restart: the first server is shut down, a new one listens on the address.
    first.shutdown();
    let second = listen_again(addr).await;
    second.add_service(Beta(beta_calls.clone()));
    alpha_calls.store(0, Ordering::SeqCst);

    // A client that connects now sees the registry of the running server ...
    let fresh = Channel::connect(addr);
    assert_eq!(ask::<Beta>(&fresh).await, Ok(2));
    assert!(refused_as_unknown(&ask::<Alpha>(&fresh).await));

    // ... and so must the client that was connected all along.
    let beta = ask::<Beta>(&channel).await;
    let alpha = ask::<Alpha>(&channel).await;
    let zombie_dispatches = alpha_calls.load(Ordering::SeqCst);

    assert!(
        !refused_as_unknown(&beta),
        "beta was added to the running server and not removed since, yet the request is \
         refused as unknown: {beta:?}"
    );
    assert!(
        alpha.is_err() && zombie_dispatches == 0,
        "alpha was never added to the running server, yet the request was dispatched \
         ({zombie_dispatches} dispatches to the handler of the shut down server): {alpha:?}"
    );

    second.shutdown();
}

/// The same cause without the second server: once `shutdown` has been called nothing
/// is registered on any running server, yet requests are still dispatched.
#[tokio::test(flavor = "multi_thread", worker_threads = 2)]
async fn shut_down_server_dispatches_nothing() {
    let addr = test_helper::get_unused_addr();
    let alpha_calls = Arc::new(AtomicUsize::new(0));

    let server = Server::listen(addr).await.unwrap();
    server.add_service(Alpha(alpha_calls.clone()));

    let channel = Channel::connect(addr);
    assert_eq!(ask::<Alpha>(&channel).await, Ok(1));

    server.shutdown();
    tokio::time::sleep(Duration::from_millis(500)).await;
    alpha_calls.store(0, Ordering::SeqCst);

    let res = ask::<Alpha>(&channel).await;
    assert!(
        res.is_err() && alpha_calls.load(Ordering::SeqCst) == 0,
        "the server was shut down 500ms ago, the request was still dispatched: {res:?}"
    );
}
