//! C13: a message is served exactly when its service is currently registered; removing
//! one service never disables handlers of another.
//!
//! The registry identifies a service by `RpcService::service_name()`, whose default is
//! `std::any::type_name::<Self>()`. `type_name` is not injective: every closure of one
//! function is printed as `path::to::function::{{closure}}` (likewise items declared in
//! two blocks of one function). Two different service types that rely on the default
//! name, as the documentation invites ("By default this uses the type name of the
//! service"), then share every registry key:
//!
//!  * a service that was never added is dispatched (to the other one's handler),
//!  * adding the second silently replaces the handlers of the first,
//!  * removing one disables the other.
use datacake_rpc::{
    Channel,
    ErrorCode,
    Handler,
    Request,
    RpcClient,
    RpcService,
    Server,
    ServiceRegistry,
    Status,
};
use rkyv::{Archive, Deserialize, Serialize};

#[repr(C)]
#[derive(Serialize, Deserialize, Archive, Debug)]
#[archive(check_bytes)]
#[archive_attr(derive(Debug))]
pub struct Payload {
    value: u64,
}

/// A service answering with whatever its callback computes. No name is given,
/// the default one is used.
pub struct FnService<F>(F);

impl<F> RpcService for FnService<F>
where
    F: Fn(u64) -> u64 + Send + Sync + 'static,
{
    fn register_handlers(registry: &mut ServiceRegistry<Self>) {
        registry.add_handler::<Payload>();
    }
}

#[datacake_rpc::async_trait]
impl<F> Handler<Payload> for FnService<F>
where
    F: Fn(u64) -> u64 + Send + Sync + 'static,
{
    type Reply = u64;

    async fn on_message(&self, msg: Request<Payload>) -> Result<Self::Reply, Status> {
        Ok((self.0)(msg.value))
    }
}

fn client_of<F>(_svc: &FnService<F>, channel: &Channel) -> RpcClient<FnService<F>>
where
    F: Fn(u64) -> u64 + Send + Sync + 'static,
{
    RpcClient::new(channel.clone())
}

fn name_of<F>(_svc: &FnService<F>) -> &'static str
where
    F: Fn(u64) -> u64 + Send + Sync + 'static,
{
    <FnService<F> as RpcService>::service_name()
}

fn same_type<A: 'static, B: 'static>(_a: &A, _b: &B) -> bool {
    std::any::TypeId::of::<A>() == std::any::TypeId::of::<B>()
}

fn refused_as_unknown(res: &Result<u64, Status>) -> bool {
    matches!(res, Err(status) if status.code == ErrorCode::ServiceUnavailable
        && status.message.starts_with("Unknown service"))
}

#[tokio::test]
async fn two_services_with_default_names_do_not_share_handlers() {
    let addr = test_helper::get_unused_addr();
    let server = Server::listen(addr).await.unwrap();
    let channel = Channel::connect(addr);

    let add5 = FnService(|v: u64| v + 5);
    let sub5 = FnService(|v: u64| v - 5);
    assert!(!same_type(&add5, &sub5), "two services, two types");
    println!("default name of add5: {}", name_of(&add5));
    println!("default name of sub5: {}", name_of(&sub5));

    let add_client = client_of(&add5, &channel);
    let sub_client = client_of(&sub5, &channel);
    let add_name = name_of(&add5);
    let msg = Payload { value: 10 };

    let ask_add = || async {
        add_client
            .send(&msg)
            .await
            .map(|v| v.deserialize_view().unwrap())
    };
    let ask_sub = || async {
        sub_client
            .send(&msg)
            .await
            .map(|v| v.deserialize_view().unwrap())
    };

    let mut violations = Vec::new();

    // History: add(add5).
    server.add_service(add5);
    assert_eq!(ask_add().await, Ok(15));
    let res = ask_sub().await;
    if !refused_as_unknown(&res) {
        violations.push(format!(
            "after add(add5): sub5 was never added, its request must be refused as \
             unknown, got {res:?}"
        ));
    }

    // History: add(add5), add(sub5).
    server.add_service(sub5);
    let res = ask_add().await;
    if res != Ok(15) {
        violations.push(format!(
            "after add(add5), add(sub5): add5 is still registered, its request must be \
             dispatched to its own handler (15), got {res:?}"
        ));
    }
    let res = ask_sub().await;
    if res != Ok(5) {
        violations.push(format!("after add(add5), add(sub5): sub5 got {res:?}"));
    }

    // History: add(add5), add(sub5), remove(add5).
    server.remove_service(add_name);
    let res = ask_sub().await;
    if res != Ok(5) {
        violations.push(format!(
            "after add(add5), add(sub5), remove(add5): sub5 was added and not removed, \
             removing add5 disabled it: {res:?}"
        ));
    }
    let res = ask_add().await;
    if !refused_as_unknown(&res) {
        violations.push(format!("after remove(add5): add5 got {res:?}"));
    }

    assert!(violations.is_empty(), "\n{}", violations.join("\n"));
}
