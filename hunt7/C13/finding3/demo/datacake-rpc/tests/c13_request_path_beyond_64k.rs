//! C13 boundary: the request path is `/` + escaped service name + `/` + escaped message
//! name, and `Channel::send_parts` builds the request with
//! `Request::builder().uri(uri).body(..).unwrap()`. `http::Uri` refuses anything longer
//! than 65534 bytes, so for a service whose escaped names take the URI over that limit
//! the server side registers the service fine (the key is a plain `String`) but no
//! request can ever reach it: `RpcClient::send` panics in the caller's task instead of
//! returning a `Status`. Every byte outside `[A-Za-z0-9-._~:]` counts three times, so
//! the limit is about 21.8k bytes of `<`, `>`, `,`, ` ` or non ASCII text (default names
//! are `type_name`s of possibly deeply nested generic types).
use std::sync::OnceLock;

use datacake_rpc::{
    Channel,
    Handler,
    Request,
    RpcClient,
    RpcService,
    Server,
    ServiceRegistry,
    Status,
};
use rkyv::{Archive, Deserialize, Serialize};

#[repr(C)]
#[derive(Serialize, Deserialize, Archive, Debug)]
#[archive(check_bytes)]
#[archive_attr(derive(Debug))]
pub struct Payload {
    value: u64,
}

/// A service whose name is `N` bytes long.
pub struct Named<const N: usize>;

fn name_of_len(n: usize) -> &'static str {
    static SHORT: OnceLock<String> = OnceLock::new();
    static LONG: OnceLock<String> = OnceLock::new();
    match n {
        65_000 => SHORT.get_or_init(|| "a".repeat(n)).as_str(),
        _ => LONG.get_or_init(|| "a".repeat(n)).as_str(),
    }
}

impl<const N: usize> RpcService for Named<N> {
    fn service_name() -> &'static str {
        name_of_len(N)
    }
    fn register_handlers(registry: &mut ServiceRegistry<Self>) {
        registry.add_handler::<Payload>();
    }
}

#[datacake_rpc::async_trait]
impl<const N: usize> Handler<Payload> for Named<N> {
    type Reply = u64;

    fn path() -> &'static str {
        "p"
    }

    async fn on_message(&self, _msg: Request<Payload>) -> Result<Self::Reply, Status> {
        Ok(N as u64)
    }
}

/// Sends from a task of its own so that a panic of the client is observed, not suffered.
async fn ask<const N: usize>(channel: &Channel) -> Result<Result<u64, Status>, String> {
    let channel = channel.clone();
    tokio::spawn(async move {
        let client = RpcClient::<Named<N>>::new(channel);
        client
            .send(&Payload { value: 0 })
            .await
            .map(|v| v.deserialize_view().unwrap())
    })
    .await
    .map_err(|e| format!("the client panicked: {e}"))
}

#[tokio::test]
async fn a_registered_service_is_served_whatever_the_length_of_its_name() {
    let addr = test_helper::get_unused_addr();
    let server = Server::listen(addr).await.unwrap();
    let channel = Channel::connect(addr);

    // Just below the limit everything works.
    assert!(matches!(ask::<65_000>(&channel).await, Ok(Err(_))));
    server.add_service(Named::<65_000>);
    assert_eq!(ask::<65_000>(&channel).await, Ok(Ok(65_000)));

    // Just above it, neither the refusal nor the dispatch can be observed.
    let before = ask::<65_600>(&channel).await;
    server.add_service(Named::<65_600>);
    let after = ask::<65_600>(&channel).await;

    assert!(
        matches!(before, Ok(Err(_))),
        "not added yet: must be refused as unknown, got {before:?}"
    );
    assert_eq!(
        after,
        Ok(Ok(65_600)),
        "added and not removed: must be dispatched"
    );
}
