//! C19 - "a state that cannot be decoded is reported as an error rather than used".
//!
//! `ReplicationClient::get_state` validates the reply of the peer (commit f5c5e25), but only
//! after `datacake_rpc::DataView::using` has already turned the bytes into a reference to the
//! archived reply: `rkyv::archived_root` is called on whatever passed the checksum and the
//! minimum length test, and it places the root object at `len - size_of::<Archived<T>>()`
//! without looking at the alignment of that position.
//!
//! The peer below answers `GetState` with status 200 and a reply which is a perfectly good state
//! message with ONE byte put in front of it (checksum recomputed, so the transport has nothing
//! to complain about). The root object now sits at an odd address. The asking node must report
//! an undecodable reply (`Err(Status { code: InvalidPayload, .. })`). In a build with debug
//! assertions (the default `cargo build` / `cargo test` profile) it does not get that far: the
//! reference to the misplaced root trips rustc's misaligned pointer check inside
//! `DataView::using`, which is a panic that cannot unwind, and the whole process (the node)
//! aborts. (With `--release` the same reference is formed - undefined behaviour - and the
//! validation added by the fix then rejects it, so the error is reported.)
use std::net::SocketAddr;
use std::time::Duration;

use datacake_crdt::{HLCTimestamp, OrSWotSet};
use datacake_eventual_consistency::test_utils::MemStore;
use datacake_eventual_consistency::verif::{KeyspaceOrSwotSet, ReplicationClient};
use datacake_node::Clock;
use datacake_rpc::{Channel, ErrorCode};
use tokio::io::{AsyncReadExt, AsyncWriteExt};
use tokio::net::{TcpListener, TcpStream};

fn ts(secs: u64, counter: u16, node: u8) -> HLCTimestamp {
    HLCTimestamp::new(Duration::from_secs(secs), counter, node)
}

fn peer_state() -> OrSWotSet<2> {
    let mut set = OrSWotSet::<2>::default();
    set.insert_with_source(0, 1, ts(5_000, 0, 3));
    set.insert_with_source(1, 2, ts(5_001, 0, 4));
    set.delete_with_source(0, 3, ts(5_002, 0, 3));
    set
}

/// What a healthy peer sends: the reply message followed by its CRC32.
fn well_formed_reply() -> Vec<u8> {
    let reply = KeyspaceOrSwotSet {
        timestamp: ts(6_000, 0, 9),
        last_updated: ts(5_999, 0, 9),
        set: peer_state().as_bytes().unwrap(),
    };
    datacake_rpc::to_view_bytes(&reply).unwrap().to_vec()
}

/// The same message with one byte in front of it, the checksum is valid.
fn shifted_reply() -> Vec<u8> {
    let good = well_formed_reply();
    let mut bytes = vec![0u8];
    bytes.extend_from_slice(&good[..good.len() - 4]);
    let checksum = crc32fast::hash(&bytes);
    bytes.extend_from_slice(&checksum.to_le_bytes());
    bytes
}

async fn write_frame(io: &mut TcpStream, kind: u8, flags: u8, stream: u32, payload: &[u8]) {
    let len = payload.len() as u32;
    let mut frame = vec![(len >> 16) as u8, (len >> 8) as u8, len as u8, kind, flags];
    frame.extend_from_slice(&stream.to_be_bytes());
    frame.extend_from_slice(payload);
    io.write_all(&frame).await.unwrap();
}

/// A minimal HTTP/2 peer: answers every request with status 200 and the given body.
async fn run_peer(listener: TcpListener, body: Vec<u8>) {
    loop {
        let (mut io, _) = listener.accept().await.unwrap();
        io.set_nodelay(true).unwrap();
        let body = body.clone();
        tokio::spawn(async move {
            let mut preface = [0u8; 24];
            io.read_exact(&mut preface).await.unwrap();
            assert_eq!(&preface, b"PRI * HTTP/2.0\r\n\r\nSM\r\n\r\n");

            // Our (empty) SETTINGS.
            write_frame(&mut io, 4, 0, 0, &[]).await;

            loop {
                let mut head = [0u8; 9];
                if io.read_exact(&mut head).await.is_err() {
                    return;
                }
                let len = ((head[0] as usize) << 16) | ((head[1] as usize) << 8) | head[2] as usize;
                let (kind, flags) = (head[3], head[4]);
                let stream = u32::from_be_bytes([head[5], head[6], head[7], head[8]]) & 0x7FFF_FFFF;
                let mut payload = vec![0u8; len];
                if io.read_exact(&mut payload).await.is_err() {
                    return;
                }

                match kind {
                    // SETTINGS which is not an ACK: acknowledge.
                    4 if flags & 1 == 0 => write_frame(&mut io, 4, 1, 0, &[]).await,
                    // PING which is not an ACK: acknowledge.
                    6 if flags & 1 == 0 => write_frame(&mut io, 6, 1, 0, &payload).await,
                    // HEADERS or DATA closing the request: answer.
                    0 | 1 if flags & 1 == 1 => {
                        // HPACK: indexed header field 8 of the static table, `:status: 200`.
                        write_frame(&mut io, 1, 0x4, stream, &[0x88]).await;
                        write_frame(&mut io, 0, 0x1, stream, &body).await;
                    },
                    _ => {},
                }
            }
        });
    }
}

async fn ask(body: Vec<u8>) -> Result<(HLCTimestamp, OrSWotSet<2>), datacake_rpc::Status> {
    let listener = TcpListener::bind("127.0.0.1:0").await.unwrap();
    let addr: SocketAddr = listener.local_addr().unwrap();
    tokio::spawn(run_peer(listener, body));

    let mut client = ReplicationClient::<MemStore>::new(Clock::new(1), Channel::connect(addr));
    tokio::time::timeout(Duration::from_secs(30), client.get_state("my-keyspace"))
        .await
        .expect("The peer answers at once.")
}

#[tokio::test(flavor = "multi_thread", worker_threads = 2)]
async fn a_reply_with_a_misplaced_root_is_reported_as_an_error() {
    // Unreachable result on the unmodified tree (debug profile): the process aborts in `ask`.
    match ask(shifted_reply()).await {
        Ok(_) => panic!("The reply cannot be decoded, there is no state to hand out."),
        Err(status) => assert_eq!(status.code, ErrorCode::InvalidPayload, "got: {status:?}"),
    }
}

/// Control: the very same peer and message without the extra byte, the state arrives unchanged.
#[tokio::test(flavor = "multi_thread", worker_threads = 2)]
async fn control_the_well_formed_reply_is_decoded() {
    let (last_updated, got) = ask(well_formed_reply()).await.expect("A good reply.");
    assert_eq!(last_updated, ts(5_999, 0, 9));

    let probe = |set: &OrSWotSet<2>| {
        let (mut live, mut dead) = OrSWotSet::<2>::default().diff(set);
        live.sort();
        dead.sort();
        (live, dead)
    };
    assert_eq!(probe(&got), probe(&peer_state()));
}
