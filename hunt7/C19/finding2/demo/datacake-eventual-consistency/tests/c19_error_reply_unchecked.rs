//! C19 - "a state that cannot be decoded is reported as an error rather than used".
//!
//! `ReplicationClient::get_state` validates the reply of the peer only when the peer answers
//! with HTTP status 200 (commits f5c5e25 and 35770dd). Any other status takes the error path
//! of `datacake_rpc::RpcClient::send_inner`, which deserialises the body as a `Status` straight
//! from an *unchecked* view (`ArchivedStatus` does not even implement `CheckBytes`): the CRC32
//! at the end of the message only guards the wire, the length and the relative pointer of the
//! message string are followed as they come.
//!
//! The peer below answers the `GetState` request of a repairing node with status 400 and a body
//! that is a well formed `Status` whose message length was changed to 2 GiB - 1 (checksum
//! recomputed, so the message is intact as far as the transport is concerned). The asking node
//! must report an error (`Err(Status { code: InvalidPayload, .. })`, as it does for an
//! undecodable 200 reply). Instead it reads 2 GiB starting inside a 100 byte buffer and dies with
//! SIGSEGV, taking the whole process (the node) with it.
use std::net::SocketAddr;
use std::time::Duration;

use datacake_eventual_consistency::test_utils::MemStore;
use datacake_eventual_consistency::verif::ReplicationClient;
use datacake_node::Clock;
use datacake_rpc::{Channel, ErrorCode, Status};
use tokio::io::{AsyncReadExt, AsyncWriteExt};
use tokio::net::{TcpListener, TcpStream};

/// A `Status` error reply whose message claims to be 2 GiB - 1 long. The checksum is valid.
fn malformed_error_reply() -> Vec<u8> {
    let status = Status::internal("x".repeat(64));
    let mut bytes = datacake_rpc::to_view_bytes(&status).unwrap().to_vec();

    let end = bytes.len() - 4;
    let root = end - std::mem::size_of::<datacake_rpc::ArchivedStatus>();

    // The root is `{ code: u8, message: ArchivedString }`, the string is out of line:
    // `{ len: u32 (le), offset: i32 (le) }`. Find the length (64) and replace it.
    let len_at = (root..end - 3)
        .find(|at| bytes[*at..*at + 4] == 64u32.to_le_bytes())
        .expect("The length of the message is part of the root object.");
    bytes[len_at..len_at + 4].copy_from_slice(&0x7FFF_FFFFu32.to_le_bytes());

    let checksum = crc32fast::hash(&bytes[..end]);
    bytes[end..].copy_from_slice(&checksum.to_le_bytes());
    bytes
}

async fn write_frame(io: &mut TcpStream, kind: u8, flags: u8, stream: u32, payload: &[u8]) {
    let len = payload.len() as u32;
    let mut frame = vec![(len >> 16) as u8, (len >> 8) as u8, len as u8, kind, flags];
    frame.extend_from_slice(&stream.to_be_bytes());
    frame.extend_from_slice(payload);
    io.write_all(&frame).await.unwrap();
}

/// A minimal HTTP/2 peer: answers every request with status 400 and the given body.
async fn run_peer(listener: TcpListener, body: Vec<u8>) {
    loop {
        let (mut io, _) = listener.accept().await.unwrap();
        let body = body.clone();
        tokio::spawn(async move {
            let mut preface = [0u8; 24];
            io.read_exact(&mut preface).await.unwrap();
            assert_eq!(&preface, b"PRI * HTTP/2.0\r\n\r\nSM\r\n\r\n");

            // Our (empty) SETTINGS.
            write_frame(&mut io, 4, 0, 0, &[]).await;

            loop {
                let mut head = [0u8; 9];
                if io.read_exact(&mut head).await.is_err() {
                    return;
                }
                let len = ((head[0] as usize) << 16) | ((head[1] as usize) << 8) | head[2] as usize;
                let (kind, flags) = (head[3], head[4]);
                let stream = u32::from_be_bytes([head[5], head[6], head[7], head[8]]) & 0x7FFF_FFFF;
                let mut payload = vec![0u8; len];
                if io.read_exact(&mut payload).await.is_err() {
                    return;
                }

                match kind {
                    // SETTINGS which is not an ACK: acknowledge.
                    4 if flags & 1 == 0 => write_frame(&mut io, 4, 1, 0, &[]).await,
                    // PING which is not an ACK: acknowledge.
                    6 if flags & 1 == 0 => write_frame(&mut io, 6, 1, 0, &payload).await,
                    // HEADERS or DATA closing the request: answer.
                    0 | 1 if flags & 1 == 1 => {
                        // HPACK: indexed header field 12 of the static table, `:status: 400`.
                        write_frame(&mut io, 1, 0x4, stream, &[0x8C]).await;
                        write_frame(&mut io, 0, 0x1, stream, &body).await;
                    },
                    _ => {},
                }
            }
        });
    }
}

#[tokio::test(flavor = "multi_thread", worker_threads = 2)]
async fn a_malformed_error_reply_to_get_state_is_reported_as_an_error() {
    let listener = TcpListener::bind("127.0.0.1:0").await.unwrap();
    let addr: SocketAddr = listener.local_addr().unwrap();
    tokio::spawn(run_peer(listener, malformed_error_reply()));

    let clock = Clock::new(1);
    let mut client = ReplicationClient::<MemStore>::new(clock, Channel::connect(addr));

    let res = tokio::time::timeout(Duration::from_secs(30), client.get_state("my-keyspace"))
        .await
        .expect("The peer answers at once.");

    match res {
        Ok(_) => panic!("There was no state in the reply."),
        Err(status) => {
            // Unreachable on the unmodified tree: the process is gone by now.
            assert_eq!(
                status.code,
                ErrorCode::InvalidPayload,
                "A reply which cannot be decoded is an invalid payload, got: {status:?}",
            );
            assert!(status.message.len() < 1 << 20, "The message was made up from memory outside the reply.");
        },
    }
}

/// Control: the same peer with a well formed error reply, the error is reported as sent.
#[tokio::test(flavor = "multi_thread", worker_threads = 2)]
async fn control_a_well_formed_error_reply_is_reported() {
    let listener = TcpListener::bind("127.0.0.1:0").await.unwrap();
    let addr: SocketAddr = listener.local_addr().unwrap();
    let body = datacake_rpc::to_view_bytes(&Status::internal("x".repeat(64)))
        .unwrap()
        .to_vec();
    tokio::spawn(run_peer(listener, body));

    let clock = Clock::new(1);
    let mut client = ReplicationClient::<MemStore>::new(clock, Channel::connect(addr));
    let status = client.get_state("my-keyspace").await.err().expect("An error reply.");
    assert_eq!(status.code, ErrorCode::InternalError);
    assert_eq!(status.message, "x".repeat(64));
}
