use std::net::SocketAddr;
use std::sync::{Arc, Mutex};
use std::time::Duration;

use datacake_crdt::{HLCTimestamp, OrSWotSet};
use datacake_eventual_consistency::test_utils::MemStore;
use datacake_eventual_consistency::verif::{KeyspaceOrSwotSet, ReplicationClient};
use datacake_node::Clock;
use datacake_rpc::Channel;
use tokio::io::{AsyncReadExt, AsyncWriteExt};
use tokio::net::{TcpListener, TcpStream};

type Set = OrSWotSet<2>;
struct Rng(u64);
impl Rng { fn next(&mut self) -> u64 { self.0 ^= self.0 << 13; self.0 ^= self.0 >> 7; self.0 ^= self.0 << 17; self.0 } }
fn ts(secs: u64, counter: u16, node: u8) -> HLCTimestamp { HLCTimestamp::new(Duration::from_secs(secs), counter, node) }

async fn write_frame(io: &mut TcpStream, kind: u8, flags: u8, stream: u32, payload: &[u8]) {
    let len = payload.len() as u32;
    let mut frame = vec![(len >> 16) as u8, (len >> 8) as u8, len as u8, kind, flags];
    frame.extend_from_slice(&stream.to_be_bytes());
    frame.extend_from_slice(payload);
    io.write_all(&frame).await.unwrap();
}

async fn run_peer(listener: TcpListener, body: Arc<Mutex<Vec<u8>>>) {
    loop {
        let (mut io, _) = listener.accept().await.unwrap();
        io.set_nodelay(true).unwrap();
        let body = body.clone();
        tokio::spawn(async move {
            let mut preface = [0u8; 24];
            io.read_exact(&mut preface).await.unwrap();
            write_frame(&mut io, 4, 0, 0, &[]).await;
            loop {
                let mut head = [0u8; 9];
                if io.read_exact(&mut head).await.is_err() { return; }
                let len = ((head[0] as usize) << 16) | ((head[1] as usize) << 8) | head[2] as usize;
                let (kind, flags) = (head[3], head[4]);
                let stream = u32::from_be_bytes([head[5], head[6], head[7], head[8]]) & 0x7FFF_FFFF;
                let mut payload = vec![0u8; len];
                if io.read_exact(&mut payload).await.is_err() { return; }
                if kind == 0 && len > 0 {
                    write_frame(&mut io, 8, 0, 0, &(len as u32).to_be_bytes()).await;
                }
                match kind {
                    4 if flags & 1 == 0 => write_frame(&mut io, 4, 1, 0, &[]).await,
                    6 if flags & 1 == 0 => write_frame(&mut io, 6, 1, 0, &payload).await,
                    0 | 1 if flags & 1 == 1 => {
                        let b = body.lock().unwrap().clone();
                        write_frame(&mut io, 1, 0x4, stream, &[0x88]).await;
                        write_frame(&mut io, 0, 0x1, stream, &b).await;
                    },
                    _ => {},
                }
            }
        });
    }
}

#[tokio::test(flavor = "multi_thread", worker_threads = 2)]
async fn fuzz_replies() {
    let listener = TcpListener::bind("127.0.0.1:0").await.unwrap();
    let addr: SocketAddr = listener.local_addr().unwrap();
    let body = Arc::new(Mutex::new(Vec::new()));
    tokio::spawn(run_peer(listener, body.clone()));
    let mut client = ReplicationClient::<MemStore>::new(Clock::new(1), Channel::connect(addr));

    let mut rng = Rng(0xA5A5_5A5A_1234_4321);
    let words: [u32; 10] = [0, 1, 2, 0x7fff_ffff, 0x8000_0000, 0xffff_ffff, 0xffff_fff8, 0xffff_fff0, 8, 16];
    let (mut ok, mut err) = (0u64, 0u64);
    let progress = Arc::new(std::sync::atomic::AtomicU64::new(0));
    {
        let progress = progress.clone();
        let body = body.clone();
        std::thread::spawn(move || {
            let mut last = 0;
            loop {
                std::thread::sleep(Duration::from_secs(15));
                let now = progress.load(std::sync::atomic::Ordering::SeqCst);
                if now == last {
                    let b = body.lock().unwrap().clone();
                    std::fs::write("/tmp/mut/out7/C19/hang_body.bin", &b).unwrap();
                    eprintln!("WATCHDOG: stuck at {now}, body len {}", b.len());
                    std::process::abort();
                }
                last = now;
            }
        });
    }
    for round in 0..60 {
        let mut set = Set::default();
        let n = [0usize, 1, 3, 10, 40, 200][round % 6];
        for i in 0..n {
            let r = rng.next();
            let t = ts(5000 + i as u64, (r >> 40) as u16, (r % 5) as u8);
            if r & 0x100 == 0 { set.insert_with_source(((r >> 9) & 1) as usize, (r >> 20) % 500, t); }
            else { set.delete_with_source(((r >> 9) & 1) as usize, (r >> 20) % 500, t); }
        }
        let reply = KeyspaceOrSwotSet { timestamp: ts(6000, 0, 9), last_updated: ts(5999, 0, 9), set: set.as_bytes().unwrap() };
        let bytes = datacake_rpc::to_view_bytes(&reply).unwrap().to_vec();
        for _ in 0..400 {
            let mut b = bytes.clone();
            let end = b.len() - 4;
            let k = 1 + (rng.next() % 3);
            for _ in 0..k {
                let r = rng.next();
                let pos = if r & 3 != 0 { end - 1 - ((r >> 8) as usize % end.min(40)) } else { (r >> 8) as usize % end };
                match (r >> 4) & 3 {
                    0 => b[pos] ^= 1 << ((r >> 40) & 7),
                    1 => b[pos] = (r >> 40) as u8,
                    _ => { let p = pos & !3; if p + 4 <= end { b[p..p + 4].copy_from_slice(&words[((r >> 40) % 10) as usize].to_le_bytes()); } },
                }
            }
            let r = rng.next();
            if r % 10 == 0 { let cut = ((r >> 8) as usize % (end + 1)) / 8 * 8; b.drain(cut..end); }
            let end = b.len() - 4;
            let c = crc32fast::hash(&b[..end]);
            b[end..].copy_from_slice(&c.to_le_bytes());
            *body.lock().unwrap() = b;
            progress.fetch_add(1, std::sync::atomic::Ordering::SeqCst);
            let sent = body.lock().unwrap().clone();
            match tokio::time::timeout(Duration::from_secs(20), client.get_state("ks")).await {
                Ok(Ok(_)) => ok += 1,
                Ok(Err(_)) => err += 1,
                Err(_) => panic!("HANG on reply {:?}", sent),
            }
        }
    }
    println!("ok {ok} err {err}");
}
