use std::time::Duration;

use datacake_crdt::{HLCTimestamp, OrSWotSet};

type Set = OrSWotSet<2>;

fn ts(secs: u64, counter: u16, node: u8) -> HLCTimestamp {
    HLCTimestamp::new(Duration::from_secs(secs), counter, node)
}

fn fp(set: &Set) -> (Vec<(u64, u64)>, Vec<(u64, u64)>, String) {
    let (mut live, mut dead) = Set::default().diff(set);
    live.sort();
    dead.sort();
    let dbg = format!("{:?}", set);
    let versions = dbg[dbg.find("versions:").unwrap()..].to_string();
    (
        live.into_iter().map(|(k, t)| (k, t.as_u64())).collect(),
        dead.into_iter().map(|(k, t)| (k, t.as_u64())).collect(),
        versions,
    )
}

#[test]
fn every_size() {
    let mut bad = vec![];
    // live sizes
    let mut set = Set::default();
    for n in 0..6000u64 {
        let bytes = set.as_bytes().unwrap();
        match Set::from_bytes(&bytes) {
            Ok(got) => if fp(&got) != fp(&set) { bad.push(format!("live {n}: mismatch")); },
            Err(_) => bad.push(format!("live {n}: decode error")),
        }
        set.insert_with_source((n % 2) as usize, n.wrapping_mul(0x9E3779B97F4A7C15), ts(1000 + n, 0, (n % 256) as u8));
    }
    // dead sizes
    let mut set = Set::default();
    for n in 0..6000u64 {
        let bytes = set.as_bytes().unwrap();
        match Set::from_bytes(&bytes) {
            Ok(got) => if fp(&got) != fp(&set) { bad.push(format!("dead {n}: mismatch")); },
            Err(_) => bad.push(format!("dead {n}: decode error")),
        }
        set.delete_with_source((n % 2) as usize, n, ts(1000 + n, 0, (n % 7) as u8));
    }
    assert!(bad.is_empty(), "{:?}", &bad[..bad.len().min(20)]);
}
