use std::net::SocketAddr;
use std::time::Duration;

use datacake_crdt::{HLCTimestamp, OrSWotSet};
use datacake_eventual_consistency::test_utils::MemStore;
use datacake_eventual_consistency::verif::{
    KeyspaceGroup,
    ReplicationClient,
    ReplicationService,
};
use datacake_node::Clock;
use datacake_rpc::{Channel, Server};

type Set = OrSWotSet<2>;

fn fingerprint(set: &Set) -> (Vec<(u64, u64)>, Vec<(u64, u64)>, String) {
    let (mut live, mut dead) = Set::default().diff(set);
    live.sort();
    dead.sort();
    let dbg = format!("{:?}", set);
    let versions = dbg[dbg.find("versions:").unwrap()..].to_string();
    (
        live.into_iter().map(|(k, t)| (k, t.as_u64())).collect(),
        dead.into_iter().map(|(k, t)| (k, t.as_u64())).collect(),
        versions,
    )
}

fn ts(secs: u64, counter: u16, node: u8) -> HLCTimestamp {
    HLCTimestamp::new(Duration::from_secs(secs), counter, node)
}

struct Rng(u64);
impl Rng {
    fn next(&mut self) -> u64 {
        self.0 ^= self.0 << 13;
        self.0 ^= self.0 >> 7;
        self.0 ^= self.0 << 17;
        self.0
    }
}

fn random_state(rng: &mut Rng, n_ops: usize, n_nodes: u64, key_space: u64) -> Set {
    let mut set = Set::default();
    for i in 0..n_ops {
        let r = rng.next();
        let node = (r % n_nodes) as u8;
        let source = ((r >> 8) % 2) as usize;
        let key = match (r >> 12) % 8 {
            0 => u64::MAX - ((r >> 20) % key_space),
            1 => (1u64 << 63) + ((r >> 20) % key_space),
            _ => (r >> 20) % key_space,
        };
        let t = ts(10_000 + (i as u64) * 3 + ((r >> 40) % 5000), (r >> 50) as u16, node);
        if (r >> 16) % 3 == 0 {
            set.delete_with_source(source, key, t);
        } else {
            set.insert_with_source(source, key, t);
        }
        if (r >> 60) == 0 {
            set.purge_old_deletes();
        }
    }
    set
}

#[tokio::test(flavor = "multi_thread", worker_threads = 2)]
async fn explore_roundtrip() {
    let addr: SocketAddr = "127.0.0.1:47719".parse().unwrap();
    let group = KeyspaceGroup::<MemStore>::new_for_test().await;
    let server = Server::listen(addr).await.unwrap();
    server.add_service(ReplicationService::new(group.clone()));

    let clock = Clock::new(7);
    let mut client = ReplicationClient::<MemStore>::new(clock, Channel::connect(addr));

    let mut rng = Rng(0x9E3779B97F4A7C15);
    let mut case = 0usize;
    let mut bad = Vec::new();
    for &(n_ops, n_nodes, key_space) in &[
        (0usize, 1u64, 1u64),
        (1, 1, 1),
        (2, 2, 2),
        (5, 3, 4),
        (10, 256, 4),
        (50, 256, 1000),
        (300, 256, 100),
        (1000, 256, 100000),
        (5000, 200, 100000),
        (20000, 256, 10_000_000),
        (100000, 256, 10_000_000),
        (6_000_000, 256, 1u64<<40),
    ] {
        for _ in 0..(if n_ops > 1_000_000 { 1 } else if n_ops > 5000 { 2 } else { 30 }) {
            case += 1;
            let state = random_state(&mut rng, n_ops, n_nodes, key_space);
            let name = format!("ks-{case}");
            group.add_state(name.clone(), state.clone()).await;
            match client.get_state(name.clone()).await {
                Ok((_, got)) => {
                    let a = fingerprint(&state);
                    let b = fingerprint(&got);
                    if a != b {
                        bad.push(format!(
                            "case {case} ({n_ops},{n_nodes},{key_space}): MISMATCH live {} vs {}, dead {} vs {}, versions eq {}",
                            a.0.len(), b.0.len(), a.1.len(), b.1.len(), a.2 == b.2
                        ));
                    }
                    // will_apply probes
                    for _ in 0..200 {
                        let r = rng.next();
                        let key = (r >> 20) % key_space;
                        let t = ts(9_000 + (r % 20_000), (r >> 50) as u16, ((r >> 8) % n_nodes) as u8);
                        if state.will_apply(key, t) != got.will_apply(key, t) {
                            bad.push(format!("case {case}: will_apply differs"));
                            break;
                        }
                    }
                },
                Err(e) => bad.push(format!("case {case} ({n_ops},{n_nodes},{key_space}): ERROR {e:?}")),
            }
        }
    }
    println!("cases: {case}");
    assert!(bad.is_empty(), "{:#?}", bad);
}

#[tokio::test(flavor = "multi_thread", worker_threads = 4)]
async fn explore_concurrent() {
    let addr: SocketAddr = "127.0.0.1:47720".parse().unwrap();
    let group = KeyspaceGroup::<MemStore>::new_for_test().await;
    let server = Server::listen(addr).await.unwrap();
    server.add_service(ReplicationService::new(group.clone()));

    let clock = Clock::new(7);
    let channel = Channel::connect(addr);
    let mut rng = Rng(0xDEADBEEFCAFEF00D);
    let mut expected = Vec::new();
    for i in 0..800 {
        let n = if i % 50 == 0 { 200_000 } else { 3000 };
        let state = random_state(&mut rng, n, 256, 1 << 30);
        let name = format!("ks-{i}");
        group.add_state(name.clone(), state.clone()).await;
        expected.push((name, fingerprint(&state)));
    }
    let mut tasks = Vec::new();
    for (name, fp) in expected {
        let mut client = ReplicationClient::<MemStore>::new(clock.clone(), channel.clone());
        tasks.push(tokio::spawn(async move {
            match client.get_state(name.clone()).await {
                Ok((_, got)) => {
                    if fingerprint(&got) != fp { Some(format!("{name}: mismatch")) } else { None }
                },
                Err(e) => Some(format!("{name}: {e:?}")),
            }
        }));
    }
    let mut bad = Vec::new();
    for t in tasks {
        if let Some(b) = t.await.unwrap() { bad.push(b); }
    }
    assert!(bad.is_empty(), "{:#?}", bad);
}
