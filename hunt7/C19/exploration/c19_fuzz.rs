use std::time::Duration;
use datacake_crdt::{HLCTimestamp, OrSWotSet};
type Set = OrSWotSet<2>;

struct Rng(u64);
impl Rng { fn next(&mut self) -> u64 { self.0 ^= self.0 << 13; self.0 ^= self.0 >> 7; self.0 ^= self.0 << 17; self.0 } }

fn ts(secs: u64, counter: u16, node: u8) -> HLCTimestamp { HLCTimestamp::new(Duration::from_secs(secs), counter, node) }

#[test]
fn fuzz_from_bytes() {
    let mut rng = Rng(0x1234_5678_9ABC_DEF1);
    let words: [u32; 10] = [0, 1, 2, 0x7fff_ffff, 0x8000_0000, 0xffff_ffff, 0xffff_fff8, 0xffff_fff0, 8, 16];
    let mut ok = 0u64; let mut err = 0u64; let mut panics = 0u64;
    for round in 0..560 {
        let mut set = Set::default();
        let n = [0usize, 1, 3, 10, 40, 200, 1000][round % 7];
        for i in 0..n {
            let r = rng.next();
            let t = ts(5000 + i as u64, (r >> 40) as u16, (r % 5) as u8);
            if r & 0x100 == 0 { set.insert_with_source(((r >> 9) & 1) as usize, (r >> 20) % 500, t); }
            else { set.delete_with_source(((r >> 9) & 1) as usize, (r >> 20) % 500, t); }
        }
        let bytes = set.as_bytes().unwrap();
        for _ in 0..30000 {
            let mut b = rkyv::AlignedVec::new();
            b.extend_from_slice(&bytes);
            let k = 1 + (rng.next() % 3);
            for _ in 0..k {
                let r = rng.next();
                // bias to the tail (root + index structures)
                let pos = if r & 1 == 0 { b.len() - 1 - ((r >> 8) as usize % b.len().min(160)) } else { (r >> 8) as usize % b.len() };
                match (r >> 4) & 3 {
                    0 => b[pos] ^= 1 << ((r >> 40) & 7),
                    1 => b[pos] = (r >> 40) as u8,
                    _ => {
                        let p = pos & !3;
                        if p + 4 <= b.len() {
                            let w = words[((r >> 40) % 10) as usize];
                            b[p..p + 4].copy_from_slice(&w.to_le_bytes());
                        }
                    },
                }
            }
            // also random truncation sometimes
            let r = rng.next();
            let slice_len = if r % 16 == 0 { (r >> 8) as usize % (b.len() + 1) } else { b.len() };
            let res = std::panic::catch_unwind(|| Set::from_bytes(&b[..slice_len]).map(|s| { let _ = Set::default().diff(&s); s.will_apply(1, ts(1,0,0)) }));
            match res { Ok(Ok(_)) => ok += 1, Ok(Err(_)) => err += 1, Err(_) => panics += 1 }
        }
    }
    println!("ok {ok} err {err} panics {panics}");
    assert_eq!(panics, 0);
}
