//! C05 through the real anti-entropy path (poll, GetState, Diff, FetchDocs, MultiSet / Del on the
//! read-repair source) of two keyspace groups talking over the real RPC layer.
//!
//! Run with `--features verif,test-utils` (the hooks only expose the crate's own functions).
//!
//! A third node (id 3) issued, in this order:
//!   a = put 1 @ (T0,          counter 0)
//!   b = put 2 @ (T0 + 3600 s, counter 1)
//!   c = del 3 @ (T0 + 3600 s, counter 2)
//! The peer received all three directly. The replica received only `b` directly, so what it lacks
//! is one operation which is exactly one forgiveness period (to the clock tick) older than the
//! newest one it has seen from that node, and one which is newer.
//!
//! One exchange with the peer has to leave both with the same live documents, whatever the order
//! in which the removal and the modification halves of the difference are applied.

use std::marker::PhantomData;
use std::sync::Arc;
use std::time::Duration;

use datacake_crdt::HLCTimestamp;
use datacake_eventual_consistency::test_utils::MemStore;
use datacake_eventual_consistency::verif::{
    repair_peer,
    repair_peer_concurrent,
    Del,
    KeyspaceGroup,
    ReplicationService,
    Set,
    Tracker,
    CONSISTENCY_SOURCE_ID,
};
use datacake_eventual_consistency::{Document, DocumentMetadata, Storage};
use datacake_node::{Clock, RpcNetwork};
use datacake_rpc::Server;

static KEYSPACE: &str = "c05-keyspace";
const FORGIVENESS: Duration = Duration::from_secs(3_600);
const T0: Duration = Duration::from_secs(100_000);
const ORIGIN: u8 = 3;
const PEER_ID: u8 = 1;
const REPLICA_ID: u8 = 2;

async fn put(group: &KeyspaceGroup<MemStore>, id: u64, ts: HLCTimestamp) {
    let keyspace = group.get_or_create_keyspace(KEYSPACE).await;
    keyspace
        .send(Set {
            source: CONSISTENCY_SOURCE_ID,
            doc: Document::new(id, ts, format!("doc-{id}").into_bytes()),
            ctx: None,
            _marker: PhantomData::<MemStore>::default(),
        })
        .await
        .expect("put");
}

async fn del(group: &KeyspaceGroup<MemStore>, id: u64, ts: HLCTimestamp) {
    let keyspace = group.get_or_create_keyspace(KEYSPACE).await;
    keyspace
        .send(Del {
            source: CONSISTENCY_SOURCE_ID,
            doc: DocumentMetadata::new(id, ts),
            _marker: PhantomData::<MemStore>::default(),
        })
        .await
        .expect("del");
}

async fn live_docs(group: &KeyspaceGroup<MemStore>) -> Vec<(u64, HLCTimestamp)> {
    let mut live = group
        .storage()
        .iter_metadata(KEYSPACE)
        .await
        .expect("metadata")
        .filter(|(_, _, tombstone)| !tombstone)
        .map(|(id, ts, _)| (id, ts))
        .collect::<Vec<_>>();
    live.sort();
    live
}

/// `Some(removals_first)` for the sequential hook, `None` for the production path
/// (`begin_keyspace_sync`, both halves spawned concurrently).
async fn one_exchange(order: Option<bool>) -> (Vec<(u64, HLCTimestamp)>, Vec<(u64, HLCTimestamp)>) {
    let a = HLCTimestamp::new(T0, 0, ORIGIN);
    let b = HLCTimestamp::new(T0 + FORGIVENESS, 1, ORIGIN);
    let c = HLCTimestamp::new(T0 + FORGIVENESS, 2, ORIGIN);

    let peer = KeyspaceGroup::new(Arc::new(MemStore::default()), Clock::new(PEER_ID)).await;
    let replica =
        KeyspaceGroup::new(Arc::new(MemStore::default()), Clock::new(REPLICA_ID)).await;

    put(&peer, 1, a).await;
    put(&peer, 2, b).await;
    del(&peer, 3, c).await;

    put(&replica, 2, b).await;

    let peer_addr = test_helper::get_unused_addr();
    let server = Server::listen(peer_addr).await.expect("listen");
    server.add_service(ReplicationService::new(peer.clone()));

    let network = RpcNetwork::default();
    let mut tracker = Tracker::default();
    let report = match order {
        Some(removals_first) => repair_peer(
            replica.clone(),
            network.clone(),
            &mut tracker,
            PEER_ID,
            peer_addr,
            removals_first,
        )
        .await
        .expect("the exchange succeeds"),
        None => repair_peer_concurrent(
            replica.clone(),
            network.clone(),
            &mut tracker,
            PEER_ID,
            peer_addr,
        )
        .await
        .expect("the exchange succeeds"),
    };

    // The difference is what C05 says it is: one modification (doc 1), one removal (doc 3).
    assert_eq!(report, vec![(KEYSPACE.to_string(), 1, 1)]);

    // The exchange was recorded as complete: the poller has nothing further to fetch from
    // this peer until the peer changes again.
    let again = repair_peer(
        replica.clone(),
        network,
        &mut tracker,
        PEER_ID,
        peer_addr,
        true,
    )
    .await
    .expect("second poll");
    assert!(again.is_empty(), "the poller considers the peer repaired");

    let result = (live_docs(&replica).await, live_docs(&peer).await);
    server.shutdown();
    result
}

#[tokio::test]
async fn modifications_then_removals() {
    let (replica, peer) = one_exchange(Some(false)).await;
    assert_eq!(replica, peer);
}

#[tokio::test]
async fn removals_then_modifications() {
    let (replica, peer) = one_exchange(Some(true)).await;
    assert_eq!(
        replica, peer,
        "the replica reported a complete exchange but does not expose the peer's live documents"
    );
}

#[tokio::test]
async fn production_path_both_halves_concurrently() {
    let (replica, peer) = one_exchange(None).await;
    assert_eq!(
        replica, peer,
        "the replica reported a complete exchange but does not expose the peer's live documents"
    );
}
