//! C05 - "applying the difference (in any split into removal and modification batches) leaves
//! nothing further to fetch from that peer, and two replicas that each apply their difference
//! against the other expose identical live ids and timestamps", for replicas whose view of every
//! origin is gap-free or has gaps of at most one forgiveness period.
//!
//! The purge cut-off of an origin is `oldest-of-the-newest-stamps-per-source - 3600 s` *with the
//! counter of that stamp kept* (`NodeVersions::compute_safe_last_stamp`). An operation of the same
//! origin that was issued one forgiveness period (to the 4 ms tick of the clock) before the newest
//! one the replica has seen, but with a smaller counter, is therefore ordered before the cut-off
//! and is refused, although it is not more than one forgiveness period old. Whether it is refused
//! depends on which of the two batches of the exchange is applied first.
//!
//! Only the public API of the crate is used. Applying a batch is done exactly as the keyspace
//! actor does it (`on_multi_set` / `on_multi_del`): keep what `will_apply`, sort by timestamp,
//! `insert_with_source` / `delete_with_source` on the read-repair source (1).

use std::time::Duration;

use datacake_crdt::{HLCTimestamp, Key, OrSWotSet, StateChanges};

const CONSISTENCY_SOURCE: usize = 0;
const READ_REPAIR_SOURCE: usize = 1;
/// `datacake_crdt::orswot::FORGIVENESS_PERIOD` of a non-test build.
const FORGIVENESS: Duration = Duration::from_secs(3_600);

/// The origin all operations of this history come from.
const ORIGIN: u8 = 1;
const T0: Duration = Duration::from_secs(100_000);

fn stamp(time: Duration, counter: u16) -> HLCTimestamp {
    HLCTimestamp::new(time, counter, ORIGIN)
}

/// `KeyspaceActor::on_multi_set`
fn apply_modifications(set: &mut OrSWotSet<2>, batch: &StateChanges) {
    let mut valid: Vec<(Key, HLCTimestamp)> = batch
        .iter()
        .copied()
        .filter(|(key, ts)| set.will_apply(*key, *ts))
        .collect();
    valid.sort_by_key(|entry| entry.1);
    for (key, ts) in valid {
        set.insert_with_source(READ_REPAIR_SOURCE, key, ts);
    }
}

/// `KeyspaceActor::on_multi_del`
fn apply_removals(set: &mut OrSWotSet<2>, batch: &StateChanges) {
    let mut valid: Vec<(Key, HLCTimestamp)> = batch
        .iter()
        .copied()
        .filter(|(key, ts)| set.will_apply(*key, *ts))
        .collect();
    valid.sort_by_key(|entry| entry.1);
    for (key, ts) in valid {
        set.delete_with_source(READ_REPAIR_SOURCE, key, ts);
    }
}

fn exchange(replica: &mut OrSWotSet<2>, peer: &OrSWotSet<2>, removals_first: bool) {
    let (modified, removed) = replica.diff(peer);
    if removals_first {
        apply_removals(replica, &removed);
        apply_modifications(replica, &modified);
    } else {
        apply_modifications(replica, &modified);
        apply_removals(replica, &removed);
    }
}

fn live(set: &OrSWotSet<2>, universe: &[Key]) -> Vec<(Key, HLCTimestamp)> {
    universe
        .iter()
        .filter_map(|key| set.get(key).map(|ts| (*key, *ts)))
        .collect()
}

/// The origin issued, in this order:
///   a = insert 1 @ (T0,          counter 0)
///   b = insert 2 @ (T0 + 3600 s, counter 1)     (the 2nd stamp handed out in that tick)
///   c = delete 3 @ (T0 + 3600 s, counter 2)
/// The peer has all three. The replica got `b` by direct replication (source 0) and lost the
/// deliveries of `a` and `c`; `a` is exactly one forgiveness period older than the newest
/// operation of the origin the replica has seen, `c` is newer than everything it has seen.
fn history() -> (OrSWotSet<2>, OrSWotSet<2>, [HLCTimestamp; 3]) {
    history_with(0)
}

fn history_with(counter_of_a: u16) -> (OrSWotSet<2>, OrSWotSet<2>, [HLCTimestamp; 3]) {
    let a = stamp(T0, counter_of_a);
    let b = stamp(T0 + FORGIVENESS, 1);
    let c = stamp(T0 + FORGIVENESS, 2);

    // The gap of the replica is not more than one forgiveness period old.
    assert!(b.datacake_timestamp() - a.datacake_timestamp() <= FORGIVENESS);

    let mut peer = OrSWotSet::<2>::default();
    assert!(peer.insert_with_source(CONSISTENCY_SOURCE, 1, a));
    assert!(peer.insert_with_source(CONSISTENCY_SOURCE, 2, b));
    assert!(peer.delete_with_source(CONSISTENCY_SOURCE, 3, c));

    let mut replica = OrSWotSet::<2>::default();
    assert!(replica.insert_with_source(CONSISTENCY_SOURCE, 2, b));

    (replica, peer, [a, b, c])
}

/// Control (passes): the very same history, except that `a` happens to carry a counter which is
/// not smaller than the one of `b`. Both orders repair. The counter of an operation issued an
/// hour earlier has no bearing on how old it is.
#[test]
fn control_same_instants_other_counter() {
    check_one_exchange_repairs(1);
}

#[test]
fn one_exchange_repairs_whatever_the_order_of_the_two_batches() {
    check_one_exchange_repairs(0);
}

fn check_one_exchange_repairs(counter_of_a: u16) {
    let universe = [1, 2, 3];

    for removals_first in [false, true] {
        let (mut replica, mut peer, [a, _b, c]) = history_with(counter_of_a);

        // The difference is what the statement says it is: the replica holds nothing for 1 and 3
        // and neither is older than its cut-off for the origin.
        let (modified, removed) = replica.diff(&peer);
        assert_eq!(modified, vec![(1, a)]);
        assert_eq!(removed, vec![(3, c)]);

        let peer_before = peer.clone();
        exchange(&mut replica, &peer_before, removals_first);
        exchange(&mut peer, &replica.clone(), removals_first);

        let (modified, removed) = replica.diff(&peer_before);
        assert!(
            modified.is_empty() && removed.is_empty(),
            "removals_first={removals_first}: something is left to fetch: {modified:?} {removed:?}",
        );
        assert_eq!(
            live(&replica, &universe),
            live(&peer, &universe),
            "removals_first={removals_first}: the replicas expose different live documents \
             after each applied its difference against the other",
        );
    }
}

#[test]
fn an_overwrite_inside_the_forgiveness_period_is_fetched_for_ever() {
    // As above, but the replica holds an older version of document 1 (written by node 0), so
    // the peer's version is listed because it is strictly newer than what the replica holds.
    let older = HLCTimestamp::new(T0 - Duration::from_secs(60), 0, 0);

    let (mut replica, mut peer, [a, _b, c]) = history();
    assert!(replica.insert_with_source(CONSISTENCY_SOURCE, 1, older));
    assert!(!peer.insert_with_source(CONSISTENCY_SOURCE, 1, older)); // superseded by `a` there

    let (modified, removed) = replica.diff(&peer);
    assert_eq!(modified, vec![(1, a)]);
    assert_eq!(removed, vec![(3, c)]);

    exchange(&mut replica, &peer, true);

    let (modified, removed) = replica.diff(&peer);
    assert!(
        modified.is_empty() && removed.is_empty(),
        "after the exchange the same difference is computed again: {modified:?} {removed:?} \
         (replica still exposes {:?} for document 1)",
        replica.get(&1),
    );
}
