// Differential fuzz harness: set vs storage after each request.
use std::collections::BTreeMap;
use std::marker::PhantomData;
use std::sync::atomic::{AtomicU64, Ordering};
use std::sync::Arc;

use datacake_crdt::{HLCTimestamp, Key, OrSWotSet};
use datacake_eventual_consistency::verif::{
    Del,
    DocVec,
    KeyspaceGroup,
    MultiDel,
    MultiSet,
    PurgeDeletes,
    Serialize,
    Set,
};
use datacake_eventual_consistency::{
    BulkMutationError,
    Document,
    DocumentMetadata,
    Storage,
};
use datacake_node::Clock;

pub struct Rng(u64);
impl Rng {
    pub fn next(&mut self) -> u64 {
        let mut x = self.0;
        x ^= x << 13;
        x ^= x >> 7;
        x ^= x << 17;
        self.0 = x;
        x
    }
    pub fn below(&mut self, n: u64) -> u64 {
        self.next() % n
    }
    pub fn pick<T: Copy>(&mut self, xs: &[T]) -> T {
        xs[self.below(xs.len() as u64) as usize]
    }
}

/// Fails the n-th (counted from now) element-level mutation, `u64::MAX` = never.
pub struct Faulty<S> {
    pub inner: S,
    pub fail_after: AtomicU64,
}

#[derive(Debug, thiserror::Error)]
#[error("{0}")]
pub struct FErr(String);

impl<S: Storage> Faulty<S> {
    fn tick(&self) -> bool {
        let v = self.fail_after.load(Ordering::SeqCst);
        if v == u64::MAX {
            return false;
        }
        if v == 0 {
            self.fail_after.store(u64::MAX, Ordering::SeqCst);
            return true;
        }
        self.fail_after.store(v - 1, Ordering::SeqCst);
        false
    }
}

#[async_trait::async_trait]
impl<S: Storage> Storage for Faulty<S> {
    type Error = FErr;
    type DocsIter = S::DocsIter;
    type MetadataIter = S::MetadataIter;

    async fn get_keyspace_list(&self) -> Result<Vec<String>, Self::Error> {
        self.inner
            .get_keyspace_list()
            .await
            .map_err(|e| FErr(e.to_string()))
    }

    async fn iter_metadata(
        &self,
        keyspace: &str,
    ) -> Result<Self::MetadataIter, Self::Error> {
        self.inner
            .iter_metadata(keyspace)
            .await
            .map_err(|e| FErr(e.to_string()))
    }

    async fn remove_tombstones(
        &self,
        keyspace: &str,
        keys: impl Iterator<Item = Key> + Send,
    ) -> Result<(), BulkMutationError<Self::Error>> {
        let keys = keys.collect::<Vec<_>>();
        let mut done = Vec::new();
        for k in keys {
            if self.tick() {
                return Err(BulkMutationError::new(FErr("inj".into()), done));
            }
            self.inner
                .remove_tombstones(keyspace, [k].into_iter())
                .await
                .map_err(|e| {
                    BulkMutationError::new(FErr(e.to_string()), done.clone())
                })?;
            done.push(k);
        }
        Ok(())
    }

    async fn put(&self, keyspace: &str, document: Document) -> Result<(), Self::Error> {
        if self.tick() {
            return Err(FErr("inj".into()));
        }
        self.inner
            .put(keyspace, document)
            .await
            .map_err(|e| FErr(e.to_string()))
    }

    async fn multi_put(
        &self,
        keyspace: &str,
        documents: impl Iterator<Item = Document> + Send,
    ) -> Result<(), BulkMutationError<Self::Error>> {
        let armed = self.fail_after.load(Ordering::SeqCst) != u64::MAX;
        let docs = documents.collect::<Vec<_>>();
        if !armed {
            return self
                .inner
                .multi_put(keyspace, docs.into_iter())
                .await
                .map_err(|e| {
                    let ids = e.successful_doc_ids().to_vec();
                    BulkMutationError::new(FErr(e.to_string()), ids)
                });
        }
        let mut done = Vec::new();
        for d in docs {
            if self.tick() {
                return Err(BulkMutationError::new(FErr("inj".into()), done));
            }
            let id = d.id();
            self.inner.put(keyspace, d).await.map_err(|e| {
                BulkMutationError::new(FErr(e.to_string()), done.clone())
            })?;
            done.push(id);
        }
        Ok(())
    }

    async fn mark_as_tombstone(
        &self,
        keyspace: &str,
        doc_id: Key,
        timestamp: HLCTimestamp,
    ) -> Result<(), Self::Error> {
        if self.tick() {
            return Err(FErr("inj".into()));
        }
        self.inner
            .mark_as_tombstone(keyspace, doc_id, timestamp)
            .await
            .map_err(|e| FErr(e.to_string()))
    }

    async fn mark_many_as_tombstone(
        &self,
        keyspace: &str,
        documents: impl Iterator<Item = DocumentMetadata> + Send,
    ) -> Result<(), BulkMutationError<Self::Error>> {
        let armed = self.fail_after.load(Ordering::SeqCst) != u64::MAX;
        let docs = documents.collect::<Vec<_>>();
        if !armed {
            return self
                .inner
                .mark_many_as_tombstone(keyspace, docs.into_iter())
                .await
                .map_err(|e| {
                    let ids = e.successful_doc_ids().to_vec();
                    BulkMutationError::new(FErr(e.to_string()), ids)
                });
        }
        let mut done = Vec::new();
        for d in docs {
            if self.tick() {
                return Err(BulkMutationError::new(FErr("inj".into()), done));
            }
            self.inner
                .mark_as_tombstone(keyspace, d.id, d.last_updated)
                .await
                .map_err(|e| {
                    BulkMutationError::new(FErr(e.to_string()), done.clone())
                })?;
            done.push(d.id);
        }
        Ok(())
    }

    async fn get(
        &self,
        keyspace: &str,
        doc_id: Key,
    ) -> Result<Option<Document>, Self::Error> {
        self.inner
            .get(keyspace, doc_id)
            .await
            .map_err(|e| FErr(e.to_string()))
    }

    async fn multi_get(
        &self,
        keyspace: &str,
        doc_ids: impl Iterator<Item = Key> + Send,
    ) -> Result<Self::DocsIter, Self::Error> {
        self.inner
            .multi_get(keyspace, doc_ids)
            .await
            .map_err(|e| FErr(e.to_string()))
    }
}

type View = (BTreeMap<Key, HLCTimestamp>, BTreeMap<Key, HLCTimestamp>);

pub async fn set_view<S: Storage>(group: &KeyspaceGroup<S>, ks: &str) -> View {
    let actor = group.get_or_create_keyspace(ks).await;
    let bytes = actor.send(Serialize).await.expect("serialize");
    let set = OrSWotSet::<2>::from_bytes(&bytes).expect("deserialize");
    let (live, dead) = OrSWotSet::<2>::default().diff(&set);
    (live.into_iter().collect(), dead.into_iter().collect())
}

pub async fn store_view<S: Storage>(store: &S, ks: &str) -> View {
    let mut live = BTreeMap::new();
    let mut dead = BTreeMap::new();
    for (k, ts, tomb) in store.iter_metadata(ks).await.expect("iter") {
        if tomb {
            assert!(dead.insert(k, ts).is_none());
        } else {
            assert!(live.insert(k, ts).is_none());
        }
    }
    (live, dead)
}

pub fn gen_ts(rng: &mut Rng, base: u64) -> HLCTimestamp {
    let secs: u64 = match rng.below(400) {
        0 => 0,
        1 => 1,
        2 => 3599,
        3 => 3600,
        4 => 3601,
        5 => (1u64 << 32) - 1,
        6 => 1u64 << 31,
        7..=100 => base + rng.below(3),
        _ => base + rng.below(9000),
    };
    let frac: u64 = match rng.below(6) {
        0 => 0,
        1 => 249,
        2 => 250,
        3 => 255,
        _ => rng.below(256),
    };
    let counter: u64 = match rng.below(5) {
        0 => 0,
        1 => 1,
        2 => 65535,
        _ => rng.below(65536),
    };
    let node: u64 = rng.pick(&[0u64, 1, 2, 255]);
    HLCTimestamp::from_u64((secs << 32) | (frac << 24) | (counter << 8) | node)
}

pub fn gen_id(rng: &mut Rng) -> Key {
    rng.pick(&[0u64, 1, 2, 3, u64::MAX, 1 << 63, i64::MAX as u64])
}

pub fn gen_data(rng: &mut Rng) -> Vec<u8> {
    match rng.below(4) {
        0 => vec![],
        1 => vec![0],
        2 if std::env::var("BIG").is_ok() => vec![7u8; 1_500_000 + (rng.below(3_000_000) as usize)],
        _ => (0..rng.below(20)).map(|_| rng.next() as u8).collect(),
    }
}

pub async fn run<S: Storage>(store: S, seed: u64, steps: usize) {
    let store = Arc::new(Faulty {
        inner: store,
        fail_after: AtomicU64::new(u64::MAX),
    });
    let mut group = KeyspaceGroup::new(store.clone(), Clock::new(0)).await;
    tokio::time::sleep(std::time::Duration::from_millis(5)).await;
    let mut rng = Rng(seed | 1);
    let kss = ["a", "b-kv", "a-kv", "b", "ünï"];
    let mut log: Vec<String> = Vec::new();

    for step in 0..steps {
        if rng.below(40) == 0 {
            group = KeyspaceGroup::new(store.clone(), Clock::new(0)).await;
            group.load_states_from_storage().await.expect("load");
            // let the new group's immediate purge pass finish (the old group is quiescent by now)
            tokio::time::sleep(std::time::Duration::from_millis(20)).await;
            log.push("restart".into());
        }
        let ks = rng.pick(&kss[..]);
        let actor = group.get_or_create_keyspace(ks).await;
        let source = rng.below(2) as usize;
        let base = 20000 + (step as u64) * 40;
        let fail = if rng.below(4) == 0 {
            rng.below(4)
        } else {
            u64::MAX
        };
        store.fail_after.store(fail, Ordering::SeqCst);
        let desc;
        match rng.below(9) {
            0 | 1 => {
                let doc = Document::new(gen_id(&mut rng), gen_ts(&mut rng, base), gen_data(&mut rng));
                desc = format!("set {ks:?} src={source} {:?} fail={fail}", doc.metadata);
                let r = actor
                    .send(Set {
                        source,
                        doc,
                        ctx: None,
                        _marker: PhantomData::<Faulty<S>>,
                    })
                    .await;
                if let Err(e) = r { if e.to_string() != "inj" { eprintln!("ERR {e}"); } }
            },
            2 | 3 => {
                let n = rng.below(5);
                let docs: DocVec<Document> = (0..n)
                    .map(|_| Document::new(gen_id(&mut rng), gen_ts(&mut rng, base), gen_data(&mut rng)))
                    .collect();
                desc = format!(
                    "mset {ks:?} src={source} {:?} fail={fail}",
                    docs.iter().map(|d| d.metadata).collect::<Vec<_>>()
                );
                let _ = actor
                    .send(MultiSet {
                        source,
                        docs,
                        ctx: None,
                        _marker: PhantomData::<Faulty<S>>,
                    })
                    .await;
            },
            4 | 5 => {
                let doc = DocumentMetadata::new(gen_id(&mut rng), gen_ts(&mut rng, base));
                desc = format!("del {ks:?} src={source} {:?} fail={fail}", doc);
                let _ = actor
                    .send(Del {
                        source,
                        doc,
                        _marker: PhantomData::<Faulty<S>>,
                    })
                    .await;
            },
            6 | 7 => {
                let n = rng.below(5);
                let docs: DocVec<DocumentMetadata> = (0..n)
                    .map(|_| DocumentMetadata::new(gen_id(&mut rng), gen_ts(&mut rng, base)))
                    .collect();
                desc = format!("mdel {ks:?} src={source} {:?} fail={fail}", docs);
                let _ = actor
                    .send(MultiDel {
                        source,
                        docs,
                        _marker: PhantomData::<Faulty<S>>,
                    })
                    .await;
            },
            _ => {
                desc = format!("purge {ks:?} fail={fail}");
                let _ = actor.send(PurgeDeletes(PhantomData::<Faulty<S>>)).await;
            },
        }
        store.fail_after.store(u64::MAX, Ordering::SeqCst);
        log.push(desc);

        for ks in kss.iter() {
            let sv = set_view(&group, ks).await;
            let tv = store_view(&*store, ks).await;
            if sv != tv {
                let tail = log.iter().rev().take(12).rev().cloned().collect::<Vec<_>>();
                panic!(
                    "seed {seed} step {step} ks {ks:?}: DISAGREE\nset   = {sv:?}\nstore = {tv:?}\nlog tail:\n{}",
                    tail.join("\n")
                );
            }
        }
    }
}

#[tokio::test]
async fn c02_fuzz_lmdb() {
    for seed in 1..(if std::env::var("BIG").is_ok() { 8u64 } else { 40u64 }) {
        let path = std::env::temp_dir().join(uuid::Uuid::new_v4().to_string());
        std::fs::create_dir_all(&path).unwrap();
        let store = datacake_lmdb::LmdbStorage::open(&path).await.unwrap();
        run(store, seed * 7919, 300).await;
        let _ = std::fs::remove_dir_all(&path);
    }
}
