use std::marker::PhantomData;
use std::sync::Arc;
use std::time::Duration;

use datacake_crdt::HLCTimestamp;
use datacake_eventual_consistency::verif::{KeyspaceGroup, Set, Del};
use datacake_eventual_consistency::{Document, DocumentMetadata, Storage};
use datacake_lmdb::LmdbStorage;
use datacake_node::Clock;

async fn try_name(name: &str) {
    let path = std::env::temp_dir().join(uuid::Uuid::new_v4().to_string());
    std::fs::create_dir_all(&path).unwrap();
    let store = Arc::new(LmdbStorage::open(&path).await.unwrap());
    let group = KeyspaceGroup::new(store.clone(), Clock::new(0)).await;
    let good = group.get_or_create_keyspace("good").await;
    let r = good.send(Set { source: 0, doc: Document::new(1, HLCTimestamp::new(Duration::from_secs(10000), 0, 1), vec![1]), ctx: None, _marker: PhantomData::<LmdbStorage> }).await;
    eprintln!("good put: {r:?}");
    let ks = group.get_or_create_keyspace(name).await;
    let r = ks.send(Set { source: 0, doc: Document::new(1, HLCTimestamp::new(Duration::from_secs(10000), 0, 1), vec![1]), ctx: None, _marker: PhantomData::<LmdbStorage> }).await;
    eprintln!("name len {} put: {r:?}", name.len());
    let r = ks.send(Del { source: 0, doc: DocumentMetadata::new(2, HLCTimestamp::new(Duration::from_secs(10001), 0, 1)), _marker: PhantomData::<LmdbStorage> }).await;
    eprintln!("name len {} del: {r:?}", name.len());
    let md = store.iter_metadata(name).await.map(|i| i.collect::<Vec<_>>());
    eprintln!("metadata: {md:?}");
    eprintln!("list: {:?}", store.get_keyspace_list().await);
    let r = good.send(Set { source: 0, doc: Document::new(2, HLCTimestamp::new(Duration::from_secs(10002), 0, 1), vec![1]), ctx: None, _marker: PhantomData::<LmdbStorage> }).await;
    eprintln!("good put after: {r:?}");
}

#[tokio::test]
async fn empty_name() { try_name("").await; }
#[tokio::test]
async fn long498() { try_name(&"x".repeat(498)).await; }
#[tokio::test]
async fn long499() { try_name(&"x".repeat(499)).await; }
#[tokio::test]
async fn long511() { try_name(&"x".repeat(511)).await; }
#[tokio::test]
async fn long600() { try_name(&"x".repeat(600)).await; }
#[tokio::test]
async fn nul_name() { try_name("a\0b").await; }
