//! C02, end to end through the public API of the cluster (the `verif` feature is used only
//! to move the wall clock the hybrid clocks read, and to read the node's replicated set the
//! way a peer does, with a `GetState` request).
//!
//! Node 1 keeps its data in an SQLite file. It is shut down and started again in the same
//! process over the same file, a client writes document 1, and within the hour the purge
//! task of the *first* instance of node 1 (which `shutdown()` + drop do not stop) deletes
//! the row of document 1: the set of the running node says "document 1 is live at t" and
//! its storage holds nothing.
//!
//! Run with:
//!   cargo test --offline -p datacake-sqlite \
//!       --features datacake-eventual-consistency/verif,tokio/test-util \
//!       --test c02_zombie_purge_cluster
use std::collections::BTreeMap;
use std::net::SocketAddr;
use std::path::Path;
use std::time::{Duration, Instant};

use datacake_crdt::{verif_clock, HLCTimestamp, Key, OrSWotSet};
use datacake_eventual_consistency::verif::ReplicationClient;
use datacake_eventual_consistency::{
    EventuallyConsistentStore,
    EventuallyConsistentStoreExtension,
};
use datacake_node::{
    ConnectionConfig,
    Consistency,
    DCAwareSelector,
    DatacakeNode,
    DatacakeNodeBuilder,
};
use datacake_sqlite::SqliteStorage;

static KEYSPACE: &str = "ks";
const HOUR_MS: u64 = 60 * 60 * 1000;
/// Some instant, 100 days after the datacake epoch.
const T0_MS: u64 = 100 * 24 * HOUR_MS;

type View = (BTreeMap<Key, HLCTimestamp>, BTreeMap<Key, HLCTimestamp>);

async fn start_node_1(
    addr: SocketAddr,
    seeds: Vec<String>,
    db: &Path,
) -> (DatacakeNode, EventuallyConsistentStore<SqliteStorage>) {
    let cfg = ConnectionConfig::new(addr, addr, seeds);
    let node = DatacakeNodeBuilder::<DCAwareSelector>::new(1, cfg)
        .connect()
        .await
        .expect("connect node 1");
    let storage = SqliteStorage::open(db).await.expect("open db");
    let store = node
        .add_extension(EventuallyConsistentStoreExtension::new(storage))
        .await
        .expect("create store of node 1");
    (node, store)
}

/// The replicated set of the node listening on `addr`, as its peers get to see it.
async fn set_view(node: &DatacakeNode, addr: SocketAddr) -> View {
    let channel = node.network().get_or_connect(addr);
    let mut client = ReplicationClient::<SqliteStorage>::new(node.clock().clone(), channel);
    let (_, set) = client.get_state(KEYSPACE).await.expect("get state");
    let (live, dead) = OrSWotSet::<2>::default().diff(&set);
    (live.into_iter().collect(), dead.into_iter().collect())
}

async fn store_view(store: &EventuallyConsistentStore<SqliteStorage>) -> View {
    let mut live = BTreeMap::new();
    let mut dead = BTreeMap::new();
    let entries = store.handle().iter_metadata(KEYSPACE).await.expect("metadata");
    for (id, ts, is_tombstone) in entries {
        if is_tombstone {
            dead.insert(id, ts);
        } else {
            live.insert(id, ts);
        }
    }
    (live, dead)
}

#[tokio::test]
async fn restarted_node_loses_a_document_to_its_previous_instance() {
    let _ = tracing_subscriber::fmt::try_init();
    let db = std::env::temp_dir().join(format!("c02-cluster-{}.db", uuid::Uuid::new_v4()));

    let addr_1 = test_helper::get_unused_addr();
    let addr_2 = test_helper::get_unused_addr();
    let addr_1_again = test_helper::get_unused_addr();

    // ---- Node 2 is up first: it writes document 1 and deletes it again, two hours later
    //      it writes document 3.
    verif_clock::set_wall_ms(Some(T0_MS));
    let node_2 = DatacakeNodeBuilder::<DCAwareSelector>::new(
        2,
        ConnectionConfig::new(addr_2, addr_2, vec![addr_1.to_string()]),
    )
    .connect()
    .await
    .expect("connect node 2");
    let store_2 = node_2
        .add_extension(EventuallyConsistentStoreExtension::new(
            SqliteStorage::open_in_memory().await.expect("open db of node 2"),
        ))
        .await
        .expect("create store of node 2");
    let handle_2 = store_2.handle_with_keyspace(KEYSPACE);

    handle_2.put(1, b"old".to_vec(), Consistency::None).await.expect("put 1");
    handle_2.del(1, Consistency::None).await.expect("del 1");
    verif_clock::set_wall_ms(Some(T0_MS + 2 * HOUR_MS));
    handle_2.put(3, b"three".to_vec(), Consistency::None).await.expect("put 3");

    // ---- Node 1 joins with an empty database and is brought up to date by the repair cycle.
    let (node_1, store_1) = start_node_1(addr_1, vec![addr_2.to_string()], &db).await;
    node_1.wait_for_nodes(&[2], Duration::from_secs(30)).await.expect("1 sees 2");
    node_2.wait_for_nodes(&[1], Duration::from_secs(30)).await.expect("2 sees 1");

    let deadline = Instant::now() + Duration::from_secs(60);
    loop {
        let (live, dead) = store_view(&store_1).await;
        if live.contains_key(&3) && dead.contains_key(&1) {
            break;
        }
        assert!(Instant::now() < deadline, "node 1 was not repaired in time");
        tokio::time::sleep(Duration::from_millis(250)).await;
    }

    // ---- Ordinary replicated traffic of node 2 reaches node 1.
    handle_2.put(2, b"two".to_vec(), Consistency::All).await.expect("put 2");
    assert_eq!(set_view(&node_1, addr_1).await, store_view(&store_1).await);
    assert!(
        store_view(&store_1).await.1.contains_key(&1),
        "node 1 still keeps the tombstone of document 1",
    );

    // ---- Node 1 is shut down, the application lets go of everything it holds ...
    drop(store_1);
    node_1.shutdown().await;
    tokio::time::sleep(Duration::from_millis(500)).await;

    // ---- ... and is started again over the same database.
    let (node_1, store_1) = start_node_1(addr_1_again, vec![], &db).await;
    tokio::time::sleep(Duration::from_millis(500)).await;
    let handle_1 = store_1.handle_with_keyspace(KEYSPACE);
    assert_eq!(set_view(&node_1, addr_1_again).await, store_view(&store_1).await);

    // A client writes document 1 again.
    handle_1
        .put(1, b"precious".to_vec(), Consistency::None)
        .await
        .expect("put 1 again");
    assert_eq!(set_view(&node_1, addr_1_again).await, store_view(&store_1).await);
    assert!(handle_1.get(1).await.unwrap().is_some());

    // ---- An hour passes for the timers of the runtime (the purge interval is one hour).
    tokio::time::pause();
    tokio::time::advance(Duration::from_secs(60 * 60 + 1)).await;
    tokio::time::resume();
    tokio::time::sleep(Duration::from_secs(1)).await;

    // Any further completed request, then the comparison the property asks for.
    handle_1.put(4, b"four".to_vec(), Consistency::None).await.expect("put 4");

    let set = set_view(&node_1, addr_1_again).await;
    let stored = store_view(&store_1).await;
    let doc_1 = handle_1.get(1).await.unwrap();
    verif_clock::set_wall_ms(None);

    assert_eq!(
        set, stored,
        "the set of the running node 1 (left) and its storage (right) disagree",
    );
    assert!(doc_1.is_some(), "document 1 was written successfully and never deleted");
}
