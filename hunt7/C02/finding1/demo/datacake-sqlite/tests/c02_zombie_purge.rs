//! C02: on each node the replicated set and the persisted store never disagree.
//!
//! A store instance that has been shut down and dropped is not really gone: the hourly
//! tombstone purge task of its `KeyspaceGroup` (spawned in `KeyspaceGroup::new`, never
//! stopped, not even by `EventuallyConsistentStore::drop`) keeps the old keyspace actors,
//! their frozen sets and the storage handle alive, and goes on issuing `remove_tombstones`
//! against the storage.  When the node is started again in the same process over the same
//! storage, the previous instance purges rows behind the back of the new instance: the new
//! instance's set and its storage disagree, and with the SQLite store a *live* document is
//! deleted.
//!
//! The two lives of the node are built exactly the way `EventuallyConsistentStore::create`
//! builds them (`KeyspaceGroup::new` + `load_states_from_storage`), requests are delivered
//! as the keyspace messages the consistency / repair paths deliver.
//!
//! Run with:
//!   cargo test --offline -p datacake-sqlite \
//!       --features datacake-eventual-consistency/verif,tokio/test-util \
//!       --test c02_zombie_purge
use std::collections::BTreeMap;
use std::marker::PhantomData;
use std::path::{Path, PathBuf};
use std::sync::Arc;
use std::time::Duration;

use datacake_crdt::{HLCTimestamp, Key, OrSWotSet};
use datacake_eventual_consistency::verif::{
    Del,
    KeyspaceGroup,
    Serialize,
    Set,
    CONSISTENCY_SOURCE_ID,
    READ_REPAIR_SOURCE_ID,
};
use datacake_eventual_consistency::{Document, DocumentMetadata, Storage};
use datacake_node::Clock;
use datacake_sqlite::SqliteStorage;

static KEYSPACE: &str = "ks";

/// (live ids with their stamps, tombstones with their stamps)
type View = (BTreeMap<Key, HLCTimestamp>, BTreeMap<Key, HLCTimestamp>);

fn ts(secs: u64, node: u8) -> HLCTimestamp {
    HLCTimestamp::new(Duration::from_secs(secs), 0, node)
}

async fn set_view(group: &KeyspaceGroup<SqliteStorage>) -> View {
    let keyspace = group.get_or_create_keyspace(KEYSPACE).await;
    let bytes = keyspace.send(Serialize).await.expect("serialize set");
    let set = OrSWotSet::<2>::from_bytes(&bytes).expect("deserialize set");
    // The diff of an empty set against `set` lists everything `set` holds.
    let (live, dead) = OrSWotSet::<2>::default().diff(&set);
    (live.into_iter().collect(), dead.into_iter().collect())
}

async fn store_view(store: &SqliteStorage) -> View {
    let mut live = BTreeMap::new();
    let mut dead = BTreeMap::new();
    for (id, ts, is_tombstone) in store.iter_metadata(KEYSPACE).await.expect("metadata") {
        if is_tombstone {
            dead.insert(id, ts);
        } else {
            live.insert(id, ts);
        }
    }
    (live, dead)
}

async fn put(group: &KeyspaceGroup<SqliteStorage>, source: usize, doc: Document) {
    group
        .get_or_create_keyspace(KEYSPACE)
        .await
        .send(Set {
            source,
            doc,
            ctx: None,
            _marker: PhantomData::<SqliteStorage>,
        })
        .await
        .expect("put");
}

async fn del(group: &KeyspaceGroup<SqliteStorage>, source: usize, id: Key, ts: HLCTimestamp) {
    group
        .get_or_create_keyspace(KEYSPACE)
        .await
        .send(Del {
            source,
            doc: DocumentMetadata::new(id, ts),
            _marker: PhantomData::<SqliteStorage>,
        })
        .await
        .expect("del");
}

/// What `EventuallyConsistentStore::create` does with the storage it is given.
async fn start_node(path: &Path) -> (Arc<SqliteStorage>, KeyspaceGroup<SqliteStorage>) {
    let store = Arc::new(SqliteStorage::open(path).await.expect("open db"));
    let group = KeyspaceGroup::new(store.clone(), Clock::new(1)).await;
    group
        .load_states_from_storage()
        .await
        .expect("load persisted state");
    // Every instance makes a purge pass right after start-up, let it finish so that it
    // does not interleave with the requests below.
    tokio::time::sleep(Duration::from_millis(200)).await;
    (store, group)
}

/// The first life of the node: node 2 wrote document 1 and deleted it again, later
/// traffic of node 2 was seen on both the consistency and the repair path, which makes
/// the tombstone older than the safe cut-off (purgeable at the next hourly purge).
/// Then the node goes away: everything the application holds is dropped.
async fn first_life(path: &Path) {
    let (store, group) = start_node(path).await;

    put(&group, CONSISTENCY_SOURCE_ID, Document::new(1, ts(10_000, 2), b"old".to_vec())).await;
    del(&group, CONSISTENCY_SOURCE_ID, 1, ts(10_001, 2)).await;
    put(&group, CONSISTENCY_SOURCE_ID, Document::new(2, ts(20_000, 2), b"two".to_vec())).await;
    put(&group, READ_REPAIR_SOURCE_ID, Document::new(3, ts(20_001, 2), b"three".to_vec())).await;

    assert_eq!(set_view(&group).await, store_view(&store).await);
    assert_eq!(
        store_view(&store).await.1,
        BTreeMap::from([(1, ts(10_001, 2))]),
        "the tombstone of document 1 is still there, no purge has happened yet",
    );

    drop(group);
    drop(store);
}

/// One hour passes for the timers of the runtime (the purge interval is one hour).
async fn an_hour_passes() {
    tokio::time::pause();
    tokio::time::advance(Duration::from_secs(60 * 60 + 1)).await;
    tokio::time::resume();
    // Whatever woke up gets the time to finish its work.
    tokio::time::sleep(Duration::from_millis(500)).await;
}

fn db_path() -> PathBuf {
    std::env::temp_dir().join(format!("c02-zombie-{}.db", uuid::Uuid::new_v4()))
}

#[tokio::test]
async fn live_document_of_the_restarted_node_is_deleted_by_the_previous_instance() {
    let path = db_path();
    first_life(&path).await;

    // The node starts again over the same database.
    let (store, group) = start_node(&path).await;
    assert_eq!(set_view(&group).await, store_view(&store).await);

    // A client writes document 1 again.
    put(&group, CONSISTENCY_SOURCE_ID, Document::new(1, ts(30_000, 1), b"precious".to_vec())).await;
    assert_eq!(set_view(&group).await, store_view(&store).await);
    assert!(store.get(KEYSPACE, 1).await.unwrap().is_some());

    an_hour_passes().await;

    // Any further completed request, then the comparison the property asks for.
    put(&group, CONSISTENCY_SOURCE_ID, Document::new(4, ts(30_001, 1), b"four".to_vec())).await;

    let set = set_view(&group).await;
    let stored = store_view(&store).await;
    assert_eq!(
        set, stored,
        "the set of the running node (left) and its storage (right) disagree",
    );
    assert!(
        store.get(KEYSPACE, 1).await.unwrap().is_some(),
        "document 1 was written successfully and never deleted",
    );
}

#[tokio::test]
async fn tombstone_of_the_restarted_node_is_removed_by_the_previous_instance() {
    let path = db_path();
    first_life(&path).await;

    let (store, group) = start_node(&path).await;
    assert_eq!(set_view(&group).await, store_view(&store).await);

    an_hour_passes().await;

    put(&group, CONSISTENCY_SOURCE_ID, Document::new(4, ts(30_001, 1), b"four".to_vec())).await;

    let set = set_view(&group).await;
    let stored = store_view(&store).await;
    assert_eq!(
        set, stored,
        "the set of the running node (left) and its storage (right) disagree",
    );
}

/// Control: the same history without the first instance lingering (the purge timers
/// never fire) keeps set and storage in agreement.
#[tokio::test]
async fn control_without_the_hour_passing() {
    let path = db_path();
    first_life(&path).await;

    let (store, group) = start_node(&path).await;
    put(&group, CONSISTENCY_SOURCE_ID, Document::new(1, ts(30_000, 1), b"precious".to_vec())).await;
    put(&group, CONSISTENCY_SOURCE_ID, Document::new(4, ts(30_001, 1), b"four".to_vec())).await;

    assert_eq!(set_view(&group).await, store_view(&store).await);
    assert!(store.get(KEYSPACE, 1).await.unwrap().is_some());
}
