//! C02, supporting evidence through the public API only.
//!
//! After `DatacakeNode::shutdown()` and after the `EventuallyConsistentStore` and every
//! handle have been dropped, the store instance is still at work: the purge task spawned
//! by `KeyspaceGroup::new` keeps the keyspace actors and the storage alive and, one hour
//! later (and every hour after that), calls `Storage::remove_tombstones` on the storage.
//! A node that is started again over the same storage therefore shares it with the
//! previous instance (see datacake-sqlite/tests/c02_zombie_purge.rs for what that does).
//!
//! Run with:
//!   cargo test --offline -p datacake-eventual-consistency \
//!       --features test-utils,tokio/test-util --test c02_store_outlives_shutdown
use std::sync::atomic::{AtomicBool, AtomicUsize, Ordering};
use std::sync::Arc;
use std::time::Duration;

use datacake_crdt::{HLCTimestamp, Key};
use datacake_eventual_consistency::test_utils::{MemStore, MemStoreError};
use datacake_eventual_consistency::{
    BulkMutationError,
    Document,
    DocumentMetadata,
    EventuallyConsistentStoreExtension,
    Storage,
};
use datacake_node::{ConnectionConfig, Consistency, DCAwareSelector, DatacakeNodeBuilder};

#[derive(Default, Clone)]
struct Probe {
    purge_calls: Arc<AtomicUsize>,
    dropped: Arc<AtomicBool>,
}

/// `MemStore`, plus a count of the `remove_tombstones` calls and a flag set on drop.
struct SpyStore {
    inner: MemStore,
    probe: Probe,
}

impl Drop for SpyStore {
    fn drop(&mut self) {
        self.probe.dropped.store(true, Ordering::SeqCst);
    }
}

#[async_trait::async_trait]
impl Storage for SpyStore {
    type Error = MemStoreError;
    type DocsIter = <MemStore as Storage>::DocsIter;
    type MetadataIter = <MemStore as Storage>::MetadataIter;

    async fn get_keyspace_list(&self) -> Result<Vec<String>, Self::Error> {
        self.inner.get_keyspace_list().await
    }

    async fn iter_metadata(
        &self,
        keyspace: &str,
    ) -> Result<Self::MetadataIter, Self::Error> {
        self.inner.iter_metadata(keyspace).await
    }

    async fn remove_tombstones(
        &self,
        keyspace: &str,
        keys: impl Iterator<Item = Key> + Send,
    ) -> Result<(), BulkMutationError<Self::Error>> {
        self.probe.purge_calls.fetch_add(1, Ordering::SeqCst);
        self.inner.remove_tombstones(keyspace, keys).await
    }

    async fn put(&self, keyspace: &str, document: Document) -> Result<(), Self::Error> {
        self.inner.put(keyspace, document).await
    }

    async fn multi_put(
        &self,
        keyspace: &str,
        documents: impl Iterator<Item = Document> + Send,
    ) -> Result<(), BulkMutationError<Self::Error>> {
        self.inner.multi_put(keyspace, documents).await
    }

    async fn mark_as_tombstone(
        &self,
        keyspace: &str,
        doc_id: Key,
        timestamp: HLCTimestamp,
    ) -> Result<(), Self::Error> {
        self.inner.mark_as_tombstone(keyspace, doc_id, timestamp).await
    }

    async fn mark_many_as_tombstone(
        &self,
        keyspace: &str,
        documents: impl Iterator<Item = DocumentMetadata> + Send,
    ) -> Result<(), BulkMutationError<Self::Error>> {
        self.inner.mark_many_as_tombstone(keyspace, documents).await
    }

    async fn get(
        &self,
        keyspace: &str,
        doc_id: Key,
    ) -> Result<Option<Document>, Self::Error> {
        self.inner.get(keyspace, doc_id).await
    }

    async fn multi_get(
        &self,
        keyspace: &str,
        doc_ids: impl Iterator<Item = Key> + Send,
    ) -> Result<Self::DocsIter, Self::Error> {
        self.inner.multi_get(keyspace, doc_ids).await
    }
}

#[tokio::test]
async fn a_shut_down_store_keeps_purging_its_storage() {
    let probe = Probe::default();

    let addr = test_helper::get_unused_addr();
    let connection_cfg = ConnectionConfig::new(addr, addr, Vec::<String>::new());
    let node = DatacakeNodeBuilder::<DCAwareSelector>::new(1, connection_cfg)
        .connect()
        .await
        .expect("connect node");
    let store = node
        .add_extension(EventuallyConsistentStoreExtension::new(SpyStore {
            inner: MemStore::default(),
            probe: probe.clone(),
        }))
        .await
        .expect("create store");

    let handle = store.handle();
    handle
        .put("ks", 1, b"hello".to_vec(), Consistency::All)
        .await
        .expect("put");
    handle.del("ks", 1, Consistency::All).await.expect("del");

    // Let the purge pass every store makes right after start-up finish.
    tokio::time::sleep(Duration::from_millis(500)).await;

    // The node goes away, the application lets go of everything it holds.
    drop(handle);
    drop(store);
    node.shutdown().await;
    tokio::time::sleep(Duration::from_millis(500)).await;

    let calls_at_shutdown = probe.purge_calls.load(Ordering::SeqCst);

    // One hour (the purge interval) passes for the timers of the runtime.
    tokio::time::pause();
    tokio::time::advance(Duration::from_secs(60 * 60 + 1)).await;
    tokio::time::resume();
    tokio::time::sleep(Duration::from_millis(500)).await;

    let calls_an_hour_later = probe.purge_calls.load(Ordering::SeqCst);

    assert_eq!(
        calls_an_hour_later, calls_at_shutdown,
        "the storage of a store that was shut down and dropped is still being purged",
    );
    assert!(
        probe.dropped.load(Ordering::SeqCst),
        "the storage of a store that was shut down and dropped is still alive",
    );
}
