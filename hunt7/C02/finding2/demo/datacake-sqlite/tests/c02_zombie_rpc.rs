//! C02, end to end through the public API of the cluster (the `verif` feature is used only
//! to read the node's replicated set the way a peer does, with a `GetState` request).
//!
//! `DatacakeNode::shutdown()` stops gossiping but leaves the RPC server of the node
//! listening (the server task is never aborted), and the consistency service registered
//! on it keeps the keyspace actors of the store alive.  A peer that has not yet noticed
//! that node 1 left keeps replicating to the old address, the *previous* instance of
//! node 1 applies the write to its own (frozen) set and to the storage.  Node 1 has been
//! started again in the same process over the same SQLite file: its storage now holds a
//! document its replicated set knows nothing about.
//!
//! Run with:
//!   cargo test --offline -p datacake-sqlite \
//!       --features datacake-eventual-consistency/verif --test c02_zombie_rpc
use std::collections::BTreeMap;
use std::net::SocketAddr;
use std::path::Path;
use std::time::Duration;

use datacake_crdt::{HLCTimestamp, Key, OrSWotSet};
use datacake_eventual_consistency::verif::ReplicationClient;
use datacake_eventual_consistency::{
    EventuallyConsistentStore,
    EventuallyConsistentStoreExtension,
};
use datacake_node::{
    ConnectionConfig,
    Consistency,
    DCAwareSelector,
    DatacakeNode,
    DatacakeNodeBuilder,
};
use datacake_sqlite::SqliteStorage;

static KEYSPACE: &str = "ks";

type View = (BTreeMap<Key, HLCTimestamp>, BTreeMap<Key, HLCTimestamp>);

async fn start_node_1(
    addr: SocketAddr,
    seeds: Vec<String>,
    db: &Path,
) -> (DatacakeNode, EventuallyConsistentStore<SqliteStorage>) {
    let cfg = ConnectionConfig::new(addr, addr, seeds);
    let node = DatacakeNodeBuilder::<DCAwareSelector>::new(1, cfg)
        .connect()
        .await
        .expect("connect node 1");
    let storage = SqliteStorage::open(db).await.expect("open db");
    let store = node
        .add_extension(EventuallyConsistentStoreExtension::new(storage))
        .await
        .expect("create store of node 1");
    (node, store)
}

/// The replicated set of the node listening on `addr`, as its peers get to see it.
async fn set_view(node: &DatacakeNode, addr: SocketAddr) -> View {
    let channel = node.network().get_or_connect(addr);
    let mut client = ReplicationClient::<SqliteStorage>::new(node.clock().clone(), channel);
    let (_, set) = client.get_state(KEYSPACE).await.expect("get state");
    let (live, dead) = OrSWotSet::<2>::default().diff(&set);
    (live.into_iter().collect(), dead.into_iter().collect())
}

async fn store_view(store: &EventuallyConsistentStore<SqliteStorage>) -> View {
    let mut live = BTreeMap::new();
    let mut dead = BTreeMap::new();
    let entries = store.handle().iter_metadata(KEYSPACE).await.expect("metadata");
    for (id, ts, is_tombstone) in entries {
        if is_tombstone {
            dead.insert(id, ts);
        } else {
            live.insert(id, ts);
        }
    }
    (live, dead)
}

#[tokio::test]
async fn a_peer_write_lands_in_the_storage_of_the_restarted_node_but_not_in_its_set() {
    scenario(false).await;
}

/// Same with a delete: the storage of the running node records a tombstone for a
/// document its set still lists as live (and `get` no longer returns).
#[tokio::test]
async fn a_peer_delete_lands_in_the_storage_of_the_restarted_node_but_not_in_its_set() {
    scenario(true).await;
}

async fn scenario(peer_deletes: bool) {
    let _ = tracing_subscriber::fmt::try_init();
    let db = std::env::temp_dir().join(format!("c02-rpc-{}.db", uuid::Uuid::new_v4()));

    let addr_1 = test_helper::get_unused_addr();
    let addr_2 = test_helper::get_unused_addr();
    // The address of the first instance stays bound after `shutdown()`, starting node 1
    // again on `addr_1` fails with `AddrInUse`.
    let addr_1_again = test_helper::get_unused_addr();

    let node_2 = DatacakeNodeBuilder::<DCAwareSelector>::new(
        2,
        ConnectionConfig::new(addr_2, addr_2, vec![addr_1.to_string()]),
    )
    .connect()
    .await
    .expect("connect node 2");
    let store_2 = node_2
        .add_extension(EventuallyConsistentStoreExtension::new(
            SqliteStorage::open_in_memory().await.expect("open db of node 2"),
        ))
        .await
        .expect("create store of node 2");
    let handle_2 = store_2.handle_with_keyspace(KEYSPACE);

    let (node_1, store_1) = start_node_1(addr_1, vec![addr_2.to_string()], &db).await;
    node_1.wait_for_nodes(&[2], Duration::from_secs(30)).await.expect("1 sees 2");
    node_2.wait_for_nodes(&[1], Duration::from_secs(30)).await.expect("2 sees 1");

    handle_2.put(1, b"one".to_vec(), Consistency::All).await.expect("put 1");
    assert_eq!(set_view(&node_1, addr_1).await, store_view(&store_1).await);

    // ---- Node 1 is shut down, the application lets go of everything it holds ...
    drop(store_1);
    node_1.shutdown().await;

    // ---- ... and is started again over the same database.
    let (node_1, store_1) = start_node_1(addr_1_again, vec![], &db).await;
    let handle_1 = store_1.handle_with_keyspace(KEYSPACE);
    assert_eq!(set_view(&node_1, addr_1_again).await, store_view(&store_1).await);

    // ---- Node 2 has not noticed yet that node 1 went away and replicates a write to it.
    if peer_deletes {
        handle_2
            .del(1, Consistency::All)
            .await
            .expect("the delete is acknowledged by every replica, node 1 included");
    } else {
        handle_2
            .put(5, b"five".to_vec(), Consistency::All)
            .await
            .expect("the write is acknowledged by every replica, node 1 included");
    }

    // Any further completed request on node 1, then the comparison the property asks for.
    handle_1.put(4, b"four".to_vec(), Consistency::None).await.expect("put 4");

    let set = set_view(&node_1, addr_1_again).await;
    let stored = store_view(&store_1).await;
    assert_eq!(
        set, stored,
        "the set of the running node 1 (left) and its storage (right) disagree",
    );
}
