//! C06: "If fewer acknowledged, the call returns a consistency error stating how many did,
//! and the local write is still in place and still replicated later."
//!
//! A replica which never answers (here: its storage call never completes - the fault the
//! deadline in `handle_consistency_distribution` was added for) makes the write fail its
//! consistency level after 2 s, as it should. But the same silent replica also parks the two
//! background mechanisms which are supposed to replicate that write "later":
//!
//! * the issuer's task distributor (`replication/distributor.rs::execute_batch`) joins the
//!   `apply_batch` call to every live member without any deadline: the first batch sent to the
//!   silent replica never completes and no later batch is ever built, and
//! * the anti-entropy poller of every other node (`replication/poller.rs::check_node_changes`
//!   / `get_keyspace_diff`) awaits `get_state` of the silent replica without any deadline and
//!   never reaches the next member (or the next tick) again.
//!
//! So the second write that fails its level is never replicated to a perfectly healthy,
//! live replica.
//!
//! Cluster: node 1 (issuer, dc "a"), node 2 (healthy, dc "a"), node 3 (silent, dc "b").
//! `Consistency::One` issued on node 1 deterministically selects node 3 (the selector
//! prefers the other data centre), node 2 is never asked directly.
use std::sync::atomic::{AtomicU8, Ordering};
use std::sync::Arc;
use std::time::{Duration, Instant};

use datacake_crdt::{HLCTimestamp, Key};
use datacake_eventual_consistency::test_utils::{MemStore, MemStoreError};
use datacake_eventual_consistency::{
    BulkMutationError,
    Document,
    DocumentMetadata,
    EventuallyConsistentStore,
    EventuallyConsistentStoreExtension,
    Storage,
    StoreError,
};
use datacake_node::{
    ConnectionConfig,
    Consistency,
    ConsistencyError,
    DCAwareSelector,
    DatacakeNode,
    DatacakeNodeBuilder,
};

const HEALTHY: u8 = 0;
/// Every mutation fails immediately with an error.
const FAILING: u8 = 1;
/// Every mutation never completes (hung disk).
const SILENT: u8 = 2;

/// A `MemStore` whose mutations can be made to fail or to never complete.
#[derive(Clone)]
struct FaultyStore {
    inner: Arc<MemStore>,
    mode: Arc<AtomicU8>,
}

impl FaultyStore {
    fn new() -> Self {
        Self {
            inner: Arc::new(MemStore::default()),
            mode: Arc::new(AtomicU8::new(HEALTHY)),
        }
    }

    async fn gate(&self) -> Result<(), MemStoreError> {
        match self.mode.load(Ordering::SeqCst) {
            FAILING => Err(MemStoreError(anyhow::anyhow!("injected storage fault"))),
            SILENT => std::future::pending().await,
            _ => Ok(()),
        }
    }
}

#[async_trait::async_trait]
impl Storage for FaultyStore {
    type Error = MemStoreError;
    type DocsIter = <MemStore as Storage>::DocsIter;
    type MetadataIter = <MemStore as Storage>::MetadataIter;

    async fn get_keyspace_list(&self) -> Result<Vec<String>, Self::Error> {
        self.inner.get_keyspace_list().await
    }

    async fn iter_metadata(
        &self,
        keyspace: &str,
    ) -> Result<Self::MetadataIter, Self::Error> {
        self.inner.iter_metadata(keyspace).await
    }

    async fn remove_tombstones(
        &self,
        keyspace: &str,
        keys: impl Iterator<Item = Key> + Send,
    ) -> Result<(), BulkMutationError<Self::Error>> {
        self.inner.remove_tombstones(keyspace, keys).await
    }

    async fn put(&self, keyspace: &str, document: Document) -> Result<(), Self::Error> {
        self.gate().await?;
        self.inner.put(keyspace, document).await
    }

    async fn multi_put(
        &self,
        keyspace: &str,
        documents: impl Iterator<Item = Document> + Send,
    ) -> Result<(), BulkMutationError<Self::Error>> {
        let docs = documents.collect::<Vec<_>>();
        self.gate()
            .await
            .map_err(BulkMutationError::empty_with_error)?;
        self.inner.multi_put(keyspace, docs.into_iter()).await
    }

    async fn mark_as_tombstone(
        &self,
        keyspace: &str,
        doc_id: Key,
        timestamp: HLCTimestamp,
    ) -> Result<(), Self::Error> {
        self.gate().await?;
        self.inner
            .mark_as_tombstone(keyspace, doc_id, timestamp)
            .await
    }

    async fn mark_many_as_tombstone(
        &self,
        keyspace: &str,
        documents: impl Iterator<Item = DocumentMetadata> + Send,
    ) -> Result<(), BulkMutationError<Self::Error>> {
        let docs = documents.collect::<Vec<_>>();
        self.gate()
            .await
            .map_err(BulkMutationError::empty_with_error)?;
        self.inner
            .mark_many_as_tombstone(keyspace, docs.into_iter())
            .await
    }

    async fn get(
        &self,
        keyspace: &str,
        doc_id: Key,
    ) -> Result<Option<Document>, Self::Error> {
        self.inner.get(keyspace, doc_id).await
    }

    async fn multi_get(
        &self,
        keyspace: &str,
        doc_ids: impl Iterator<Item = Key> + Send,
    ) -> Result<Self::DocsIter, Self::Error> {
        self.inner.multi_get(keyspace, doc_ids).await
    }
}

struct TestNode {
    node: DatacakeNode,
    store: EventuallyConsistentStore<FaultyStore>,
    storage: FaultyStore,
}

async fn cluster(layout: &[&str]) -> Vec<TestNode> {
    let addrs = layout
        .iter()
        .map(|_| test_helper::get_unused_addr())
        .collect::<Vec<_>>();

    let mut nodes = Vec::new();
    for (i, dc) in layout.iter().enumerate() {
        let seeds = addrs
            .iter()
            .enumerate()
            .filter(|(j, _)| *j != i)
            .map(|(_, a)| a.to_string())
            .collect::<Vec<_>>();
        let cfg = ConnectionConfig::new(addrs[i], addrs[i], seeds);
        let node = DatacakeNodeBuilder::<DCAwareSelector>::new((i + 1) as u8, cfg)
            .with_data_center(dc)
            .connect()
            .await
            .expect("connect node");
        nodes.push(node);
    }

    let ids = (1..=layout.len() as u8).collect::<Vec<_>>();
    for node in nodes.iter() {
        node.wait_for_nodes(&ids, Duration::from_secs(60))
            .await
            .expect("nodes should find each other");
    }

    let mut out = Vec::new();
    for node in nodes {
        let storage = FaultyStore::new();
        let store = node
            .add_extension(EventuallyConsistentStoreExtension::new(storage.clone()))
            .await
            .expect("create store");
        out.push(TestNode {
            node,
            store,
            storage,
        });
    }

    // The node selector is fed asynchronously, wait until it knows everybody.
    for n in out.iter() {
        let mut seen = 0;
        for _ in 0..200 {
            seen = n.node.select_nodes(Consistency::All).await.unwrap().len();
            if seen == layout.len() - 1 {
                break;
            }
            tokio::time::sleep(Duration::from_millis(50)).await;
        }
        assert_eq!(seen, layout.len() - 1, "selector knows every other member");
    }

    // Let every poller and distributor pick up the membership (first tick).
    tokio::time::sleep(Duration::from_secs(2)).await;

    out
}

/// Polls the raw storage of `node` until it holds document `id`, returns how long it took.
async fn wait_for_doc(node: &TestNode, id: Key, limit: Duration) -> Option<Duration> {
    let start = Instant::now();
    while start.elapsed() < limit {
        if node.storage.inner.get("ks", id).await.unwrap().is_some() {
            return Some(start.elapsed());
        }
        tokio::time::sleep(Duration::from_millis(100)).await;
    }
    None
}

/// Issues `put(id)` at `Consistency::One` on node 1 and checks that it fails its level
/// (0 of 1 acknowledged) with the local write in place.
async fn failing_write(nodes: &[TestNode], id: Key) {
    let issuer = &nodes[0];
    let bad = &nodes[2];

    let selected = issuer.node.select_nodes(Consistency::One).await.unwrap();
    assert_eq!(
        selected.as_slice(),
        &[bad.node.me().public_addr],
        "Consistency::One on node 1 selects the node of the other data centre",
    );

    let start = Instant::now();
    let res = issuer
        .store
        .handle()
        .put("ks", id, format!("doc-{id}").into_bytes(), Consistency::One)
        .await;
    println!("put({id}) at One returned {res:?} after {:?}", start.elapsed());

    match res {
        Err(StoreError::ConsistencyError(ConsistencyError::ConsistencyFailure {
            responses,
            required,
            ..
        })) => {
            assert_eq!((responses, required), (0, 1));
        },
        other => panic!("expected a consistency failure, got {other:?}"),
    }

    assert!(
        issuer.storage.inner.get("ks", id).await.unwrap().is_some(),
        "the local write is in place",
    );
}

async fn scenario(fault: u8) {
    let _ = tracing_subscriber::fmt::try_init();

    let nodes = cluster(&["a", "a", "b"]).await;
    let healthy = &nodes[1];

    // Node 3 stops acknowledging.
    nodes[2].storage.mode.store(fault, Ordering::SeqCst);

    // First write which fails its level: node 2 gets it "later" (about a second).
    failing_write(&nodes, 1).await;
    let took = wait_for_doc(healthy, 1, Duration::from_secs(20)).await;
    println!("write 1 reached the healthy node 2 after {took:?}");
    assert!(
        took.is_some(),
        "write 1 failed its level and was not replicated to healthy node 2 within 20 s",
    );

    tokio::time::sleep(Duration::from_secs(3)).await;

    // Second write which fails its level in exactly the same way.
    failing_write(&nodes, 2).await;
    let took = wait_for_doc(healthy, 2, Duration::from_secs(30)).await;
    println!("write 2 reached the healthy node 2 after {took:?}");
    assert!(
        took.is_some(),
        "write 2 failed its level (0 of 1 acknowledged), the local write is in place, but it \
         was NOT replicated to the healthy, live node 2 within 30 s (batching interval 1 s, \
         repair interval 1 s): the silent replica blocks the distributor of node 1 and the \
         poller of node 2 for ever",
    );

    for n in nodes {
        n.node.shutdown().await;
    }
}

/// Control: the replica answers every request with an error. Both failed writes reach the
/// healthy node within a second or two.
#[tokio::test(flavor = "multi_thread", worker_threads = 4)]
async fn control_erroring_replica_does_not_block_later_replication() {
    scenario(FAILING).await;
}

/// The replica never answers (its storage call never completes).
#[tokio::test(flavor = "multi_thread", worker_threads = 4)]
async fn silent_replica_does_not_block_later_replication() {
    scenario(SILENT).await;
}
