use std::time::Duration;

use datacake_eventual_consistency::{EventuallyConsistentStoreExtension, Storage};
use datacake_node::{
    ConnectionConfig,
    Consistency,
    DCAwareSelector,
    DatacakeNodeBuilder,
};

async fn run<S: Storage>(s1: S, s2: S)
where
    S::Error: std::fmt::Debug,
{
    let a1 = test_helper::get_unused_addr();
    let a2 = test_helper::get_unused_addr();
    let n1 = DatacakeNodeBuilder::<DCAwareSelector>::new(
        1,
        ConnectionConfig::new(a1, a1, [a2.to_string()]),
    )
    .connect()
    .await
    .unwrap();
    let n2 = DatacakeNodeBuilder::<DCAwareSelector>::new(
        2,
        ConnectionConfig::new(a2, a2, [a1.to_string()]),
    )
    .connect()
    .await
    .unwrap();
    n1.wait_for_nodes(&[2], Duration::from_secs(30)).await.unwrap();
    n2.wait_for_nodes(&[1], Duration::from_secs(30)).await.unwrap();
    let st1 = n1.add_extension(EventuallyConsistentStoreExtension::new(s1)).await.unwrap();
    let st2 = n2.add_extension(EventuallyConsistentStoreExtension::new(s2)).await.unwrap();
    for _ in 0..100 {
        if n1.select_nodes(Consistency::All).await.unwrap().len() == 1 {
            break;
        }
        tokio::time::sleep(Duration::from_millis(50)).await;
    }
    let h1 = st1.handle();
    let h2 = st2.handle();
    let mut problems = Vec::new();

    let ids = [0u64, 1, (1 << 63) - 1, 1 << 63, u64::MAX];
    let keyspaces = ["ks", "with space", "üñí-✓", "a/b\\c", "x-kv", "x-meta", "x"];
    for ks in keyspaces {
        for id in ids {
            // del of something never written
            let r = h1.del(ks, id, Consistency::All).await;
            if let Err(e) = &r {
                problems.push(format!("ks {ks:?} id {id}: del-never-written failed {e}"));
            }
            for (who, h) in [(1, &h1), (2, &h2)] {
                let meta = h.iter_metadata(ks).await.unwrap().collect::<Vec<_>>();
                if r.is_ok() && !meta.iter().any(|(k, _, t)| *k == id && *t) {
                    problems.push(format!("ks {ks:?} id {id}: node {who} has no tombstone after del of never written doc; meta {meta:?}"));
                }
            }
            for data in [Vec::new(), b"x".to_vec(), vec![7u8; 300_000]] {
                let r = h1.put(ks, id, data.clone(), Consistency::All).await;
                if let Err(e) = &r {
                    problems.push(format!("ks {ks:?} id {id} len {}: put failed {e}", data.len()));
                    continue;
                }
                for (who, h) in [(1, &h1), (2, &h2)] {
                    match h.get(ks, id).await.unwrap() {
                        Some(doc) if doc.data() == data.as_slice() && doc.id() == id => {},
                        other => problems.push(format!(
                            "ks {ks:?} id {id} len {}: node {who} reads {:?} after put Ok",
                            data.len(),
                            other.map(|d| (d.id(), d.data().len()))
                        )),
                    }
                    let meta = h.iter_metadata(ks).await.unwrap().collect::<Vec<_>>();
                    if !meta.iter().any(|(k, _, t)| *k == id && !*t) {
                        problems.push(format!("ks {ks:?} id {id}: node {who} metadata wrong after put: {meta:?}"));
                    }
                    let many = h.get_many(ks, [id]).await.unwrap().collect::<Vec<_>>();
                    if many.len() != 1 || many[0].data() != data.as_slice() {
                        problems.push(format!("ks {ks:?} id {id}: node {who} get_many wrong after put"));
                    }
                }
            }
            let r = h1.del(ks, id, Consistency::All).await;
            if let Err(e) = &r {
                problems.push(format!("ks {ks:?} id {id}: del failed {e}"));
            }
            for (who, h) in [(1, &h1), (2, &h2)] {
                if h.get(ks, id).await.unwrap().is_some() {
                    problems.push(format!("ks {ks:?} id {id}: node {who} still reads doc after del Ok"));
                }
                let meta = h.iter_metadata(ks).await.unwrap().collect::<Vec<_>>();
                if !meta.iter().any(|(k, _, t)| *k == id && *t) {
                    problems.push(format!("ks {ks:?} id {id}: node {who} no tombstone after del: {meta:?}"));
                }
            }
        }
        // bulk with duplicates
        let r = h1
            .put_many(
                ks,
                [(5u64, b"first".to_vec()), (6, b"six".to_vec()), (5, b"second".to_vec()), (u64::MAX, b"max".to_vec())],
                Consistency::All,
            )
            .await;
        if let Err(e) = &r {
            problems.push(format!("ks {ks:?}: put_many failed {e}"));
        } else {
            let d1 = h1.get(ks, 5).await.unwrap().map(|d| d.data().to_vec());
            let d2 = h2.get(ks, 5).await.unwrap().map(|d| d.data().to_vec());
            if d1 != d2 || d1.is_none() {
                problems.push(format!("ks {ks:?}: dup put_many: node1 {d1:?} node2 {d2:?}"));
            }
            for id in [6u64, u64::MAX] {
                if h2.get(ks, id).await.unwrap().is_none() {
                    problems.push(format!("ks {ks:?}: put_many doc {id} missing on node 2"));
                }
            }
        }
        let r = h1.del_many(ks, [5u64, 5, u64::MAX, 77], Consistency::All).await;
        if let Err(e) = &r {
            problems.push(format!("ks {ks:?}: del_many failed {e}"));
        } else {
            for (who, h) in [(1, &h1), (2, &h2)] {
                let meta = h.iter_metadata(ks).await.unwrap().collect::<Vec<_>>();
                for id in [5u64, u64::MAX, 77] {
                    if h.get(ks, id).await.unwrap().is_some() {
                        problems.push(format!("ks {ks:?}: node {who} reads {id} after del_many"));
                    }
                    if !meta.iter().any(|(k, _, t)| *k == id && *t) {
                        problems.push(format!("ks {ks:?}: node {who} no tombstone for {id} after del_many"));
                    }
                }
                if h.get(ks, 6).await.unwrap().is_none() {
                    problems.push(format!("ks {ks:?}: node {who} lost doc 6"));
                }
            }
        }
    }

    for p in &problems {
        println!("PROBLEM: {p}");
    }
    n1.shutdown().await;
    n2.shutdown().await;
    assert!(problems.is_empty(), "{} problems", problems.len());
}

#[tokio::test(flavor = "multi_thread", worker_threads = 4)]
async fn c06_lmdb_layers() {
    let d1 = std::env::temp_dir().join(uuid::Uuid::new_v4().to_string());
    let d2 = std::env::temp_dir().join(uuid::Uuid::new_v4().to_string());
    std::fs::create_dir_all(&d1).unwrap();
    std::fs::create_dir_all(&d2).unwrap();
    let s1 = datacake_lmdb::LmdbStorage::open(&d1).await.unwrap();
    let s2 = datacake_lmdb::LmdbStorage::open(&d2).await.unwrap();
    run(s1, s2).await;
    let _ = std::fs::remove_dir_all(d1);
    let _ = std::fs::remove_dir_all(d2);
}
