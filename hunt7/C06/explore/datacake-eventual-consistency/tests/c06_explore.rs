//! Exploration harness for C06 (scratch, removed at the end).
use std::collections::BTreeMap;
use std::sync::atomic::{AtomicBool, AtomicU64, Ordering};
use std::sync::Arc;
use std::time::Duration;

use datacake_crdt::{HLCTimestamp, Key};
use datacake_eventual_consistency::test_utils::{MemStore, MemStoreError};
use datacake_eventual_consistency::{
    BulkMutationError,
    Document,
    DocumentMetadata,
    EventuallyConsistentStore,
    EventuallyConsistentStoreExtension,
    Storage,
    StoreError,
};
use datacake_node::{
    ConnectionConfig,
    Consistency,
    ConsistencyError,
    DCAwareSelector,
    DatacakeNode,
    DatacakeNodeBuilder,
};

/// A MemStore whose mutations can be made to fail / stall.
#[derive(Clone)]
pub struct Flaky {
    inner: Arc<MemStore>,
    fail: Arc<AtomicBool>,
    stall_ms: Arc<AtomicU64>,
}

impl Flaky {
    fn new() -> Self {
        Self {
            inner: Arc::new(MemStore::default()),
            fail: Arc::new(AtomicBool::new(false)),
            stall_ms: Arc::new(AtomicU64::new(0)),
        }
    }

    async fn gate(&self) -> Result<(), MemStoreError> {
        let ms = self.stall_ms.load(Ordering::SeqCst);
        if ms > 0 {
            tokio::time::sleep(Duration::from_millis(ms)).await;
        }
        if self.fail.load(Ordering::SeqCst) {
            return Err(MemStoreError(anyhow::anyhow!("injected storage fault")));
        }
        Ok(())
    }
}

#[async_trait::async_trait]
impl Storage for Flaky {
    type Error = MemStoreError;
    type DocsIter = <MemStore as Storage>::DocsIter;
    type MetadataIter = <MemStore as Storage>::MetadataIter;

    async fn get_keyspace_list(&self) -> Result<Vec<String>, Self::Error> {
        self.inner.get_keyspace_list().await
    }

    async fn iter_metadata(
        &self,
        keyspace: &str,
    ) -> Result<Self::MetadataIter, Self::Error> {
        self.inner.iter_metadata(keyspace).await
    }

    async fn remove_tombstones(
        &self,
        keyspace: &str,
        keys: impl Iterator<Item = Key> + Send,
    ) -> Result<(), BulkMutationError<Self::Error>> {
        self.inner.remove_tombstones(keyspace, keys).await
    }

    async fn put(&self, keyspace: &str, document: Document) -> Result<(), Self::Error> {
        self.gate().await?;
        self.inner.put(keyspace, document).await
    }

    async fn multi_put(
        &self,
        keyspace: &str,
        documents: impl Iterator<Item = Document> + Send,
    ) -> Result<(), BulkMutationError<Self::Error>> {
        let docs = documents.collect::<Vec<_>>();
        self.gate()
            .await
            .map_err(BulkMutationError::empty_with_error)?;
        self.inner.multi_put(keyspace, docs.into_iter()).await
    }

    async fn mark_as_tombstone(
        &self,
        keyspace: &str,
        doc_id: Key,
        timestamp: HLCTimestamp,
    ) -> Result<(), Self::Error> {
        self.gate().await?;
        self.inner.mark_as_tombstone(keyspace, doc_id, timestamp).await
    }

    async fn mark_many_as_tombstone(
        &self,
        keyspace: &str,
        documents: impl Iterator<Item = DocumentMetadata> + Send,
    ) -> Result<(), BulkMutationError<Self::Error>> {
        let docs = documents.collect::<Vec<_>>();
        self.gate()
            .await
            .map_err(BulkMutationError::empty_with_error)?;
        self.inner
            .mark_many_as_tombstone(keyspace, docs.into_iter())
            .await
    }

    async fn get(
        &self,
        keyspace: &str,
        doc_id: Key,
    ) -> Result<Option<Document>, Self::Error> {
        self.inner.get(keyspace, doc_id).await
    }

    async fn multi_get(
        &self,
        keyspace: &str,
        doc_ids: impl Iterator<Item = Key> + Send,
    ) -> Result<Self::DocsIter, Self::Error> {
        self.inner.multi_get(keyspace, doc_ids).await
    }
}

pub struct TestNode {
    pub id: u8,
    pub dc: String,
    pub node: DatacakeNode,
    pub store: EventuallyConsistentStore<Flaky>,
    pub flaky: Flaky,
}

/// Starts a cluster, `layout[i]` is the data centre of node `i + 1`.
pub async fn cluster(layout: &[&str]) -> Vec<TestNode> {
    let addrs = layout
        .iter()
        .map(|_| test_helper::get_unused_addr())
        .collect::<Vec<_>>();

    let mut nodes = Vec::new();
    for (i, dc) in layout.iter().enumerate() {
        let seeds = addrs
            .iter()
            .enumerate()
            .filter(|(j, _)| *j != i)
            .map(|(_, a)| a.to_string())
            .collect::<Vec<_>>();
        let cfg = ConnectionConfig::new(addrs[i], addrs[i], seeds);
        let node = DatacakeNodeBuilder::<DCAwareSelector>::new((i + 1) as u8, cfg)
            .with_data_center(dc)
            .connect()
            .await
            .expect("connect");
        nodes.push(node);
    }

    let ids = (1..=layout.len() as u8).collect::<Vec<_>>();
    for node in nodes.iter() {
        node.wait_for_nodes(&ids, Duration::from_secs(60))
            .await
            .expect("nodes connect");
    }

    let mut out = Vec::new();
    for (i, node) in nodes.into_iter().enumerate() {
        let flaky = Flaky::new();
        let store = node
            .add_extension(EventuallyConsistentStoreExtension::new(flaky.clone()))
            .await
            .expect("ext");
        out.push(TestNode {
            id: (i + 1) as u8,
            dc: layout[i].to_string(),
            node,
            store,
            flaky,
        });
    }

    // The selector is fed asynchronously, wait until `All` sees everybody.
    for n in out.iter() {
        for _ in 0..200 {
            let sel = n.node.select_nodes(Consistency::All).await.unwrap();
            if sel.len() == layout.len() - 1 {
                break;
            }
            tokio::time::sleep(Duration::from_millis(50)).await;
        }
    }

    out
}

pub const LEVELS: [Consistency; 8] = [
    Consistency::None,
    Consistency::One,
    Consistency::Two,
    Consistency::Three,
    Consistency::Quorum,
    Consistency::LocalQuorum,
    Consistency::All,
    Consistency::EachQuorum,
];

/// Number of other nodes level requires, `None` if it cannot be met.
pub fn required(level: Consistency, issuer: usize, layout: &[&str]) -> Option<usize> {
    let n = layout.len();
    let local = layout.iter().filter(|d| **d == layout[issuer]).count();
    match level {
        Consistency::None => Some(0),
        Consistency::One => (n > 1).then_some(1),
        Consistency::Two => (n > 2).then_some(2),
        Consistency::Three => (n > 3).then_some(3),
        Consistency::Quorum => Some(n / 2),
        Consistency::LocalQuorum => Some(local / 2),
        Consistency::All => Some(n - 1),
        Consistency::EachQuorum => {
            let mut per_dc = BTreeMap::<&str, usize>::new();
            for d in layout {
                *per_dc.entry(d).or_default() += 1;
            }
            let mut total = 0;
            for (dc, count) in per_dc {
                if dc == layout[issuer] {
                    total += count / 2;
                } else {
                    total += count / 2 + 1;
                }
            }
            Some(total)
        },
    }
}

async fn holders(nodes: &[TestNode], ks: &str, id: Key, data: &[u8]) -> Vec<usize> {
    let mut out = Vec::new();
    for (i, n) in nodes.iter().enumerate() {
        if let Some(doc) = n.flaky.inner.get(ks, id).await.unwrap() {
            if doc.data() == data {
                out.push(i);
            }
        }
    }
    out
}

async fn tombstoned(nodes: &[TestNode], ks: &str, id: Key) -> Vec<usize> {
    let mut out = Vec::new();
    for (i, n) in nodes.iter().enumerate() {
        let meta = n.flaky.inner.iter_metadata(ks).await.unwrap();
        for (k, _, tomb) in meta {
            if k == id && tomb {
                out.push(i);
            }
        }
    }
    out
}

async fn run_layout(layout: &[&str]) {
    let nodes = cluster(layout).await;
    let n = nodes.len();
    let mut next_id: u64 = 1;
    let mut problems = Vec::new();

    for issuer in 0..n {
        let handle = nodes[issuer].store.handle();
        for level in LEVELS {
            let req = required(level, issuer, layout);

            // Healthy run, single put.
            let id = next_id;
            next_id += 1;
            let data = format!("doc-{id}").into_bytes();
            let res = handle.put("ks", id, data.clone(), level).await;
            let have = holders(&nodes, "ks", id, &data).await;
            let others = have.iter().filter(|i| **i != issuer).count();
            match (&res, req) {
                (Ok(()), Some(r)) => {
                    if !have.contains(&issuer) || others < r {
                        problems.push(format!(
                            "layout {layout:?} issuer {issuer} {level:?}: Ok but holders {have:?} required {r}"
                        ));
                    }
                    // dc checks
                    if matches!(level, Consistency::LocalQuorum) {
                        let local_others = have
                            .iter()
                            .filter(|i| **i != issuer && layout[**i] == layout[issuer])
                            .count();
                        if local_others < r {
                            problems.push(format!(
                                "layout {layout:?} issuer {issuer} {level:?}: local others {local_others} < {r}, holders {have:?}"
                            ));
                        }
                    }
                    if matches!(level, Consistency::EachQuorum) {
                        let mut per_dc = BTreeMap::<&str, (usize, usize)>::new();
                        for (i, d) in layout.iter().enumerate() {
                            let e = per_dc.entry(d).or_default();
                            e.0 += 1;
                            if have.contains(&i) {
                                e.1 += 1;
                            }
                        }
                        for (dc, (total, got)) in per_dc {
                            if got < total / 2 + 1 {
                                problems.push(format!(
                                    "layout {layout:?} issuer {issuer} {level:?}: dc {dc} has {got}/{total}, holders {have:?}"
                                ));
                            }
                        }
                    }
                },
                (Ok(()), None) => problems.push(format!(
                    "layout {layout:?} issuer {issuer} {level:?}: Ok but level cannot be met"
                )),
                (Err(e), Some(r)) => problems.push(format!(
                    "layout {layout:?} issuer {issuer} {level:?}: healthy cluster, required {r} but Err {e}"
                )),
                (Err(_), None) => {},
            }
        }
    }

    for p in &problems {
        println!("PROBLEM: {p}");
    }
    for n in nodes {
        n.node.shutdown().await;
    }
    assert!(problems.is_empty(), "{} problems", problems.len());
}

#[tokio::test(flavor = "multi_thread", worker_threads = 4)]
async fn layout_single_dc_3() {
    run_layout(&["a", "a", "a"]).await;
}

#[tokio::test(flavor = "multi_thread", worker_threads = 4)]
async fn layout_2_2_1() {
    run_layout(&["a", "a", "b", "b", "c"]).await;
}

#[tokio::test(flavor = "multi_thread", worker_threads = 4)]
async fn layout_1_3() {
    run_layout(&["a", "b", "b", "b"]).await;
}

#[tokio::test(flavor = "multi_thread", worker_threads = 4)]
async fn layout_4_1_1() {
    run_layout(&["a", "a", "a", "a", "b", "c"]).await;
}

async fn run_faults(layout: &[&str], issuer: usize) {
    let nodes = cluster(layout).await;
    let n = nodes.len();
    let mut next_id: u64 = 1000;
    let mut problems = Vec::new();
    let handle = nodes[issuer].store.handle();
    let others = (0..n).filter(|i| *i != issuer).collect::<Vec<_>>();

    for level in LEVELS {
        let req = match required(level, issuer, layout) {
            Some(r) => r,
            None => continue,
        };
        for mask in 0u32..(1 << others.len()) {
            let failing = others
                .iter()
                .enumerate()
                .filter(|(b, _)| mask & (1 << b) != 0)
                .map(|(_, i)| *i)
                .collect::<Vec<_>>();
            for i in 0..n {
                nodes[i].flaky.fail.store(failing.contains(&i), Ordering::SeqCst);
            }
            let selected = nodes[issuer].node.select_nodes(level).await.unwrap();

            for op in 0..4 {
                let id = next_id;
                next_id += 2;
                let data = format!("doc-{id}").into_bytes();
                // prepare for deletes: write the doc everywhere first (healthy).
                if op >= 2 {
                    for i in 0..n {
                        nodes[i].flaky.fail.store(false, Ordering::SeqCst);
                    }
                    handle.put("ks", id, data.clone(), Consistency::All).await.unwrap();
                    handle.put("ks", id + 1, data.clone(), Consistency::All).await.unwrap();
                    for i in 0..n {
                        nodes[i].flaky.fail.store(failing.contains(&i), Ordering::SeqCst);
                    }
                }
                let res = match op {
                    0 => handle.put("ks", id, data.clone(), level).await,
                    1 => handle
                        .put_many("ks", [(id, data.clone()), (id + 1, data.clone())], level)
                        .await,
                    2 => handle.del("ks", id, level).await,
                    _ => handle.del_many("ks", [id, id + 1], level).await,
                };
                let have = if op < 2 {
                    holders(&nodes, "ks", id, &data).await
                } else {
                    tombstoned(&nodes, "ks", id).await
                };
                let have_others = have.iter().filter(|i| **i != issuer).count();
                let sel_idx = selected
                    .iter()
                    .map(|a| nodes.iter().position(|n| n.node.me().public_addr == *a).unwrap())
                    .collect::<Vec<_>>();
                let sel_ok = sel_idx.iter().filter(|i| !failing.contains(i)).count();
                let tag = format!(
                    "layout {layout:?} issuer {issuer} {level:?} op {op} failing {failing:?} selected {sel_idx:?}"
                );
                match res {
                    Ok(()) => {
                        if !have.contains(&issuer) || have_others < req {
                            problems.push(format!("{tag}: Ok but holders {have:?} required {req}"));
                        }
                    },
                    Err(StoreError::ConsistencyError(ConsistencyError::ConsistencyFailure {
                        responses,
                        required,
                        ..
                    })) => {
                        if !have.contains(&issuer) {
                            problems.push(format!("{tag}: failure but local write missing"));
                        }
                        if responses != sel_ok || required != sel_idx.len() {
                            problems.push(format!(
                                "{tag}: failure says {responses}/{required}, expected {sel_ok}/{}",
                                sel_idx.len()
                            ));
                        }
                        if sel_ok == sel_idx.len() {
                            problems.push(format!("{tag}: failure but every selected node is healthy"));
                        }
                    },
                    Err(e) => problems.push(format!("{tag}: unexpected error {e}")),
                }
            }
        }
    }

    // Heal and check that everything reaches everybody later.
    for i in 0..n {
        nodes[i].flaky.fail.store(false, Ordering::SeqCst);
    }
    tokio::time::sleep(Duration::from_secs(8)).await;
    let mut reference = None;
    for (i, nd) in nodes.iter().enumerate() {
        let mut meta = nd
            .flaky
            .inner
            .iter_metadata("ks")
            .await
            .unwrap()
            .collect::<Vec<_>>();
        meta.sort();
        match &reference {
            None => reference = Some(meta),
            Some(r) => {
                if *r != meta {
                    let missing = r.iter().filter(|e| !meta.contains(e)).count();
                    let extra = meta.iter().filter(|e| !r.contains(e)).count();
                    problems.push(format!(
                        "layout {layout:?}: node {i} did not converge with node 0 ({missing} missing, {extra} extra)"
                    ));
                }
            },
        }
    }

    for p in &problems {
        println!("PROBLEM: {p}");
    }
    for n in nodes {
        n.node.shutdown().await;
    }
    assert!(problems.is_empty(), "{} problems", problems.len());
}

#[tokio::test(flavor = "multi_thread", worker_threads = 4)]
async fn faults_single_dc_4() {
    run_faults(&["a", "a", "a", "a"], 0).await;
}

#[tokio::test(flavor = "multi_thread", worker_threads = 4)]
async fn faults_2_2_1() {
    run_faults(&["a", "a", "b", "b", "c"], 1).await;
}

#[allow(unused)]
fn _unused(_: StoreError<MemStoreError>, _: ConsistencyError) {}

#[tokio::test(flavor = "multi_thread", worker_threads = 4)]
async fn listen_any_public_loopback() {
    let _ = tracing_subscriber::fmt::try_init();
    let a1 = test_helper::get_unused_addr();
    let a2 = test_helper::get_unused_addr();
    let l1: std::net::SocketAddr = format!("0.0.0.0:{}", a1.port()).parse().unwrap();
    let l2: std::net::SocketAddr = format!("0.0.0.0:{}", a2.port()).parse().unwrap();
    let n1 = DatacakeNodeBuilder::<DCAwareSelector>::new(1, ConnectionConfig::new(l1, a1, [a2.to_string()]))
        .connect().await.unwrap();
    let n2 = DatacakeNodeBuilder::<DCAwareSelector>::new(2, ConnectionConfig::new(l2, a2, [a1.to_string()]))
        .connect().await.unwrap();
    let r1 = n1.wait_for_nodes(&[2], Duration::from_secs(15)).await;
    let r2 = n2.wait_for_nodes(&[1], Duration::from_secs(15)).await;
    println!("wait results {r1:?} {r2:?}");
    let f1 = Flaky::new();
    let f2 = Flaky::new();
    let s1 = n1.add_extension(EventuallyConsistentStoreExtension::new(f1.clone())).await.unwrap();
    let _s2 = n2.add_extension(EventuallyConsistentStoreExtension::new(f2.clone())).await.unwrap();
    tokio::time::sleep(Duration::from_secs(1)).await;
    println!("select all: {:?}", n1.select_nodes(Consistency::All).await);
    let r = s1.handle().put("ks", 1, b"x".to_vec(), Consistency::All).await;
    println!("put: {r:?}; node2 has: {:?}", f2.inner.get("ks", 1).await.unwrap().is_some());
}

#[tokio::test(flavor = "multi_thread", worker_threads = 4)]
async fn concurrent_same_key_all() {
    let nodes = cluster(&["a", "a", "b"]).await;
    let mut problems = Vec::new();
    for round in 0..150u64 {
        let key = round % 3; // reuse keys so puts and deletes interleave over time
        let mut futs = Vec::new();
        for (i, n) in nodes.iter().enumerate() {
            let h = n.store.handle();
            let kind = (round + i as u64) % 4;
            futs.push(async move {
                match kind {
                    0 => h.put("ks", key, format!("r{round}-n{i}").into_bytes(), Consistency::All).await,
                    1 => h.del("ks", key, Consistency::All).await,
                    2 => h.put_many("ks", [(key, format!("r{round}-n{i}-m").into_bytes()), (key + 10, b"z".to_vec())], Consistency::All).await,
                    _ => h.del_many("ks", [key, key + 10], Consistency::All).await,
                }
            });
        }
        let res = futures::future::join_all(futs).await;
        if res.iter().any(|r| r.is_err()) {
            println!("round {round}: some error {res:?}");
            continue;
        }
        let mut views = Vec::new();
        for n in nodes.iter() {
            let mut meta = n.flaky.inner.iter_metadata("ks").await.unwrap().collect::<Vec<_>>();
            meta.sort();
            let mut datas = Vec::new();
            for k in [0u64, 1, 2, 10, 11, 12] {
                datas.push(n.flaky.inner.get("ks", k).await.unwrap().map(|d| d.data().to_vec()));
            }
            views.push((meta, datas));
        }
        if views[0] != views[1] || views[1] != views[2] {
            problems.push(format!("round {round}: nodes disagree after all-Ok at All: {views:?}"));
        }
    }
    for p in &problems {
        println!("PROBLEM: {p}");
    }
    for n in nodes {
        n.node.shutdown().await;
    }
    assert!(problems.is_empty(), "{} problems", problems.len());
}

#[tokio::test(flavor = "multi_thread", worker_threads = 4)]
async fn race_wait_for_nodes_then_all() {
    let mut hits = 0;
    let rounds = 10;
    for round in 0..rounds {
        let a1 = test_helper::get_unused_addr();
        let a2 = test_helper::get_unused_addr();
        let n1 = DatacakeNodeBuilder::<DCAwareSelector>::new(1, ConnectionConfig::new(a1, a1, [a2.to_string()]))
            .connect().await.unwrap();
        let f1 = Flaky::new();
        let s1 = n1.add_extension(EventuallyConsistentStoreExtension::new(f1.clone())).await.unwrap();
        let n2 = DatacakeNodeBuilder::<DCAwareSelector>::new(2, ConnectionConfig::new(a2, a2, [a1.to_string()]))
            .connect().await.unwrap();
        let f2 = Flaky::new();
        let _s2 = n2.add_extension(EventuallyConsistentStoreExtension::new(f2.clone())).await.unwrap();
        n1.wait_for_nodes(&[2], Duration::from_secs(30)).await.unwrap();
        let sel = n1.select_nodes(Consistency::All).await.unwrap();
        let r = s1.handle().put("ks", 1, b"x".to_vec(), Consistency::All).await;
        let has = f2.inner.get("ks", 1).await.unwrap().is_some();
        println!("round {round}: selected {sel:?} put {r:?} node2 has {has}");
        if r.is_ok() && !has {
            hits += 1;
        }
        n1.shutdown().await;
        n2.shutdown().await;
    }
    println!("hits {hits}/{rounds}");
}
