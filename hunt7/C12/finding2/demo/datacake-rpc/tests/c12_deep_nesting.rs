//! C12: "for every message value [..] the handler observes a value equal to the one
//! the client sent" - with generators covering nested payloads.
//!
//! A message that is merely *deep* (a chain of 200 000 one-element lists, a 2.4 MB
//! frame with a correct checksum) is delivered and accepted by `DataView::using`,
//! and then `deserialize_view` - the documented way for a handler to obtain the
//! message - recurses once per level on the 2 MiB stack of the server's worker
//! thread: the stack overflows and the process hosting the server is killed
//! (SIGSEGV/SIGABRT), it is not an error that could be refused or caught.
//!
//! A passing run prints "handler saw depth 200000". On the unmodified tree the test
//! binary dies with "thread 'tokio-rt-worker' has overflowed its stack".

use datacake_rpc::{
    Channel,
    Handler,
    Request,
    RpcClient,
    RpcService,
    Server,
    ServiceRegistry,
    Status,
};
use rkyv::{Archive, Deserialize, Serialize};

#[derive(Archive, Serialize, Deserialize)]
#[archive(bound(
    serialize = "__S: rkyv::ser::ScratchSpace + rkyv::ser::Serializer",
    deserialize = "__D: rkyv::Fallible"
))]
pub struct Tree {
    label: u32,
    #[omit_bounds]
    children: Vec<Tree>,
}

/// `C12_DEPTH` overrides the depth (used to find where the limit is).
fn depth() -> u32 {
    std::env::var("C12_DEPTH")
        .ok()
        .and_then(|v| v.parse().ok())
        .unwrap_or(200_000)
}

fn chain(depth: u32) -> Tree {
    let mut node = Tree {
        label: depth,
        children: Vec::new(),
    };
    for label in (0..depth).rev() {
        node = Tree {
            label,
            children: vec![node],
        };
    }
    node
}

fn depth_of(tree: &Tree) -> u32 {
    let mut depth = 0;
    let mut node = tree;
    while let Some(next) = node.children.first() {
        depth += 1;
        node = next;
    }
    depth
}

/// Takes the chain apart without recursion (the derived drop glue is recursive too).
fn dismantle(tree: Tree) {
    let mut pending = vec![tree];
    while let Some(mut node) = pending.pop() {
        pending.append(&mut node.children);
    }
}

pub struct TreeService;

impl RpcService for TreeService {
    fn register_handlers(registry: &mut ServiceRegistry<Self>) {
        registry.add_handler::<Tree>();
    }
}

#[datacake_rpc::async_trait]
impl Handler<Tree> for TreeService {
    type Reply = u32;

    async fn on_message(&self, msg: Request<Tree>) -> Result<Self::Reply, Status> {
        // Exactly what every example in the crate's documentation does.
        let tree: Tree = msg.deserialize_view().map_err(Status::internal)?;
        let depth = depth_of(&tree);
        dismantle(tree);
        Ok(depth)
    }
}

#[test]
fn deep_message_reaches_the_handler() {
    let addr = test_helper::get_unused_addr();
    #[allow(non_snake_case)]
    let DEPTH = depth();

    // The server: an ordinary multi-threaded runtime, default (2 MiB) worker stacks.
    let server_rt = tokio::runtime::Builder::new_multi_thread()
        .worker_threads(2)
        .enable_all()
        .build()
        .unwrap();
    let server = server_rt.block_on(async move {
        let server = Server::listen(addr).await.unwrap();
        server.add_service(TreeService);
        server
    });

    // The client gets all the stack it wants: building, serialising and sending the
    // value is not what is being examined.
    let client = std::thread::Builder::new()
        .stack_size(4 << 30)
        .spawn(move || {
            let rt = tokio::runtime::Builder::new_current_thread()
                .enable_all()
                .build()
                .unwrap();
            rt.block_on(async move {
                let client = RpcClient::<TreeService>::new(Channel::connect(addr));

                // Control: a shallow chain.
                let small = chain(100);
                let reply = client.send(&small).await.expect("shallow chain is served");
                assert_eq!(reply.deserialize_view().unwrap(), 100u32);
                dismantle(small);

                let deep = chain(DEPTH);
                let frame = datacake_rpc::to_view_bytes(&deep).unwrap();
                println!("frame of the deep message: {} bytes", frame.len());
                let reply = client.send(&deep).await;
                dismantle(deep);
                reply.map(|view| view.deserialize_view().unwrap())
            })
        })
        .unwrap();

    let outcome: Result<u32, Status> = client.join().expect("client thread");
    println!("outcome: {outcome:?}");
    assert_eq!(outcome, Ok(DEPTH), "handler saw depth {DEPTH}");
    println!("handler saw depth {DEPTH}");

    server.shutdown();
    drop(server_rt);
}
