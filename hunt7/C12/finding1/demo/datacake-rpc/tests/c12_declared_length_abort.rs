//! C12, companion of `c12_declared_length.rs`: the same 2 byte frame, announced as
//! 2^60 bytes. The announced length passes the `AlignedVec::with_capacity`
//! assertion (it is below isize::MAX - 15), the allocation fails, and
//! `handle_alloc_error` ABORTS THE WHOLE PROCESS that hosts the RPC server:
//! one unauthenticated request of two bytes takes the node down.
//!
//! A passing run prints "server survived"; on the unmodified tree the test binary
//! dies with SIGABRT ("memory allocation of 1152921504606846976 bytes failed").

use std::time::Duration;

use datacake_rpc::http::header::CONTENT_LENGTH;
use datacake_rpc::http::HeaderValue;
use datacake_rpc::{
    Body,
    Channel,
    Handler,
    Request,
    RpcClient,
    RpcService,
    Server,
    ServiceRegistry,
    Status,
};
use rkyv::{Archive, Deserialize, Serialize};

#[repr(C)]
#[derive(Serialize, Deserialize, Archive, PartialEq, Debug)]
#[archive(compare(PartialEq), check_bytes)]
#[archive_attr(derive(PartialEq, Debug))]
pub struct Payload {
    id: u64,
    buffer: Vec<u8>,
}

pub struct EchoService;

impl RpcService for EchoService {
    fn service_name() -> &'static str {
        "echo"
    }

    fn register_handlers(registry: &mut ServiceRegistry<Self>) {
        registry.add_handler::<Payload>();
    }
}

#[datacake_rpc::async_trait]
impl Handler<Payload> for EchoService {
    type Reply = Payload;

    fn path() -> &'static str {
        "payload"
    }

    async fn on_message(&self, msg: Request<Payload>) -> Result<Self::Reply, Status> {
        msg.deserialize_view().map_err(Status::internal)
    }
}

/// Client side stub: same request path, raw body.
pub struct RawPeer;

impl RpcService for RawPeer {
    fn service_name() -> &'static str {
        "echo"
    }

    fn register_handlers(_registry: &mut ServiceRegistry<Self>) {}
}

#[datacake_rpc::async_trait]
impl Handler<Body> for RawPeer {
    type Reply = Payload;

    fn path() -> &'static str {
        "payload"
    }

    async fn on_message(&self, _msg: Request<Body>) -> Result<Self::Reply, Status> {
        unreachable!("client side stub")
    }
}

#[tokio::test(flavor = "multi_thread", worker_threads = 2)]
async fn short_frame_announced_as_an_exbibyte_does_not_take_the_process_down() {
    let addr = test_helper::get_unused_addr();
    let server = Server::listen(addr).await.unwrap();
    server.add_service(EchoService);

    let (mut tx, body) = hyper::Body::channel();
    tokio::spawn(async move {
        let _ = tx.send_data(bytes::Bytes::from_static(&[0xAA])).await;
        tokio::time::sleep(Duration::from_millis(100)).await;
        let _ = tx.send_data(bytes::Bytes::from_static(&[0xBB])).await;
        tokio::time::sleep(Duration::from_millis(300)).await;
        drop(tx);
    });

    let raw = RpcClient::<RawPeer>::new(Channel::connect(addr));
    let outcome = tokio::time::timeout(
        Duration::from_secs(10),
        raw.create_rpc_context()
            .set_header(CONTENT_LENGTH, HeaderValue::from(1u64 << 60))
            .send_owned(Body::new(body)),
    )
    .await
    .expect("answered")
    .map(|_| ());

    println!("outcome: {outcome:?}");
    assert!(outcome.is_err(), "the short frame is refused");

    // The node still serves its other callers.
    let good = Payload {
        id: 7,
        buffer: vec![1, 2, 3],
    };
    let typed = RpcClient::<EchoService>::new(Channel::connect(addr));
    let reply = typed.send(&good).await.expect("valid message is served");
    assert_eq!(reply, good);
    println!("server survived");

    server.shutdown();
}
