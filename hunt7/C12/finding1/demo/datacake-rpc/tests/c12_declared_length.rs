//! C12: a short / damaged frame must be refused as an invalid payload without
//! panicking, and no handler may run on it.
//!
//! Here the short frame (2 bytes, i.e. not even a checksum trailer) arrives in two
//! DATA chunks under a `content-length` header that announces far more than is ever
//! sent. `utils::to_aligned` sizes its buffer from `body.size_hint().lower()` - the
//! number the *peer* declared - before a single byte of it has been checked, so the
//! peer picks the size of an allocation on the receiving side:
//!
//! * announced >= 2^63           -> `AlignedVec::with_capacity` assertion panics
//! * announced  < 2^63 but huge  -> the allocation fails and the whole process aborts
//!   (see `c12_declared_length_abort.rs`)
//!
//! Both directions are affected: the server reading a request
//! (`request.rs: from_body`) and the client reading a reply or an error status
//! (`client.rs: send_inner`).

use std::convert::Infallible;
use std::sync::atomic::{AtomicBool, AtomicUsize, Ordering};
use std::sync::Mutex;
use std::time::Duration;

use datacake_rpc::http::header::CONTENT_LENGTH;
use datacake_rpc::http::HeaderValue;
use datacake_rpc::{
    Body,
    Channel,
    ErrorCode,
    Handler,
    Request,
    RpcClient,
    RpcService,
    Server,
    ServiceRegistry,
    Status,
};
use rkyv::{Archive, Deserialize, Serialize};

#[repr(C)]
#[derive(Serialize, Deserialize, Archive, PartialEq, Debug)]
#[archive(compare(PartialEq), check_bytes)]
#[archive_attr(derive(PartialEq, Debug))]
pub struct Payload {
    id: u64,
    buffer: Vec<u8>,
}

static HANDLER_RUNS: AtomicUsize = AtomicUsize::new(0);
static PANICKED: AtomicBool = AtomicBool::new(false);
static PANIC_MESSAGES: Mutex<Vec<String>> = Mutex::new(Vec::new());

fn record_panics() {
    let default_hook = std::panic::take_hook();
    std::panic::set_hook(Box::new(move |info| {
        PANICKED.store(true, Ordering::SeqCst);
        PANIC_MESSAGES.lock().unwrap().push(info.to_string());
        default_hook(info);
    }));
}

/// The real service: a typed handler.
pub struct EchoService;

impl RpcService for EchoService {
    fn service_name() -> &'static str {
        "echo"
    }

    fn register_handlers(registry: &mut ServiceRegistry<Self>) {
        registry.add_handler::<Payload>();
    }
}

#[datacake_rpc::async_trait]
impl Handler<Payload> for EchoService {
    type Reply = Payload;

    fn path() -> &'static str {
        "payload"
    }

    async fn on_message(&self, msg: Request<Payload>) -> Result<Self::Reply, Status> {
        HANDLER_RUNS.fetch_add(1, Ordering::SeqCst);
        msg.deserialize_view().map_err(Status::internal)
    }
}

/// What a misbehaving peer uses, built from the public client API only: the same
/// request path, but the body is handed over raw so that it can be anything.
pub struct RawPeer;

impl RpcService for RawPeer {
    fn service_name() -> &'static str {
        "echo"
    }

    fn register_handlers(_registry: &mut ServiceRegistry<Self>) {}
}

#[datacake_rpc::async_trait]
impl Handler<Body> for RawPeer {
    type Reply = Payload;

    fn path() -> &'static str {
        "payload"
    }

    async fn on_message(&self, _msg: Request<Body>) -> Result<Self::Reply, Status> {
        unreachable!("client side stub")
    }
}

/// Sends the 2 byte frame `[0xAA, 0xBB]` as two chunks, optionally announcing a length.
async fn send_short_frame(
    client: &RpcClient<RawPeer>,
    announced: Option<u64>,
) -> Result<(), Status> {
    let (mut tx, body) = hyper::Body::channel();
    let feeder = tokio::spawn(async move {
        let _ = tx.send_data(bytes::Bytes::from_static(&[0xAA])).await;
        tokio::time::sleep(Duration::from_millis(100)).await;
        let _ = tx.send_data(bytes::Bytes::from_static(&[0xBB])).await;
        // Nothing else is ever sent, the body ends here.
        tokio::time::sleep(Duration::from_millis(300)).await;
        drop(tx);
    });

    let mut ctx = client.create_rpc_context();
    if let Some(len) = announced {
        ctx = ctx.set_header(CONTENT_LENGTH, HeaderValue::from(len));
    }

    let res = tokio::time::timeout(Duration::from_secs(10), ctx.send_owned(Body::new(body)))
        .await
        .expect("the request is answered or fails, it does not hang");
    feeder.abort();
    res.map(|_| ())
}

#[tokio::test(flavor = "multi_thread", worker_threads = 2)]
async fn short_frame_under_a_large_announced_length_is_refused_without_panicking() {
    record_panics();

    let addr = test_helper::get_unused_addr();
    let server = Server::listen(addr).await.unwrap();
    server.add_service(EchoService);

    // Control 1: a well formed message goes through.
    let good = Payload {
        id: 7,
        buffer: vec![1, 2, 3],
    };
    let typed = RpcClient::<EchoService>::new(Channel::connect(addr));
    let reply = typed.send(&good).await.expect("valid message is served");
    assert_eq!(reply, good);
    assert_eq!(HANDLER_RUNS.load(Ordering::SeqCst), 1);

    // Control 2: the very same short frame in the very same two chunks, with no
    // length announced, is refused exactly as the property says.
    let raw = RpcClient::<RawPeer>::new(Channel::connect(addr));
    let refused = send_short_frame(&raw, None).await.unwrap_err();
    assert_eq!(refused.code, ErrorCode::InvalidPayload);
    assert_eq!(HANDLER_RUNS.load(Ordering::SeqCst), 1);
    assert!(!PANICKED.load(Ordering::SeqCst));

    // The case: the same short frame, announced as 2^63 bytes.
    let raw = RpcClient::<RawPeer>::new(Channel::connect(addr));
    let outcome = send_short_frame(&raw, Some(1 << 63)).await;
    println!("outcome of the short frame with an announced length: {outcome:?}");
    // (copied out: the hook takes the same lock)
    let panics: Vec<String> = PANIC_MESSAGES.lock().unwrap().clone();
    println!("panics seen: {panics:?}");

    assert_eq!(
        HANDLER_RUNS.load(Ordering::SeqCst),
        1,
        "no handler runs on the short frame"
    );
    assert!(outcome.is_err(), "the short frame is refused");
    assert!(
        !PANICKED.load(Ordering::SeqCst),
        "the server panicked while reading a 2 byte frame: {panics:?}"
    );

    server.shutdown();
}

/// The other direction: the client reading a reply. The peer is a plain HTTP/2
/// server answering 200 with a 2 byte frame in two chunks and a large announced length.
#[tokio::test(flavor = "multi_thread", worker_threads = 2)]
async fn short_reply_under_a_large_announced_length_is_refused_without_panicking() {
    let addr = test_helper::get_unused_addr();
    let listener = tokio::net::TcpListener::bind(addr).await.unwrap();
    tokio::spawn(async move {
        loop {
            let (io, _) = listener.accept().await.unwrap();
            tokio::spawn(async move {
                let service = hyper::service::service_fn(|_req| async move {
                    let (mut tx, body) = hyper::Body::channel();
                    tokio::spawn(async move {
                        let _ = tx.send_data(bytes::Bytes::from_static(&[0xAA])).await;
                        tokio::time::sleep(Duration::from_millis(100)).await;
                        let _ = tx.send_data(bytes::Bytes::from_static(&[0xBB])).await;
                        tokio::time::sleep(Duration::from_millis(300)).await;
                        drop(tx);
                    });
                    let mut response = hyper::Response::new(body);
                    response
                        .headers_mut()
                        .insert(CONTENT_LENGTH, HeaderValue::from(1u64 << 63));
                    Ok::<_, Infallible>(response)
                });
                let _ = hyper::server::conn::Http::new()
                    .http2_only(true)
                    .serve_connection(io, service)
                    .await;
            });
        }
    });

    let client = RpcClient::<EchoService>::new(Channel::connect(addr));
    let caller = tokio::spawn(async move {
        let msg = Payload {
            id: 1,
            buffer: vec![],
        };
        tokio::time::timeout(Duration::from_secs(10), client.send(&msg))
            .await
            .expect("answered")
            .map(|_| ())
    });

    match caller.await {
        Ok(res) => {
            println!("client outcome: {res:?}");
            assert!(res.is_err(), "the short reply is refused");
        },
        Err(join_error) => panic!(
            "the task calling RpcClient::send panicked while reading a 2 byte reply: {join_error}"
        ),
    }
}
