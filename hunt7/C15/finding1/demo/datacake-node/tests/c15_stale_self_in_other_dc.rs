//! C15 - replica selection yields exactly n peers for One/Two/Three.
//!
//! A node that restarts at the same public address under a new node id and in a new
//! (so far unpopulated) data centre is, for as long as the failure detector still lists
//! its previous incarnation, a member of its own membership twice: once under the old id
//! in the old data centre and once under its own id in the new one.
//!
//! The membership watcher (`watch_membership_changes`) de-duplicates members by address
//! in node-id order, so when the old id is the smaller one the local address is filed
//! under the *old* data centre and the node's own data centre is missing from the layout
//! handed to the selector.  `select_n_nodes` then believes it can leave out the local
//! data centre (`data_centers.len() - 1`) although there is nothing to leave out, takes
//! one node from every data centre, and `Consistency::One` answers with TWO nodes.
//!
//! Everything below goes through the production membership watcher, the production
//! selector actor and `DCAwareSelector`; only the stream of membership snapshots is
//! supplied by the test (feature `verif`, hooks are not modified).
#![cfg(feature = "verif")]

use std::borrow::Cow;
use std::collections::HashSet;
use std::net::SocketAddr;
use std::time::Duration;

use datacake_node::verif::{
    run_membership_watcher,
    start_node_selector,
    NodeMembership,
    NodeSelectorHandle,
};
use datacake_node::{ClusterMember, Consistency, DCAwareSelector, Nodes};
use tokio::sync::watch;
use tokio_stream::wrappers::WatchStream;

fn addr(n: u8) -> SocketAddr {
    SocketAddr::from(([10, 0, 0, n], 8000))
}

fn membership(members: &[(u8, SocketAddr, &str)]) -> NodeMembership {
    members
        .iter()
        .map(|(id, addr, dc)| (*id, ClusterMember::new(*id, *addr, dc.to_string())))
        .collect()
}

/// Starts the production selector actor and membership watcher of the node
/// `(self_id, self_addr, self_dc)`, feeds it one membership snapshot and waits until
/// the watcher has processed it.
async fn node_with_membership(
    self_id: u8,
    self_addr: SocketAddr,
    self_dc: &'static str,
    members: NodeMembership,
) -> NodeSelectorHandle {
    let selector =
        start_node_selector(self_addr, Cow::Borrowed(self_dc), DCAwareSelector).await;

    let (members_tx, members_rx) = watch::channel(members.clone());
    let (out_tx, mut out_rx) = watch::channel(NodeMembership::new());
    tokio::spawn(run_membership_watcher(
        self_id,
        selector.clone(),
        WatchStream::new(members_rx),
        out_tx,
    ));

    // The watcher publishes a snapshot to its subscribers after it has installed it
    // in the selector.
    tokio::time::timeout(Duration::from_secs(10), async {
        loop {
            if *out_rx.borrow() == members {
                break;
            }
            out_rx.changed().await.expect("watcher alive");
        }
    })
    .await
    .expect("watcher processed the snapshot");

    // Keep the input channel open for the lifetime of the test.
    std::mem::forget(members_tx);
    selector
}

fn assert_selection(
    level: Consistency,
    expected_len: usize,
    nodes: &Nodes,
    local: SocketAddr,
    live_others: &[SocketAddr],
) {
    let distinct: HashSet<_> = nodes.iter().copied().collect();
    assert_eq!(distinct.len(), nodes.len(), "{level:?}: duplicates in {nodes:?}");
    assert!(!distinct.contains(&local), "{level:?}: local node in {nodes:?}");
    for node in nodes {
        assert!(live_others.contains(node), "{level:?}: {node} is not a live peer");
    }
    assert_eq!(
        nodes.len(),
        expected_len,
        "{level:?} must select exactly {expected_len} node(s), got {nodes:?}",
    );
}

/// Control: the same cluster without the stale entry.  Passes.
#[tokio::test]
async fn control_without_stale_incarnation() {
    let (a, b, c) = (addr(1), addr(2), addr(3));
    let members = membership(&[
        (2, b, "dc-old"),
        (3, c, "dc-other"),
        (9, a, "dc-new"), // the local node
    ]);
    let selector = node_with_membership(9, a, "dc-new", members).await;

    for _ in 0..4 {
        let nodes = selector.get_nodes(Consistency::One).await.expect("two peers are live");
        assert_selection(Consistency::One, 1, &nodes, a, &[b, c]);
        tokio::time::sleep(Duration::from_millis(2100)).await; // let the 2s cache expire
    }
}

/// The local node (id 9, address A, "dc-new") still sees its previous incarnation
/// (id 1, address A, "dc-old") among the live members.  FAILS: One returns two nodes.
#[tokio::test]
async fn one_returns_two_nodes_while_previous_incarnation_is_listed() {
    let (a, b, c) = (addr(1), addr(2), addr(3));
    let members = membership(&[
        (1, a, "dc-old"), // previous incarnation of the local node, not yet declared dead
        (2, b, "dc-old"),
        (3, c, "dc-other"),
        (9, a, "dc-new"), // the local node
    ]);
    let selector = node_with_membership(9, a, "dc-new", members).await;

    let nodes = selector
        .get_nodes(Consistency::One)
        .await
        .expect("two other nodes are live, One must be satisfiable");
    assert_selection(Consistency::One, 1, &nodes, a, &[b, c]);
}

/// Same situation with one more data centre: Two returns three nodes.
#[tokio::test]
async fn two_returns_three_nodes_while_previous_incarnation_is_listed() {
    let (a, b, c, d) = (addr(1), addr(2), addr(3), addr(4));
    let members = membership(&[
        (1, a, "dc-old"),
        (2, b, "dc-old"),
        (3, c, "dc-other"),
        (4, d, "dc-third"),
        (9, a, "dc-new"),
    ]);
    let selector = node_with_membership(9, a, "dc-new", members).await;

    let nodes = selector
        .get_nodes(Consistency::Two)
        .await
        .expect("three other nodes are live, Two must be satisfiable");
    assert_selection(Consistency::Two, 2, &nodes, a, &[b, c, d]);
}
