//! C15 end to end, public API only (no `verif` hooks needed): a node that is restarted
//! at the same public address under a new node id and a new data centre label answers
//! `select_nodes(Consistency::One)` with TWO nodes for as long as the gossip failure
//! detector still lists its previous incarnation (tens of seconds).
//!
//! See `c15_stale_self_in_other_dc.rs` for the deterministic version of the same defect
//! and the explanation.
use std::collections::HashSet;
use std::time::Duration;

use datacake_node::{ConnectionConfig, Consistency, DCAwareSelector, DatacakeNodeBuilder};

#[test]
fn restarted_node_in_new_dc_selects_two_nodes_for_one() {
    let _ = tracing_subscriber::fmt::try_init();

    let addr_a = test_helper::get_unused_addr();
    let addr_b = test_helper::get_unused_addr();
    let addr_c = test_helper::get_unused_addr();

    // The peers live on their own runtime for the whole test.
    let peers_rt = tokio::runtime::Builder::new_multi_thread()
        .worker_threads(2)
        .enable_all()
        .build()
        .unwrap();
    let (node_b, node_c) = peers_rt.block_on(async {
        let node_b = DatacakeNodeBuilder::<DCAwareSelector>::new(
            2,
            ConnectionConfig::new(addr_b, addr_b, [addr_a.to_string(), addr_c.to_string()]),
        )
        .with_data_center("dc-old")
        .connect()
        .await
        .unwrap();
        let node_c = DatacakeNodeBuilder::<DCAwareSelector>::new(
            3,
            ConnectionConfig::new(addr_c, addr_c, [addr_a.to_string(), addr_b.to_string()]),
        )
        .with_data_center("dc-other")
        .connect()
        .await
        .unwrap();
        (node_b, node_c)
    });

    // First incarnation of the node under test: id 1, address A, data centre "dc-old".
    // It gets a runtime of its own so that it can be stopped completely (the RPC server
    // keeps its port for as long as its runtime lives).
    let first_rt = tokio::runtime::Builder::new_multi_thread()
        .worker_threads(2)
        .enable_all()
        .build()
        .unwrap();
    first_rt.block_on(async {
        let node = DatacakeNodeBuilder::<DCAwareSelector>::new(
            1,
            ConnectionConfig::new(addr_a, addr_a, [addr_b.to_string(), addr_c.to_string()]),
        )
        .with_data_center("dc-old")
        .connect()
        .await
        .unwrap();
        node.wait_for_nodes([2, 3], Duration::from_secs(60))
            .await
            .expect("first incarnation joins");
        // Let the peers learn about it too.
        tokio::time::sleep(Duration::from_secs(3)).await;
        node.shutdown().await;
    });
    peers_rt.block_on(async {
        node_b.wait_for_nodes([1, 3], Duration::from_secs(60)).await.unwrap();
        node_c.wait_for_nodes([1, 2], Duration::from_secs(60)).await.unwrap();
    });
    first_rt.shutdown_timeout(Duration::from_secs(5));

    // Second incarnation: same address, new id 9, new data centre "dc-new".
    let second_rt = tokio::runtime::Builder::new_multi_thread()
        .worker_threads(2)
        .enable_all()
        .build()
        .unwrap();
    second_rt.block_on(async {
        let node = DatacakeNodeBuilder::<DCAwareSelector>::new(
            9,
            ConnectionConfig::new(addr_a, addr_a, [addr_b.to_string(), addr_c.to_string()]),
        )
        .with_data_center("dc-new")
        .connect()
        .await
        .unwrap();
        node.wait_for_nodes([2, 3], Duration::from_secs(60))
            .await
            .expect("second incarnation joins");

        // Observe for a while: every selection at level One must hold exactly one node.
        let mut worst = 0;
        for round in 0..10 {
            tokio::time::sleep(Duration::from_millis(2100)).await; // > the 2s result cache
            let stats = node.statistics();
            let nodes = node
                .select_nodes(Consistency::One)
                .await
                .expect("two peers are live");
            println!(
                "round {round}: live members {} data centres {} -> One selected {nodes:?}",
                stats.num_live_members(),
                stats.num_data_centers(),
            );
            let distinct: HashSet<_> = nodes.iter().copied().collect();
            assert_eq!(distinct.len(), nodes.len());
            assert!(!distinct.contains(&addr_a));
            worst = worst.max(nodes.len());
        }
        assert_eq!(
            worst, 1,
            "Consistency::One selected {worst} nodes in at least one round"
        );
    });
}
