//! C04 hunt, finding 1 shown one layer up: the production keyspace actor
//! (`Del` / `Set` / hourly `PurgeDeletes` messages, NUM_SOURCES = 2) over the
//! in-memory storage.
//!
//! Needs the (unmodified) cargo features `verif` (exports the keyspace messages)
//! and `test-utils` (MemStore, KeyspaceGroup::new_for_test).
#![cfg(all(feature = "verif", feature = "test-utils"))]

use std::marker::PhantomData;
use std::time::Duration;

use datacake_crdt::{get_datacake_timestamp, HLCTimestamp, OrSWotSet};
use datacake_eventual_consistency::test_utils::MemStore;
use datacake_eventual_consistency::verif::{
    Del,
    Diff,
    KeyspaceGroup,
    PurgeDeletes,
    Set,
    CONSISTENCY_SOURCE_ID,
    NUM_SOURCES,
    READ_REPAIR_SOURCE_ID,
};
use datacake_eventual_consistency::{Document, DocumentMetadata, Storage};

const KS: &str = "ks";
const A: u8 = 1;
const B: u8 = 2;

fn set(source: usize, doc: Document) -> Set<MemStore> {
    Set {
        source,
        doc,
        ctx: None,
        _marker: PhantomData,
    }
}

#[tokio::test]
async fn purge_lets_an_older_insert_beat_the_newest_delete() {
    // The replica under test is node 0; A and B are two other writers.
    let group = KeyspaceGroup::<MemStore>::new_for_test().await;
    let keyspace = group.get_or_create_keyspace(KS).await;

    // A realistic time line that ends "now":
    //   T-10s  B inserts doc 1 (this replica does not get it yet)
    //   T      A deletes doc 1
    //   T+1h+  A keeps writing other documents
    let now = get_datacake_timestamp();
    let t = now - Duration::from_secs(2 * 3600);
    let b_insert = HLCTimestamp::new(t - Duration::from_secs(10), 0, B);
    let a_delete = HLCTimestamp::new(t, 0, A);
    let a_later_1 = HLCTimestamp::new(t + Duration::from_secs(3601), 0, A);
    let a_later_2 = HLCTimestamp::new(t + Duration::from_secs(3602), 0, A);

    // What a peer which missed A's delete still advertises.
    let mut stale_peer = OrSWotSet::<NUM_SOURCES>::default();
    stale_peer.insert(1, b_insert);

    keyspace
        .send(Del {
            source: CONSISTENCY_SOURCE_ID,
            doc: DocumentMetadata::new(1, a_delete),
            _marker: PhantomData::<MemStore>,
        })
        .await
        .unwrap();
    keyspace
        .send(set(CONSISTENCY_SOURCE_ID, Document::new(2, a_later_1, b"x".to_vec())))
        .await
        .unwrap();
    keyspace
        .send(set(READ_REPAIR_SOURCE_ID, Document::new(3, a_later_2, b"y".to_vec())))
        .await
        .unwrap();

    // Before the purge the replica knows that doc 1 is deleted: the stale peer's
    // entry is not something it wants.
    let (modified, _) = keyspace.send(Diff(stale_peer.clone())).await;
    assert!(modified.is_empty(), "before purge: {modified:?}");

    // The hourly maintenance (`keyspace_purge_task`).
    keyspace.send(PurgeDeletes(PhantomData::<MemStore>)).await.unwrap();

    // Anti-entropy now asks for the stale document ...
    let (modified, _) = keyspace.send(Diff(stale_peer)).await;
    // ... and applies it (this is what `handle_modified` sends after fetching it).
    keyspace
        .send(set(
            READ_REPAIR_SOURCE_ID,
            Document::new(1, b_insert, b"stale".to_vec()),
        ))
        .await
        .unwrap();

    // A peer that still holds the tombstone cannot repair this replica either: the
    // delete is older than A's safe cut-off here, so it is refused from now on.
    keyspace
        .send(Del {
            source: READ_REPAIR_SOURCE_ID,
            doc: DocumentMetadata::new(1, a_delete),
            _marker: PhantomData::<MemStore>,
        })
        .await
        .unwrap();

    let doc = group.storage().get(KS, 1).await.unwrap();
    assert!(
        modified.is_empty() && doc.is_none(),
        "doc 1: the greatest-timestamp operation is the delete {a_delete} by node {A}, \
         but after the purge the replica asks peers for {modified:?} and serves {doc:?}",
    );
}
