//! C04 hunt, finding 1: the replica's own tombstone purge makes the outcome of a
//! key depend on the arrival order of operations that all satisfy the property's
//! precondition.
//!
//! Operations on key 1 (distinct timestamps, two origins A = node 0, B = node 1):
//!
//!     insert(1, B @ T-10s)        <- oldest
//!     delete(1, A @ T)            <- greatest timestamp on key 1  => key must end up NOT live
//!
//! plus one unrelated operation of A on another key, a little more than one
//! forgiveness period later:
//!
//!     insert(2, A @ T+3601s)
//!
//! None of them is older than the forgiveness window relative to what the replica has
//! seen *from its origin*: B's only operation is the first the replica ever sees from
//! B, and A's operations arrive in increasing order.
//!
//! If B's insert arrives last, after the replica ran its periodic
//! `purge_old_deletes()` (hourly `keyspace_purge_task` in datacake-eventual-consistency),
//! the tombstone `A @ T` is gone (it is older than A's safe cut-off), B's cut-off is
//! still at zero, so the old insert is accepted: the key is live although the
//! greatest-timestamp operation on it is a delete, `will_apply` predicted `true`
//! and `insert` returned `true`.
//!
//! This is an integration test, so FORGIVENESS_PERIOD is the real 3600 s.

use std::time::Duration;

use datacake_crdt::{HLCTimestamp, OrSWotSet};

const A: u8 = 0;
const B: u8 = 1;
const T: u64 = 100_000;

fn at(secs: u64, node: u8) -> HLCTimestamp {
    HLCTimestamp::new(Duration::from_secs(secs), 0, node)
}

/// Reference: B's insert arrives first. Everything behaves (the delete wins).
#[test]
fn reference_order_delete_wins() {
    let mut set = OrSWotSet::<1>::default();
    assert!(set.insert(1, at(T - 10, B)));
    assert!(set.delete(1, at(T, A)));
    assert!(set.insert(2, at(T + 3601, A)));
    set.purge_old_deletes();
    assert!(set.get(&1).is_none(), "delete A@T is the greatest op on key 1");
}

/// Reference: B's insert arrives last, but no purge ran in between. Also fine.
#[test]
fn late_insert_without_purge_is_refused() {
    let mut set = OrSWotSet::<1>::default();
    assert!(set.delete(1, at(T, A)));
    assert!(set.insert(2, at(T + 3601, A)));
    assert!(!set.will_apply(1, at(T - 10, B)));
    assert!(!set.insert(1, at(T - 10, B)));
    assert!(set.get(&1).is_none());
}

/// The violation, one source.
#[test]
fn late_insert_after_purge_resurrects_key_one_source() {
    let mut set = OrSWotSet::<1>::default();
    assert!(set.delete(1, at(T, A)));
    assert!(set.insert(2, at(T + 3601, A)));

    // The replica's own periodic maintenance.
    let purged = set.purge_old_deletes();
    assert_eq!(purged, vec![(1, at(T, A))]);

    // First operation the replica ever sees from B: within the precondition.
    let predicted = set.will_apply(1, at(T - 10, B));
    let applied = set.insert(1, at(T - 10, B));

    assert_eq!(
        (predicted, applied, set.get(&1).copied()),
        (false, false, None),
        "key 1: greatest-timestamp operation is delete A@T, so it must not be live \
         and the older insert B@T-10 must not change anything",
    );
}

/// The violation, two sources (the configuration datacake-eventual-consistency uses).
#[test]
fn late_insert_after_purge_resurrects_key_two_sources() {
    let mut set = OrSWotSet::<2>::default();
    assert!(set.delete_with_source(0, 1, at(T, A)));
    // A's later traffic is seen on both sources, which moves A's safe cut-off past T.
    assert!(set.insert_with_source(0, 2, at(T + 3601, A)));
    assert!(set.insert_with_source(1, 3, at(T + 3602, A)));

    let purged = set.purge_old_deletes();
    assert_eq!(purged, vec![(1, at(T, A))]);

    let predicted = set.will_apply(1, at(T - 10, B));
    let applied = set.insert_with_source(1, 1, at(T - 10, B));

    assert_eq!(
        (predicted, applied, set.get(&1).copied()),
        (false, false, None),
        "key 1: greatest-timestamp operation is delete A@T, so it must not be live",
    );
}
