//! C09 demonstration: a request the node clock cannot satisfy (its logical time is more
//! than the permitted drift ahead of a wall clock that stepped backwards) does not just
//! fail, it destroys the clock: the actor behind `datacake_node::Clock` panics and every
//! later `get_time()` / `register_ts()` panics too, also once the wall clock has caught up
//! and the request could be satisfied again.
//!
//! Run with:
//!   cargo test --offline -p datacake-node --features verif \
//!       --test c09_clock_dies_on_wall_step_back -- --test-threads=1
#![cfg(feature = "verif")]

use std::time::Duration;

use datacake_crdt::{verif_clock, HLCTimestamp, TimestampError};
use datacake_node::Clock;

/// Some instant well after the datacake epoch, in ms since that epoch.
const W: u64 = 10_000_000_000;
/// `datacake_crdt::timestamp::MAX_CLOCK_DRIFT` (the constant is not re-exported).
const MAX_CLOCK_DRIFT: Duration = Duration::from_secs(4_100);
const DRIFT_MS: u64 = MAX_CLOCK_DRIFT.as_millis() as u64;

fn wall(ms: u64) {
    verif_clock::set_wall_ms(Some(ms));
}

/// Asks the clock for a timestamp in a task of its own, so that a panic inside
/// `get_time()` is reported as an `Err` instead of tearing the test down.
async fn try_get_time(clock: &Clock) -> Result<HLCTimestamp, String> {
    let clock = clock.clone();
    match tokio::time::timeout(
        Duration::from_secs(10),
        tokio::spawn(async move { clock.get_time().await }),
    )
    .await
    {
        Ok(Ok(ts)) => Ok(ts),
        Ok(Err(join_error)) => Err(format!("get_time() panicked: {join_error}")),
        Err(_) => Err("get_time() did not answer within 10s".to_string()),
    }
}

async fn try_register(clock: &Clock, ts: HLCTimestamp) -> Result<(), String> {
    let clock = clock.clone();
    match tokio::time::timeout(
        Duration::from_secs(10),
        tokio::spawn(async move { clock.register_ts(ts).await }),
    )
    .await
    {
        Ok(Ok(())) => Ok(()),
        Ok(Err(join_error)) => Err(format!("register_ts() panicked: {join_error}")),
        Err(_) => Err("register_ts() did not return within 10s".to_string()),
    }
}

/// The reference behaviour: the bare `HLCTimestamp` on exactly the same schedule.
/// The unsatisfiable request fails and leaves the clock as it was, and once the wall
/// clock has caught up the clock issues stamps again.
#[test]
fn reference_bare_hlc_survives_the_same_schedule() {
    wall(W);
    let mut clock = HLCTimestamp::now(0, 1);
    let t1 = clock.send().expect("normal send");

    // A legitimate peer that is 4099s ahead (inside the permitted 4100s).
    let peer = HLCTimestamp::new(Duration::from_millis(W + DRIFT_MS - 1_000), 0, 2);
    clock.recv(&peer).expect("peer is within the permitted drift");
    assert!(clock > peer);

    // The wall clock is stepped back by two seconds.
    wall(W - 2_000);
    let before = clock;
    assert!(matches!(clock.send(), Err(TimestampError::ClockDrift)));
    assert_eq!(clock, before, "failed request must not change the clock");

    // ... and carries on, one second later it is inside the bound again.
    wall(W + 1_000);
    let t2 = clock.send().expect("satisfiable again");
    assert!(t2 > t1 && t2 > peer);
    assert_eq!(t2.node(), 1);
    assert!(t2.datacake_timestamp() <= Duration::from_millis(W + 1_000) + MAX_CLOCK_DRIFT);
}

/// The node clock on that schedule: peer 4099s ahead is accepted, the wall clock steps
/// back 2s, one `get_time()` cannot be satisfied, the wall clock moves on.
#[tokio::test]
async fn node_clock_survives_a_small_step_back_after_accepting_a_fast_peer() {
    wall(W);
    let clock = Clock::new(1);
    let t1 = try_get_time(&clock).await.expect("normal get_time");
    assert_eq!(t1.node(), 1);

    let peer = HLCTimestamp::new(Duration::from_millis(W + DRIFT_MS - 1_000), 0, 2);
    try_register(&clock, peer).await.expect("register a peer within the drift");
    let t_after_peer = try_get_time(&clock).await.expect("get_time after register");
    assert!(t_after_peer > peer, "the peer's stamp was accepted");

    // NTP steps the wall clock back by two seconds: the logical time is now 4101s ahead.
    wall(W - 2_000);
    let unsatisfiable = try_get_time(&clock).await;
    println!("get_time() while 4101s ahead of the wall clock: {unsatisfiable:?}");
    assert!(
        unsatisfiable.is_err(),
        "nothing may be issued more than the permitted drift ahead of the wall clock"
    );

    // Three seconds later the logical time is 4098s ahead: inside the bound again.
    wall(W + 1_000);
    let t2 = try_get_time(&clock).await;
    println!("get_time() once the wall clock has caught up:      {t2:?}");
    let t2 = t2.expect(
        "C09: the request that could not be satisfied must fail WITHOUT changing the \
         clock; instead it destroyed the clock for good",
    );
    assert!(t2 > t_after_peer && t2 > peer && t2 > t1);
    assert_eq!(t2.node(), 1);
    assert!(t2.datacake_timestamp() <= Duration::from_millis(W + 1_000) + MAX_CLOCK_DRIFT);

    // Registering a remote stamp must keep working as well.
    let peer2 = HLCTimestamp::new(Duration::from_millis(W + 1_000), 7, 3);
    try_register(&clock, peer2)
        .await
        .expect("C09: register_ts on a clock that merely refused one request");
}

/// The same without any peer: the wall clock alone jumps back by more than the drift
/// (e.g. a machine whose clock was an hour and ten minutes fast gets corrected).
#[tokio::test]
async fn node_clock_survives_a_large_step_back() {
    wall(W);
    let clock = Clock::new(1);
    let t1 = try_get_time(&clock).await.expect("normal get_time");

    wall(W - DRIFT_MS - 1_000);
    let unsatisfiable = try_get_time(&clock).await;
    println!("get_time() after the wall clock jumped back 4101s: {unsatisfiable:?}");
    assert!(unsatisfiable.is_err());

    wall(W + 4);
    let t2 = try_get_time(&clock).await;
    println!("get_time() once the wall clock has caught up:      {t2:?}");
    let t2 = t2.expect(
        "C09: the request that could not be satisfied must fail WITHOUT changing the \
         clock; instead it destroyed the clock for good",
    );
    assert!(t2 > t1);
    assert_eq!(t2.node(), 1);
}
