//! C09 demonstration: when the wall clock jumps backwards to a reading before the
//! datacake epoch (1st Jan 2023 - e.g. a machine whose RTC was reset, which then reports
//! 1970 / 2000 / its firmware build date until NTP repairs it), `HLCTimestamp::send()`
//! and `HLCTimestamp::recv()` do not fail with an error, they panic
//! ("overflow when subtracting durations" in `get_datacake_timestamp`).
//!
//! No feature is needed: the wall clock the *unmodified* library reads is faked at the
//! libc boundary. The test binary defines `clock_gettime` itself, so the reference that
//! `std::time::SystemTime::now()` has to that symbol is bound to the definition below;
//! it forwards to the real system call unless a fake CLOCK_REALTIME reading is installed.
//! (x86_64 / aarch64 Linux only.)
//!
//! Run with:
//!   cargo test --offline -p datacake-crdt --test c09_wall_before_epoch -- --test-threads=1
#![cfg(all(target_os = "linux", any(target_arch = "x86_64", target_arch = "aarch64")))]

use std::panic::{catch_unwind, AssertUnwindSafe};
use std::sync::atomic::{AtomicI64, Ordering};
use std::time::{Duration, SystemTime, UNIX_EPOCH};

use datacake_crdt::{HLCTimestamp, TimestampError, DATACAKE_EPOCH};

// ---------------------------------------------------------------------------------------
// The injected wall clock.

#[repr(C)]
pub struct Timespec {
    tv_sec: i64,
    tv_nsec: i64,
}

extern "C" {
    fn syscall(number: i64, ...) -> i64;
}

#[cfg(target_arch = "x86_64")]
const SYS_CLOCK_GETTIME: i64 = 228;
#[cfg(target_arch = "aarch64")]
const SYS_CLOCK_GETTIME: i64 = 113;
const CLOCK_REALTIME: i32 = 0;

/// Fake CLOCK_REALTIME reading in seconds since the UNIX epoch, `i64::MIN` = not faked.
static FAKE_REALTIME_SECS: AtomicI64 = AtomicI64::new(i64::MIN);

#[no_mangle]
/// # Safety
/// Same contract as the libc function of the same name.
pub unsafe extern "C" fn clock_gettime(clock_id: i32, tp: *mut Timespec) -> i32 {
    let fake = FAKE_REALTIME_SECS.load(Ordering::SeqCst);
    if clock_id == CLOCK_REALTIME && fake != i64::MIN {
        (*tp).tv_sec = fake;
        (*tp).tv_nsec = 0;
        return 0;
    }
    syscall(SYS_CLOCK_GETTIME, clock_id as i64, tp) as i32
}

fn set_wall_unix_secs(secs: Option<u64>) {
    FAKE_REALTIME_SECS.store(secs.map(|s| s as i64).unwrap_or(i64::MIN), Ordering::SeqCst);
}

// ---------------------------------------------------------------------------------------

/// 2023-06-01T00:00:00Z
const NORMAL: u64 = 1_685_577_600;
/// 2022-06-01T00:00:00Z - seven months before the datacake epoch.
const BEFORE_EPOCH: u64 = 1_654_041_600;

/// Sanity: the interposed wall clock is what the library sees, and with a sane reading
/// the clock behaves as always.
#[test]
fn a_the_fake_wall_clock_is_what_the_library_reads() {
    set_wall_unix_secs(Some(NORMAL));
    assert_eq!(
        SystemTime::now().duration_since(UNIX_EPOCH).unwrap(),
        Duration::from_secs(NORMAL)
    );
    assert_eq!(
        datacake_crdt::get_datacake_timestamp(),
        Duration::from_secs(NORMAL) - DATACAKE_EPOCH
    );

    let mut clock = HLCTimestamp::now(0, 1);
    let t1 = clock.send().unwrap();
    set_wall_unix_secs(Some(NORMAL - 30)); // an ordinary step back: handled
    let t2 = clock.send().unwrap();
    assert!(t2 > t1);
    set_wall_unix_secs(None);
}

#[test]
fn b_send_with_the_wall_clock_before_the_datacake_epoch() {
    set_wall_unix_secs(Some(NORMAL));
    let mut clock = HLCTimestamp::now(0, 1);
    let t1 = clock.send().expect("normal send");

    // The wall clock jumps backwards to a date before 1st Jan 2023.
    set_wall_unix_secs(Some(BEFORE_EPOCH));
    let before = clock;
    let outcome = catch_unwind(AssertUnwindSafe(|| clock.send()));
    set_wall_unix_secs(None);

    println!("send() with the wall clock at 2022-06-01: {outcome:?}");
    let result = outcome.expect(
        "C09: send() must cope with a wall clock that jumped backwards (fail with an \
         error if it cannot issue a stamp), not panic",
    );
    // The logical time is months ahead of this wall clock, so the only correct outcome
    // is a refusal that leaves the clock alone.
    assert!(matches!(result, Err(TimestampError::ClockDrift)), "{result:?}");
    assert_eq!(clock, before);
    assert!(clock >= t1);
}

#[test]
fn c_recv_with_the_wall_clock_before_the_datacake_epoch() {
    set_wall_unix_secs(Some(NORMAL));
    let mut clock = HLCTimestamp::now(0, 1);
    let remote = HLCTimestamp::new(clock.datacake_timestamp(), 3, 2);

    set_wall_unix_secs(Some(BEFORE_EPOCH));
    let before = clock;
    let outcome = catch_unwind(AssertUnwindSafe(|| clock.recv(&remote)));
    set_wall_unix_secs(None);

    println!("recv() with the wall clock at 2022-06-01: {outcome:?}");
    let result = outcome.expect(
        "C09: recv() must cope with a wall clock that jumped backwards (fail with an \
         error if it cannot accept the stamp), not panic",
    );
    assert!(matches!(result, Err(TimestampError::ClockDrift)), "{result:?}");
    assert_eq!(clock, before);
}
