//! C18: "All operations on a keyspace name are applied to one and the same replicated set for
//! the life of the node ... so no accepted operation is missing from the set that peers later
//! synchronise against."
//!
//! The replicated set of a keyspace lives inside an actor task which `get_or_create_keyspace`
//! spawns with `tokio::spawn` from inside the task which happens to use the keyspace FIRST.
//! The node itself (clock, RPC server, poller, distributor, membership) lives on the runtime
//! the node was created on, but the state of a keyspace lives on the runtime of its first user.
//! If that user is a client write issued from a shorter lived runtime (a worker thread with its
//! own runtime, a job runner, `Runtime::new().block_on(handle.put(..))` from sync code ...)
//! the write is accepted, and when that runtime goes away the set is destroyed while
//! the group keeps handing out the dead mailbox for the rest of the life of the node:
//!
//!  * every later operation on that keyspace name panics instead of being applied to the set,
//!  * peers which synchronise against the node can never fetch the state, so the accepted
//!    write never reaches a node which was not around when it was made.
//!
//! Only the public API is used (feature `test-utils` for the in-memory `MemStore`, exactly as
//! the crate's own integration tests).
use std::net::SocketAddr;
use std::time::Duration;

use datacake_eventual_consistency::test_utils::MemStore;
use datacake_eventual_consistency::{
    EventuallyConsistentStore,
    EventuallyConsistentStoreExtension,
    ReplicatedStoreHandle,
};
use datacake_node::{
    ConnectionConfig,
    Consistency,
    DCAwareSelector,
    DatacakeNode,
    DatacakeNodeBuilder,
};

/// A client write made from a runtime of its own, which is gone when this returns.
///
/// The write must be *accepted* for the test to go on.
fn put_from_short_lived_runtime(
    handle: &ReplicatedStoreHandle<MemStore>,
    keyspace: &'static str,
    doc_id: u64,
) {
    let handle = handle.clone();
    std::thread::spawn(move || {
        let rt = tokio::runtime::Builder::new_current_thread()
            .enable_all()
            .build()
            .expect("build runtime");
        rt.block_on(handle.put(keyspace, doc_id, b"hello".to_vec(), Consistency::None))
            .expect("the write is accepted");
        // `rt` is dropped here: the worker is done.
    })
    .join()
    .expect("worker thread");
}

async fn connect(
    node_id: u8,
    addr: SocketAddr,
    seeds: Vec<String>,
) -> (DatacakeNode, EventuallyConsistentStore<MemStore>) {
    let cfg = ConnectionConfig::new(addr, addr, seeds);
    let node = DatacakeNodeBuilder::<DCAwareSelector>::new(node_id, cfg)
        .connect()
        .await
        .expect("connect node");
    let store = node
        .add_extension(EventuallyConsistentStoreExtension::new(MemStore::default()))
        .await
        .expect("create store");
    (node, store)
}

/// One node. A keyspace is first used by a client on a short lived runtime, the write is
/// accepted. A later write to the same keyspace name, made on the node's own runtime, has to be
/// applied to the same set.
#[tokio::test(flavor = "multi_thread", worker_threads = 2)]
async fn later_operations_reach_the_state_of_a_keyspace_first_used_on_another_runtime() {
    let addr = test_helper::get_unused_addr();
    let (_node, store) = connect(1, addr, Vec::new()).await;
    let handle = store.handle();

    // Control: the same sequence on a keyspace which is first used on the node's runtime.
    handle
        .put("control", 1, b"hello".to_vec(), Consistency::None)
        .await
        .expect("put");

    put_from_short_lived_runtime(&handle, "fresh", 1);

    // The node is alive and well, and the accepted document is in the store.
    handle
        .put("control", 2, b"hello".to_vec(), Consistency::None)
        .await
        .expect("put");
    assert!(handle.get("fresh", 1).await.expect("get").is_some());

    // Wrapped in a task only so that a panic is reported instead of tearing down the test.
    let h = handle.clone();
    let res = tokio::spawn(async move {
        h.put("fresh", 2, b"hello".to_vec(), Consistency::None).await
    })
    .await;

    match res {
        Ok(res) => res.expect("put"),
        Err(e) => panic!(
            "C18 violated: the state of keyspace 'fresh' did not live as long as the node, \
             a later write to it could not be applied: {e}"
        ),
    }
    assert!(handle.get("fresh", 2).await.expect("get").is_some());
}

/// Control (passes): exactly the same clients, but the keyspace happens to be used on the node's
/// runtime first. Using a handle from a second runtime is fine as such, the only thing which
/// differs from the failing test above is WHO touches the fresh keyspace first.
#[tokio::test(flavor = "multi_thread", worker_threads = 2)]
async fn control_same_clients_but_first_use_on_the_nodes_runtime() {
    let addr = test_helper::get_unused_addr();
    let (_node, store) = connect(1, addr, Vec::new()).await;
    let handle = store.handle();

    handle
        .put("fresh", 0, b"hello".to_vec(), Consistency::None)
        .await
        .expect("put");
    put_from_short_lived_runtime(&handle, "fresh", 1);
    handle
        .put("fresh", 2, b"hello".to_vec(), Consistency::None)
        .await
        .expect("put");

    for id in 0..3 {
        assert!(handle.get("fresh", id).await.expect("get").is_some());
    }
}

/// Two nodes. Node 2 joins after the writes were made, so it can only learn of them through
/// the anti-entropy exchange, i.e. by fetching the keyspace state of node 1.
#[tokio::test(flavor = "multi_thread", worker_threads = 2)]
async fn peers_can_synchronise_against_a_keyspace_first_used_on_another_runtime() {
    let addr_1 = test_helper::get_unused_addr();
    let addr_2 = test_helper::get_unused_addr();

    let (node_1, store_1) = connect(1, addr_1, vec![addr_2.to_string()]).await;
    let handle_1 = store_1.handle();

    // Control: a keyspace first used on the node's runtime.
    handle_1
        .put("control", 1, b"hello".to_vec(), Consistency::None)
        .await
        .expect("put");
    // A keyspace first used by a client with a runtime of its own. The write is accepted.
    put_from_short_lived_runtime(&handle_1, "fresh", 1);

    // Let the distributor flush its batch (there is nobody to send it to yet).
    tokio::time::sleep(Duration::from_secs(2)).await;

    let (node_2, store_2) = connect(2, addr_2, vec![addr_1.to_string()]).await;
    let handle_2 = store_2.handle();
    node_1
        .wait_for_nodes(&[2], Duration::from_secs(30))
        .await
        .expect("nodes connect");
    node_2
        .wait_for_nodes(&[1], Duration::from_secs(30))
        .await
        .expect("nodes connect");

    // With `test-utils` the repair interval is 1s: this is ~15 rounds of anti-entropy.
    let mut control = false;
    let mut fresh = false;
    for _ in 0..15 {
        tokio::time::sleep(Duration::from_secs(1)).await;
        control = handle_2.get("control", 1).await.expect("get").is_some();
        fresh = handle_2.get("fresh", 1).await.expect("get").is_some();
        if control && fresh {
            break;
        }
    }

    assert!(
        control,
        "(control) node 2 should have fetched the 'control' keyspace from node 1"
    );
    assert!(
        fresh,
        "C18 violated: the write to 'fresh' was accepted by node 1, but the set node 2 \
         synchronises against is gone, the document never arrives (control keyspace arrived: {control})"
    );
}
