//! C18 (adjacent): "All operations on a keyspace name are applied to one and the same replicated
//! set for the life of the node".
//!
//! With the bundled LMDB storage a single first use of a keyspace whose name contains a NUL
//! character (a legal Rust `String`, accepted by every layer above, and also accepted from a
//! peer over the consistency / replication RPCs) panics inside the storage worker thread
//! (`heed` does `CString::new(name).unwrap()` on the database name built from the keyspace).
//! The worker thread is gone for good, so the actor of EVERY keyspace panics on its next
//! storage call and dies, while the keyspace group keeps handing out the dead mailboxes:
//! no later operation on any keyspace name of the node is applied to its set any more.
use std::env::temp_dir;

use datacake_eventual_consistency::EventuallyConsistentStoreExtension;
use datacake_lmdb::LmdbStorage;
use datacake_node::{
    ConnectionConfig,
    Consistency,
    DCAwareSelector,
    DatacakeNodeBuilder,
};
use uuid::Uuid;

#[tokio::test(flavor = "multi_thread", worker_threads = 2)]
async fn an_odd_keyspace_name_does_not_take_down_the_other_keyspaces() {
    let dir = temp_dir().join(Uuid::new_v4().to_string());
    std::fs::create_dir_all(&dir).unwrap();
    let storage = LmdbStorage::open(&dir).await.expect("open");

    let addr = test_helper::get_unused_addr();
    let cfg = ConnectionConfig::new(addr, addr, Vec::<String>::new());
    let node = DatacakeNodeBuilder::<DCAwareSelector>::new(1, cfg)
        .connect()
        .await
        .expect("connect");
    let store = node
        .add_extension(EventuallyConsistentStoreExtension::new(storage))
        .await
        .expect("store");
    let handle = store.handle();

    // A healthy keyspace with an accepted write.
    handle
        .put("good", 1, b"hello".to_vec(), Consistency::None)
        .await
        .expect("put");

    // First use of a keyspace with an odd name. Whatever happens to THIS write (an error would
    // be perfectly fine), it must not affect the keyspace `good`.
    let h = handle.clone();
    let odd = tokio::spawn(async move {
        h.put("odd\0name", 1, b"hello".to_vec(), Consistency::None)
            .await
            .map_err(|e| e.to_string())
    })
    .await;
    println!("write to the oddly named keyspace: {odd:?}");

    // Later operations on `good` have to be applied to its one state.
    let h = handle.clone();
    let res = tokio::spawn(async move {
        h.put("good", 2, b"hello".to_vec(), Consistency::None)
            .await
            .map_err(|e| e.to_string())
    })
    .await;

    let _ = std::fs::remove_dir_all(&dir);

    match res {
        Ok(res) => res.expect("put"),
        Err(e) => panic!(
            "C18 violated: keyspace 'good' lost its state for the rest of the life of the node \
             because ANOTHER keyspace name was used once: {e}"
        ),
    }
}
