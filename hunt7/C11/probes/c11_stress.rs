//! Exploration: real concurrency, real wall clock, full channel.
use std::collections::HashSet;
use std::sync::Arc;
use std::time::Duration;

use datacake_crdt::HLCTimestamp;
use datacake_node::Clock;

async fn full_channel_fifo() {
    let clock = Clock::new(7);
    let t0 = clock.get_time().await;
    let n = 2500u64;
    let mut handles = Vec::new();
    for i in 0..n {
        // always in the back-pressure band, so that the actor is slow and the channel fills up
        let r = HLCTimestamp::new(
            t0.datacake_timestamp() + Duration::from_secs(100) + Duration::from_millis(4 * i),
            65_528,
            (i % 7) as u8,
        );
        let (tx, rx) = tokio::sync::oneshot::channel();
        let c1 = clock.clone();
        let c2 = clock.clone();
        handles.push(tokio::spawn(async move {
            c1.register_ts(r).await;
            let _ = tx.send(());
            Vec::new()
        }));
        handles.push(tokio::spawn(async move {
            rx.await.unwrap();
            let a = c2.get_time().await;
            assert!(a > r, "stamp {a} requested after registering {r}");
            let b = c2.get_time().await;
            assert!(b > a);
            vec![a, b]
        }));
    }
    let mut all = HashSet::new();
    let mut count = 0;
    for h in handles {
        for ts in h.await.unwrap() {
            count += 1;
            all.insert(ts);
        }
    }
    assert_eq!(all.len(), count);
}

#[tokio::test(flavor = "multi_thread", worker_threads = 4)]
async fn full_channel_fifo_mt() {
    full_channel_fifo().await
}

#[tokio::test(flavor = "current_thread")]
async fn full_channel_fifo_st() {
    full_channel_fifo().await
}

#[tokio::test(flavor = "multi_thread", worker_threads = 4)]
async fn plain_stress() {
    let clock = Clock::new(1);
    let seen = Arc::new(std::sync::Mutex::new(HashSet::new()));
    let mut hs = Vec::new();
    for t in 0..64u64 {
        let clock = clock.clone();
        let seen = seen.clone();
        hs.push(tokio::spawn(async move {
            let mut last = None;
            let mut mine = Vec::new();
            for i in 0..3000u64 {
                if i % 97 == t % 97 {
                    let now = clock.get_time().await;
                    let r = HLCTimestamp::new(
                        now.datacake_timestamp() + Duration::from_millis((t * 13 + i) % 5000),
                        (i * 7919 % 65536) as u16,
                        (t % 5) as u8,
                    );
                    clock.register_ts(r).await;
                    let ts = clock.get_time().await;
                    if r.node() != 1 {
                        assert!(ts > r);
                    }
                    mine.push(now);
                    mine.push(ts);
                    assert!(Some(now) > last);
                    assert!(ts > now);
                    last = Some(ts);
                } else {
                    let ts = clock.get_time().await;
                    assert!(Some(ts) > last);
                    last = Some(ts);
                    mine.push(ts);
                }
            }
            let mut s = seen.lock().unwrap();
            for m in mine {
                assert!(s.insert(m), "duplicate {m}");
            }
        }));
    }
    for h in hs {
        h.await.unwrap();
    }
}
