#![cfg(feature = "verif")]
//! Exploration: random histories with an injected wall clock, checked against C11.

use std::time::Duration;

use datacake_crdt::{verif_clock, HLCTimestamp};
const MAX_CLOCK_DRIFT: Duration = Duration::from_secs(4_100);
use datacake_node::Clock;

struct Rng(u64);
impl Rng {
    fn next(&mut self) -> u64 {
        self.0 ^= self.0 << 13;
        self.0 ^= self.0 >> 7;
        self.0 ^= self.0 << 17;
        self.0
    }
    fn below(&mut self, n: u64) -> u64 {
        self.next() % n
    }
}

fn logical(ts: &HLCTimestamp) -> Duration {
    ts.datacake_timestamp()
}

#[tokio::test(flavor = "current_thread")]
async fn random_histories() {
    let mut deaths = 0;
    for seed in 1..=6000u64 {
        let hist = std::sync::Arc::new(std::sync::Mutex::new(Vec::new()));
        let res = tokio::spawn(one(seed, hist.clone())).await;
        if let Err(e) = res {
            let h = hist.lock().unwrap();
            let msg = format!("{:?}", e.into_panic().downcast_ref::<String>());
            let n = h.len();
            eprintln!("seed {seed}: PANIC {msg}\n   tail: {:#?}", &h[n.saturating_sub(4)..]);
            deaths += 1;
        }
    }
    verif_clock::set_wall_ms(None);
    eprintln!("deaths: {deaths}");
}

async fn one(seed: u64, hist: std::sync::Arc<std::sync::Mutex<Vec<String>>>) {
    let drift_ms = MAX_CLOCK_DRIFT.as_millis() as u64;
    {
        let mut rng = Rng(seed.wrapping_mul(0x9E3779B97F4A7C15) | 1);
        let mut wall = 1_000_000_000u64 + rng.below(1000) * 4;
        verif_clock::set_wall_ms(Some(wall));
        let me = rng.below(3) as u8;
        let clock = Clock::new(me);
        let mut last: Option<HLCTimestamp> = None;
        let mut state: Option<HLCTimestamp> = None;
        datacake_node::verif::take_clock_log();
        let (mut sent, mut seen) = (0usize, 0usize);
        let mut floor: Option<HLCTimestamp> = None; // greatest registered in-drift remote
        struct H(std::sync::Arc<std::sync::Mutex<Vec<String>>>);
        impl H { fn push(&mut self, s: String) { self.0.lock().unwrap().push(s) } }
        impl std::fmt::Debug for H { fn fmt(&self, f: &mut std::fmt::Formatter<'_>) -> std::fmt::Result { write!(f, "{:#?}", self.0.lock().unwrap()) } }
        let mut history = H(hist);
        for _ in 0..40 {
            match rng.below(10) {
                0..=2 => {
                    let step = [0u64, 1, 3, 4, 5, 8, 1000, 4_100_000][rng.below(8) as usize];
                    while seen < sent {
                        let log = datacake_node::verif::take_clock_log();
                        seen += log.len();
                        if let Some(e) = log.last() { state = Some(HLCTimestamp::from_u64(e.2)); }
                        if seen < sent { tokio::time::sleep(Duration::from_micros(200)).await; }
                    }
                    if std::env::var("REGRESS").is_ok() && rng.below(3) == 0 {
                        wall -= [1u64, 4, 8, 1000, 5000, 4_100_000][rng.below(6) as usize];
                        history.push("wall back".to_string());
                    }
                    wall += step;
                    verif_clock::set_wall_ms(Some(wall));
                    history.push(format!("wall+={step}"));
                },
                3..=5 => {
                    // a remote stamp around interesting points
                    let base = match rng.below(4) {
                        0 => wall,
                        1 => wall + drift_ms,
                        2 => last.map(|l| logical(&l).as_millis() as u64).unwrap_or(wall),
                        _ => wall + rng.below(drift_ms),
                    };
                    let off = [-8i64, -4, -1, 0, 1, 3, 4, 8][rng.below(8) as usize];
                    let t = (base as i64 + off) as u64;
                    let c = match rng.below(5) {
                        0 => 0u16,
                        1 => u16::MAX,
                        2 => u16::MAX - 1,
                        3 => last.map(|l| l.counter()).unwrap_or(7),
                        _ => rng.below(65536) as u16,
                    };
                    let node = rng.below(4) as u8;
                    let mut r = HLCTimestamp::new(Duration::from_millis(t), c, node);
                    if rng.below(6) == 0 {
                        // non canonical fractional part
                        let raw = (r.as_u64() & !(0xFFu64 << 24))
                            | ((250 + rng.below(6)) << 24);
                        r = HLCTimestamp::from_u64(raw);
                    }
                    let wall_now = Duration::from_millis(wall / 4 * 4);
                    let in_drift = logical(&r).saturating_sub(wall_now) <= MAX_CLOCK_DRIFT;
                    // known and excluded: nothing above it is within the drift bound
                    let pinned = r.counter() == u16::MAX
                        && (logical(&r) + Duration::from_millis(4)).saturating_sub(wall_now)
                            > MAX_CLOCK_DRIFT;
                    clock.register_ts(r).await;
                    if node != me { sent += 1; }
                    history.push(format!("reg {r} in_drift={in_drift} pinned={pinned}"));
                    if node != me && in_drift && !pinned {
                        floor = Some(floor.map_or(r, |f| f.max(r)));
                    }
                },
                _ => {
                    // known and excluded: clock pinned at the drift limit with no counter left
                    loop {
                        let log = datacake_node::verif::take_clock_log();
                        seen += log.len();
                        if let Some(e) = log.last() { state = Some(HLCTimestamp::from_u64(e.2)); }
                        if seen >= sent { break; }
                        tokio::time::sleep(Duration::from_micros(200)).await;
                    }
                    if let Some(st) = state {
                        if st.counter() == u16::MAX && (logical(&st) + Duration::from_millis(4)).saturating_sub(Duration::from_millis(wall / 4 * 4)) > MAX_CLOCK_DRIFT {
                            history.push(format!("skip get, pinned at {st}"));
                            continue;
                        }
                    }
                    let ts = clock.get_time().await;
                    sent += 1;
                    history.push(format!("get -> {ts}"));
                    if let Some(l) = last {
                        assert!(ts > l, "seed {seed}: regress {history:#?}");
                    }
                    if let Some(f) = floor {
                        assert!(ts > f, "seed {seed}: below registered {history:#?}");
                    }
                    assert_eq!(ts.node(), me);
                    last = Some(ts);
                },
            }
        }
        while seen < sent {
            seen += datacake_node::verif::take_clock_log().len();
            tokio::time::sleep(Duration::from_micros(200)).await;
        }
    }
}
