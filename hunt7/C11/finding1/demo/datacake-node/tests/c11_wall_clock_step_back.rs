#![cfg(feature = "verif")]
//! C11 - a backwards step of the node's wall clock kills the shared clock actor for good.
//!
//! Run with:
//!   cargo test --offline -p datacake-node --features verif --test c11_wall_clock_step_back
//!
//! The wall clock is injected through `datacake_crdt::verif_clock::set_wall_ms` (feature
//! `verif`), everything else is the real `datacake_node::Clock` used through its public API.

use std::collections::HashSet;
use std::time::Duration;

use datacake_crdt::{verif_clock, HLCTimestamp};
use datacake_node::Clock;

/// The injected wall clock is process wide, the two tests must not overlap.
static WALL: tokio::sync::Mutex<()> = tokio::sync::Mutex::const_new(());

/// Some instant, in ms since the datacake epoch (a multiple of the 4 ms resolution).
const W: u64 = 120_000_000_000;

/// `tasks` tasks ask the shared clock for `per_task` stamps each; a task whose call panicked,
/// or got no answer within five seconds, shows up as `None`.
async fn ask(clock: &Clock, tasks: usize, per_task: usize) -> Vec<Option<Vec<HLCTimestamp>>> {
    let mut handles = Vec::new();
    for _ in 0..tasks {
        let clock = clock.clone();
        handles.push(tokio::spawn(async move {
            let mut mine = Vec::new();
            for _ in 0..per_task {
                let answer = tokio::time::timeout(Duration::from_secs(5), clock.get_time());
                mine.push(answer.await.expect("no answer from the clock within 5 s"));
            }
            mine
        }));
    }
    let mut out = Vec::new();
    for handle in handles {
        out.push(handle.await.ok());
    }
    out
}

/// What C11 promises about a batch of answers, given everything handed out before.
fn check(
    what: &str,
    answers: Vec<Option<Vec<HLCTimestamp>>>,
    seen: &mut HashSet<HLCTimestamp>,
    newer_than: Option<HLCTimestamp>,
) {
    let dead = answers.iter().filter(|a| a.is_none()).count();
    assert_eq!(
        dead,
        0,
        "{what}: {dead} of {} tasks got no timestamp at all, their get_time() call panicked or never returned",
        answers.len()
    );
    for mine in answers.into_iter().flatten() {
        for pair in mine.windows(2) {
            assert!(pair[0] < pair[1], "{what}: a task saw {} then {}", pair[0], pair[1]);
        }
        for ts in mine {
            assert!(seen.insert(ts), "{what}: {ts} handed out twice");
            if let Some(remote) = newer_than {
                assert!(ts > remote, "{what}: {ts} is not newer than registered {remote}");
            }
        }
    }
}

/// A peer runs one hour ahead (inside the allowed drift of 4100 s), so the node's logical
/// clock runs one hour ahead of its wall clock. The wall clock is then stepped back by ten
/// minutes for a moment (NTP step, VM resume, operator) and comes back.
#[tokio::test(flavor = "multi_thread", worker_threads = 4)]
async fn step_back_with_a_peer_ahead() {
    let _guard = WALL.lock().await;
    verif_clock::set_wall_ms(Some(W));

    let clock = Clock::new(1);
    let mut seen = HashSet::new();
    check("before", ask(&clock, 4, 50).await, &mut seen, None);

    let remote = HLCTimestamp::new(Duration::from_millis(W + 3_600_000), 0, 2);
    clock.register_ts(remote).await;
    check("peer one hour ahead", ask(&clock, 4, 50).await, &mut seen, Some(remote));

    // The wall clock steps back by ten minutes ...
    verif_clock::set_wall_ms(Some(W - 600_000));
    let during = ask(&clock, 1, 1).await;
    // ... and is right again one second later.
    verif_clock::set_wall_ms(Some(W + 1_000));
    let after = ask(&clock, 4, 50).await;
    verif_clock::set_wall_ms(None);

    check("during the step back", during, &mut seen, Some(remote));
    check("after the wall clock is right again", after, &mut seen, Some(remote));
}

/// No peer involved: the wall clock itself is corrected backwards by more than the drift
/// bound (an operator fixes a clock that was two hours fast).
#[tokio::test(flavor = "current_thread")]
async fn step_back_beyond_the_drift_bound() {
    let _guard = WALL.lock().await;
    verif_clock::set_wall_ms(Some(W));

    let clock = Clock::new(1);
    let mut seen = HashSet::new();
    check("before", ask(&clock, 4, 50).await, &mut seen, None);

    verif_clock::set_wall_ms(Some(W - 7_200_000));
    let after = ask(&clock, 4, 50).await;
    verif_clock::set_wall_ms(None);

    check("after the correction", after, &mut seen, None);
}
