//! Scratch: snapshots -> real membership stream -> real distributor -> which peers get a write.
#![cfg(all(feature = "verif", feature = "test-utils"))]

use std::net::SocketAddr;
use std::sync::Arc;
use std::time::Duration;

use datacake_eventual_consistency::test_utils::MemStore;
use datacake_eventual_consistency::verif::{
    start_distributor,
    ConsistencyService,
    KeyspaceGroup,
};
use datacake_eventual_consistency::{Document, Storage};
use datacake_node::verif::{membership_changes, NodeMembership};
use datacake_node::{Clock, ClusterMember, NodeId, RpcNetwork};
use datacake_rpc::Server;
use futures::StreamExt;
use tokio::sync::watch;

struct Peer {
    addr: SocketAddr,
    group: KeyspaceGroup<MemStore>,
    _server: Server,
}

async fn peer(clock_id: NodeId) -> Peer {
    let addr = test_helper::get_unused_addr();
    let server = Server::listen(addr).await.unwrap();
    let group =
        KeyspaceGroup::new(Arc::new(MemStore::default()), Clock::new(clock_id)).await;
    server.add_service(ConsistencyService::new(group.clone(), RpcNetwork::default()));
    Peer {
        addr,
        group,
        _server: server,
    }
}

async fn has(p: &Peer, id: u64) -> bool {
    p.group.storage().get("ks", id).await.unwrap().is_some()
}

fn snap(members: &[(NodeId, SocketAddr)]) -> NodeMembership {
    let mut m = NodeMembership::new();
    m.insert(
        0,
        ClusterMember::new(0, "127.0.0.1:1".parse().unwrap(), "dc".into()),
    );
    for (id, addr) in members {
        m.insert(*id, ClusterMember::new(*id, *addr, "dc".into()));
    }
    m
}

#[tokio::test]
async fn writes_go_to_exactly_the_live_peers() {
    let a = peer(1).await; // node 1 at its first address
    let b = peer(2).await; // node 2
    let c = peer(1).await; // node 1 at its second address
    let d = peer(3).await; // node 3, shares nothing

    let clock = Clock::new(0);
    let network = RpcNetwork::default();
    let distributor = start_distributor::<MemStore>(
        clock.clone(),
        network,
        0,
        "127.0.0.1:1".parse().unwrap(),
    )
    .await;
    let distributor = Arc::new(distributor);

    // members join before anybody subscribes
    let (tx, rx) = watch::channel(snap(&[(1, a.addr), (2, b.addr)]));

    // the late subscriber (what the store's watch_membership_changes does)
    let mut changes = membership_changes(0, rx);
    let d2 = distributor.clone();
    tokio::spawn(async move {
        while let Some(change) = changes.next().await {
            d2.membership_change(change);
        }
    });

    let put = |id: u64| {
        let clock = clock.clone();
        let distributor = distributor.clone();
        async move {
            let ts = clock.get_time().await;
            distributor.put("ks", Document::new(id, ts, b"x".to_vec()));
            tokio::time::sleep(Duration::from_millis(2500)).await;
        }
    };

    put(1).await;
    assert!(has(&a, 1).await && has(&b, 1).await);
    assert!(!has(&c, 1).await && !has(&d, 1).await);

    // node 1 moves to a new address, node 3 joins, then node 2 leaves: all between two reads
    tx.send(snap(&[(1, c.addr), (2, b.addr), (3, d.addr)])).unwrap();
    tx.send(snap(&[(1, c.addr), (3, d.addr)])).unwrap();
    tokio::time::sleep(Duration::from_millis(200)).await;
    put(2).await;
    assert!(has(&c, 2).await, "node 1 at its new address");
    assert!(has(&d, 2).await, "node 3");
    assert!(!has(&a, 2).await, "node 1's old address");
    assert!(!has(&b, 2).await, "node 2 left");

    // node 1 moves back and forth, node 3 leaves and rejoins
    tx.send(snap(&[(1, a.addr)])).unwrap();
    tokio::task::yield_now().await;
    tx.send(snap(&[(1, c.addr), (3, d.addr)])).unwrap();
    tokio::time::sleep(Duration::from_millis(200)).await;
    put(3).await;
    assert!(has(&c, 3).await && has(&d, 3).await);
    assert!(!has(&a, 3).await && !has(&b, 3).await);

    // everybody leaves
    tx.send(snap(&[])).unwrap();
    tokio::time::sleep(Duration::from_millis(200)).await;
    put(4).await;
    for p in [&a, &b, &c, &d] {
        assert!(!has(p, 4).await);
    }
    distributor.kill();
}
