//! Scratch: exhaustive check of the snapshot -> watcher -> subscriber pipeline.
#![cfg(feature = "verif")]

use std::borrow::Cow;
use std::collections::{BTreeMap, BTreeSet};
use std::net::SocketAddr;

use datacake_node::verif::{
    membership_changes,
    run_membership_watcher,
    start_node_selector,
    NodeMembership,
};
use datacake_node::{ClusterMember, DCAwareSelector, MembershipChanges, NodeId};
use futures::{FutureExt, StreamExt};
use tokio::sync::watch;
use tokio_stream::wrappers::WatchStream;

const SELF_ID: NodeId = 0;

fn addr(n: u16) -> SocketAddr {
    ([127, 0, 0, 1], 9000 + n).into()
}

/// state of one peer: 0 absent, k>0 => at address k
fn snapshot(code: &[u16]) -> NodeMembership {
    let mut m = NodeMembership::new();
    m.insert(SELF_ID, ClusterMember::new(SELF_ID, addr(0), "dc".into()));
    for (i, &c) in code.iter().enumerate() {
        let id = (i + 1) as NodeId;
        if c != 0 {
            m.insert(id, ClusterMember::new(id, addr(c), "dc".into()));
        }
    }
    m
}

fn others(m: &NodeMembership) -> BTreeMap<NodeId, SocketAddr> {
    m.iter()
        .filter(|(id, _)| **id != SELF_ID)
        .map(|(id, mem)| (*id, mem.public_addr))
        .collect()
}

struct Sub {
    stream: MembershipChanges,
    by_id: BTreeMap<NodeId, SocketAddr>,
    pairs: BTreeSet<(NodeId, SocketAddr)>,
}

impl Sub {
    fn drain(&mut self, ctx: &str) {
        while let Some(Some(change)) = self.stream.next().now_or_never() {
            for m in &change.left {
                assert_eq!(
                    self.by_id.get(&m.node_id),
                    Some(&m.public_addr),
                    "left member not held with that address: {ctx}"
                );
                self.by_id.remove(&m.node_id);
                self.pairs.remove(&(m.node_id, m.public_addr));
            }
            for m in &change.joined {
                assert_ne!(
                    self.by_id.get(&m.node_id),
                    Some(&m.public_addr),
                    "joined member already held: {ctx}"
                );
                self.by_id.insert(m.node_id, m.public_addr);
                self.pairs.insert((m.node_id, m.public_addr));
            }
        }
    }
}

async fn run_history(
    seq: &[Vec<u16>],
    sub_point: usize,
    read_mask: u32,
    watcher_mask: u32,
) {
    let ctx = format!("seq={seq:?} sub_point={sub_point} read_mask={read_mask:b} watcher_mask={watcher_mask:b}");
    let selector =
        start_node_selector(addr(0), Cow::Borrowed("dc"), DCAwareSelector::default())
            .await;
    let (snap_tx, snap_rx) = watch::channel(snapshot(&vec![0; seq[0].len()]));
    let (out_tx, out_rx) = watch::channel(NodeMembership::new());
    let task = tokio::spawn(run_membership_watcher(
        SELF_ID,
        selector,
        WatchStream::new(snap_rx),
        out_tx,
    ));

    let mut sub: Option<Sub> = None;
    let k = seq.len();
    for i in 0..=k {
        if i > 0 {
            let snap = snapshot(&seq[i - 1]);
            snap_tx.send(snap.clone()).unwrap();
            let last = i == k;
            if last || (watcher_mask >> (i - 1)) & 1 == 1 {
                let mut n = 0;
                while *out_rx.borrow() != snap {
                    tokio::task::yield_now().await;
                    n += 1;
                    assert!(n < 10_000, "watcher never published: {ctx}");
                }
            }
        }
        if i == sub_point {
            sub = Some(Sub {
                stream: membership_changes(SELF_ID, out_rx.clone()),
                by_id: BTreeMap::new(),
                pairs: BTreeSet::new(),
            });
        }
        if let Some(sub) = sub.as_mut() {
            if i == k || (read_mask >> i) & 1 == 1 {
                sub.drain(&ctx);
            }
        }
    }

    let sub = sub.unwrap();
    let expect = others(&snapshot(&seq[k - 1]));
    assert_eq!(sub.by_id, expect, "by id: {ctx}");
    let expect_pairs: BTreeSet<_> = expect.into_iter().collect();
    assert_eq!(sub.pairs, expect_pairs, "pairs: {ctx}");
    task.abort();
}

fn sequences(npeers: usize, naddr: u16, len: usize) -> Vec<Vec<Vec<u16>>> {
    let mut states: Vec<Vec<u16>> = vec![vec![]];
    for _ in 0..npeers {
        let mut next = Vec::new();
        for s in &states {
            for a in 0..=naddr {
                let mut s = s.clone();
                s.push(a);
                next.push(s);
            }
        }
        states = next;
    }
    let mut seqs: Vec<Vec<Vec<u16>>> = vec![vec![]];
    for _ in 0..len {
        let mut next = Vec::new();
        for s in &seqs {
            for st in &states {
                let mut s = s.clone();
                s.push(st.clone());
                next.push(s);
            }
        }
        seqs = next;
    }
    seqs
}

#[tokio::test(flavor = "current_thread")]
async fn exhaustive_len3_two_peers_two_addrs() {
    let mut n = 0u64;
    for len in 1..=3usize {
        for seq in sequences(2, 2, len) {
            for sub_point in 0..=len {
                for read_mask in 0..(1u32 << (len + 1)) {
                    for watcher_mask in 0..(1u32 << len) {
                        run_history(&seq, sub_point, read_mask, watcher_mask).await;
                        n += 1;
                    }
                }
            }
        }
    }
    println!("histories checked: {n}");
}

#[tokio::test(flavor = "current_thread")]
async fn shared_address_three_peers() {
    // three peers, two addresses (peers may share an address), len 2
    let mut n = 0u64;
    for len in 1..=2usize {
        for seq in sequences(3, 2, len) {
            for sub_point in 0..=len {
                for read_mask in 0..(1u32 << (len + 1)) {
                    run_history(&seq, sub_point, read_mask, u32::MAX).await;
                    n += 1;
                }
            }
        }
    }
    println!("histories checked: {n}");
}
