//! Adjacent observation (outside C16 as stated): a node which is restarted with the node id
//! and address it had, after its peers declared it dead, stays invisible to those peers for
//! about as long as it had been up before (its chitchat state restarts at version 0 while the
//! peers still hold the old, higher version), whereas it sees the peers at once.
//!
//! Each "process" is a tokio runtime of its own, killing it is dropping the runtime.
use std::collections::BTreeMap;
use std::net::SocketAddr;
use std::sync::Arc;
use std::time::{Duration, Instant};

use datacake_node::{
    ConnectionConfig,
    Consistency,
    DCAwareSelector,
    DatacakeNodeBuilder,
    NodeId,
};
use futures::StreamExt;
use parking_lot::Mutex;

struct Proc {
    rt: Option<tokio::runtime::Runtime>,
    view: Arc<Mutex<BTreeMap<NodeId, SocketAddr>>>,
}

impl Proc {
    fn start(id: NodeId, addr: SocketAddr, seeds: Vec<String>) -> Self {
        let rt = tokio::runtime::Builder::new_multi_thread()
            .worker_threads(2)
            .enable_all()
            .build()
            .unwrap();
        let (tx, rx) = std::sync::mpsc::channel();
        let view = Arc::new(Mutex::new(BTreeMap::new()));
        let view2 = view.clone();
        rt.spawn(async move {
            let cfg = ConnectionConfig::new(addr, addr, seeds);
            let node = DatacakeNodeBuilder::<DCAwareSelector>::new(id, cfg)
                .connect()
                .await
                .expect("connect");
            tx.send(()).unwrap();
            let mut ch = node.membership_changes();
            while let Some(c) = ch.next().await {
                let mut view = view2.lock();
                for m in c.left {
                    view.remove(&m.node_id);
                }
                for m in c.joined {
                    view.insert(m.node_id, m.public_addr);
                }
            }
        });
        rx.recv_timeout(Duration::from_secs(10)).expect("node started");
        Self { rt: Some(rt), view }
    }

    fn kill(mut self) {
        self.rt.take().unwrap().shutdown_background();
        std::thread::sleep(Duration::from_secs(2));
    }
}

#[tokio::test(flavor = "multi_thread", worker_threads = 2)]
async fn restarted_node_with_same_identity_is_seen_again() {
    let uptime: u64 = std::env::var("C16_UPTIME")
        .ok()
        .and_then(|v| v.parse().ok())
        .unwrap_or(150);

    let a1 = test_helper::get_unused_addr();
    let a3 = test_helper::get_unused_addr();
    let seeds = vec![a1.to_string()];

    let node_1 = DatacakeNodeBuilder::<DCAwareSelector>::new(
        1,
        ConnectionConfig::new(a1, a1, Vec::<String>::new()),
    )
    .connect()
    .await
    .unwrap();

    let view = Arc::new(Mutex::new(BTreeMap::<NodeId, SocketAddr>::new()));
    {
        let view = view.clone();
        let mut ch = node_1.membership_changes();
        tokio::spawn(async move {
            while let Some(c) = ch.next().await {
                let mut v = view.lock();
                for m in c.left {
                    v.remove(&m.node_id);
                }
                for m in c.joined {
                    v.insert(m.node_id, m.public_addr);
                }
            }
        });
    }

    let start = Instant::now();
    let wait_until = |want_present: bool, secs: u64| {
        let view = view.clone();
        async move {
            let until = Instant::now() + Duration::from_secs(secs);
            while Instant::now() < until {
                if view.lock().contains_key(&3) == want_present {
                    return true;
                }
                tokio::time::sleep(Duration::from_millis(250)).await;
            }
            false
        }
    };

    let p3 = Proc::start(3, a3, seeds.clone());
    assert!(wait_until(true, 30).await, "node 3 joins");
    println!("[{:>4}s] node 1 sees node 3", start.elapsed().as_secs());
    tokio::time::sleep(Duration::from_secs(uptime)).await;

    p3.kill();
    println!("[{:>4}s] node 3 killed after ~{uptime}s", start.elapsed().as_secs());
    assert!(wait_until(false, 120).await, "node 3 is declared dead");
    println!("[{:>4}s] node 1 reports node 3 as left", start.elapsed().as_secs());

    let p3 = Proc::start(3, a3, seeds.clone());
    let restarted = Instant::now();
    println!("[{:>4}s] node 3 restarted (same id, same address)", start.elapsed().as_secs());

    // the restarted node sees node 1 within a few gossip rounds
    let until = Instant::now() + Duration::from_secs(20);
    while Instant::now() < until && !p3.view.lock().contains_key(&1) {
        tokio::time::sleep(Duration::from_millis(250)).await;
    }
    println!(
        "[{:>4}s] restarted node 3 holds {:?}",
        start.elapsed().as_secs(),
        *p3.view.lock()
    );
    assert!(p3.view.lock().contains_key(&1));

    let seen = wait_until(true, 60).await;
    let sel = node_1.select_nodes(Consistency::All).await.unwrap();
    println!(
        "[{:>4}s] {}s after the restart: node 1 subscriber holds {:?}, select_nodes(All)={:?}, num_live_members={}",
        start.elapsed().as_secs(),
        restarted.elapsed().as_secs(),
        *view.lock(),
        sel,
        node_1.statistics().num_live_members()
    );
    assert!(
        seen,
        "node 1 still does not see the restarted node 3 a minute after it came back, \
         although node 3 sees node 1"
    );
    p3.kill();
}
