import Datacake.Model.Storage
import Driver.Util
/- Domain `store`: the reference storage model behind the line protocol (C17). -/
namespace Driver.StoreDom
open Datacake.Storage Driver

structure State where
  store : Store := {}

def genData (desc : String) : Option (List Nat) :=
  if desc.startsWith "z" then
    match (desc.drop 1).toString.splitOn ":" with
    | [a, b] => match a.toNat?, b.toNat? with
      | some size, some seed =>
        some ((List.range size).map (fun i => ((seed + i) % 18446744073709551616 * 2654435761 % 18446744073709551616) / 256 % 256))
      | _, _ => none
    | _ => none
  else unhex desc

def showData (d : List Nat) : String :=
  if d.length ≤ 32 then hexOfBytes d
  else
    let sum := (d.zipIdx.foldl (fun acc p => (acc + ((p.2 % 65521) + 1) * p.1) % 4294967296) 0)
    s!"len{d.length}:sum{sum}:{hexOfBytes (d.take 8)}"

def parseDocs (s : String) : Option (List (Nat × Nat × List Nat)) :=
  if s == "-" then some []
  else (s.splitOn ",").mapM (fun p =>
    match p.splitOn ":" with
    | a :: b :: rest => match a.toNat?, b.toNat?, genData (":".intercalate rest) with
      | some a, some b, some d => some (a, b, d)
      | _, _, _ => none
    | _ => none)

def parsePairs (s : String) : Option (List (Nat × Nat)) :=
  if s == "-" then some []
  else (s.splitOn ",").mapM (fun p =>
    match p.splitOn ":" with
    | [a, b] => match a.toNat?, b.toNat? with
      | some a, some b => some (a, b)
      | _, _ => none
    | _ => none)

def parseIds (s : String) : Option (List Nat) :=
  if s == "-" then some [] else (s.splitOn ",").mapM (·.toNat?)

def sortNat (l : List Nat) : List Nat :=
  l.foldr (fun x acc =>
    let rec ins (x : Nat) : List Nat → List Nat
      | [] => [x]
      | y :: ys => if x ≤ y then x :: y :: ys else y :: ins x ys
    ins x acc) []

def sortOn {α : Type} (key : α → Nat) (l : List α) : List α :=
  l.foldr (fun x acc =>
    let rec ins (x : α) : List α → List α
      | [] => [x]
      | y :: ys => if key x ≤ key y then x :: y :: ys else y :: ins x ys
    ins x acc) []

def showDoc (d : Nat × Nat × List Nat) : String := s!"{d.1}:{d.2.1}:{showData d.2.2}"

def step (st : State) (toks : List String) : State × String :=
  let s := st.store
  match toks with
  | ["put", k, id, ts, d] =>
    match k.toNat?, id.toNat?, ts.toNat?, genData d with
    | some k, some id, some ts, some d => ({ store := put s k id ts d }, "ok")
    | _, _, _, _ => (st, "bad-op")
  | ["mput", k, docs] =>
    match k.toNat?, parseDocs docs with
    | some k, some docs => ({ store := multiPut s k docs }, "ok")
    | _, _ => (st, "bad-op")
  | ["tomb", k, id, ts] =>
    match k.toNat?, id.toNat?, ts.toNat? with
    | some k, some id, some ts => ({ store := markTombstone s k id ts }, "ok")
    | _, _, _ => (st, "bad-op")
  | ["mtomb", k, docs] =>
    match k.toNat?, parsePairs docs with
    | some k, some docs => ({ store := markManyTombstone s k docs }, "ok")
    | _, _ => (st, "bad-op")
  | ["rmtomb", k, ids] =>
    match k.toNat?, parseIds ids with
    | some k, some ids => ({ store := removeTombstones s k ids }, "ok")
    | _, _ => (st, "bad-op")
  | ["get", k, id] =>
    match k.toNat?, id.toNat? with
    | some k, some id =>
      (st, match get s k id with
        | some d => s!"doc {showDoc d}"
        | none => "none")
    | _, _ => (st, "bad-op")
  | ["mget", k, ids] =>
    match k.toNat?, parseIds ids with
    | some k, some ids =>
      let docs := sortOn (fun d => d.1) (multiGet s k ids.eraseDups)
      (st, if docs.isEmpty then "docs -" else "docs " ++ ",".intercalate (docs.map showDoc))
    | _, _ => (st, "bad-op")
  | ["meta", k] =>
    match k.toNat? with
    | some k =>
      let rows := sortOn (fun r => r.1) (iterMetadata s k)
      (st, if rows.isEmpty then "meta -"
        else "meta " ++ ",".intercalate (rows.map (fun r => s!"{r.1}:{r.2.1}:{if r.2.2 then "t" else "f"}")))
    | none => (st, "bad-op")
  | ["kslist"] =>
    -- a relation, not a function: printed as the two bounds; the check compares with `listOk`
    let ess := sortNat (essential s)
    let tch := sortNat s.touched
    (st, s!"ks essential={",".intercalate (ess.map toString)} touched={",".intercalate (tch.map toString)}")
  | ["reopen"] => (st, "ok")
  | _ => (st, "bad-op")

end Driver.StoreDom
