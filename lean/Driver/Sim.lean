import Datacake.Model.Monitor
import Datacake.Model.RpcNet
import Driver.Util
/- Domain `sim`: the verified trace monitor over simulated RPC runs (C14). -/
namespace Driver.SimDom
open Datacake.Monitor Driver

structure State where
  dummy : Nat := 0

def parseOutcome (s : String) : Option Outcome :=
  if s == "conn" then some .conn
  else if s == "timeout" then some .timeout
  else if s == "invalid" then some .invalid
  else if s == "other" then some .other
  else if s.startsWith "r" then (s.drop 1).toString.toNat?.map .reply
  else none

def parseEv (s : String) : Option Ev :=
  match s.splitOn ":" with
  | ["S", id, t] => match id.toNat?, t.toNat? with | some i, some t => some (.send i t) | _, _ => none
  | ["B", id, t] => match id.toNat?, t.toNat? with | some i, some t => some (.hbegin i t) | _, _ => none
  | ["E", id, t] => match id.toNat?, t.toNat? with | some i, some t => some (.hend i t) | _, _ => none
  | ["D", id, o, t] => match id.toNat?, parseOutcome o, t.toNat? with
    | some i, some o, some t => some (.done i o t) | _, _, _ => none
  | _ => none

/-- slack allowed on top of the client timeout: one simulated scheduler tick + message latency. -/
def slack : Nat := 25

def step (st : State) (toks : List String) : State × String :=
  match toks with
  | "sim-trace" :: tau :: evs =>
    match tau.toNat?, (evs.filter (· ≠ "-")).mapM parseEv with
    | some tau, some tr =>
      -- model column: is the observed trace a run of the protocol model?  spec column: the monitor's verdict
      let evs' := evs.filter (· ≠ "-")
      let model := match Datacake.RpcNet.firstRefused tau slack Datacake.RpcNet.init tr 0 with
        | none => "trace"
        | some n => s!"REFUSED:event#{n}:{evs'.getD n "?"}"
      match firstBad tr tau slack with
      | none => (st, model ++ "\t#spec trace")
      | some (n, _) => (st, model ++ s!"\t#spec VIOLATION:event#{n}:{evs'.getD n "?"}")
    | _, _ => (st, "bad-op")
  | _ => (st, "bad-op")

end Driver.SimDom
