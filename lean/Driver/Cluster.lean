import Datacake.Model.Cluster
import Datacake.Model.Membership
import Datacake.Model.Replication
import Datacake.Model.Envelope
import Datacake.Spec.Lww
import Driver.Actor
/- Domain `cluster`: N-node cluster model (C01, C06, C19). -/
namespace Driver.ClusterDom
open Datacake Datacake.Cluster Datacake.Keyspace Driver

structure State where
  c : Cluster := {}
  known : Bool := true      -- false once the case used an operation the model cannot replay (`bulk`)
  down : List Nat := []     -- nodes that refuse connections (crashed but still selected)
  hangNext : List Nat := [] -- nodes whose next storage mutation performs the write and never returns
  stuck : List Nat := []    -- nodes inside a hung handler
  partialNext : List (Nat × List Nat) := []   -- nodes whose next purge is only partly performed by the storage (positions) and fails
  fetchFail : List Nat := [] -- nodes whose storage refuses the next document read (a repairing peer's fetch fails)
  dists : List (Nat × Replication.Dist (Nat × Nat × List Nat)) := []   -- the task distributor of node i (members: (member id, node index))
  pollers : List (Nat × Replication.Poller) := []     -- the replication cycle service of node j, when started
  pending : Option (Nat × Pending) := none
  lastOut : String := ""            -- an exchange of node j whose document fetch is on its way
  -- a node holds many keyspaces; they share nothing but the clock and the membership, so the cluster model is instantiated
  -- once per keyspace: `c` is the current one, `others` the rest, `cur` its name
  others : List (String × Cluster) := []
  cur : String := "ks"
  nnodes : Nat := 0

def kvArg (toks : List String) (key : String) : Option Nat :=
  toks.findSome? (fun t => if t.startsWith (key ++ "=") then (t.drop (key.length + 1)).toString.toNat? else none)

def parseMembers (x : String) : Option (List Membership.Member) :=
  if x == "-" then some []
  else (x.splitOn ",").mapM (fun m =>
    match m.splitOn "@" with
    | [a, b] => match a.toNat?, b.toNat? with | some a, some b => some (a, b) | _, _ => none
    | _ => none)

def readStr (n : CNode) : String :=
  let rows := StoreDom.sortOn (fun r => r.1) (n.ks.store.rows.map (fun p => (p.1, p.2.1, p.2.2)))
  let docs := rows.filterMap (fun r =>
    if r.2.2 then none else (Storage.aget n.ks.store.data r.1).map (fun b => s!"{r.1}:{r.2.1}:{StoreDom.showData b}"))
  s!"{ActorDom.stateStr n.ks} | docs {if docs.isEmpty then "-" else ",".intercalate docs}"

/-- All single operations issued so far, flattened (for the LWW oracle). -/
def flatOps (ops : List (Nat × Issued)) : List (Op × List Nat) :=
  ops.flatMap (fun p => match p.2 with
    | .put d => [(⟨d.1, d.2.1, false⟩, d.2.2)]
    | .del id ts => [(⟨id, ts, true⟩, [])]
    | .mput ds => ds.map (fun d => (⟨d.1, d.2.1, false⟩, d.2.2))
    | .mdel ds => ds.map (fun d => (⟨d.1, d.2, true⟩, [])))

/-- The specification of C01: per id the greatest-stamp operation; present with that put's bytes
and stamp if it is a put, absent if it is a delete. Printed as the `docs` part of `read`. -/
def lwwDocs (ops : List (Nat × Issued)) : String :=
  let fl := flatOps ops
  let keys := (fl.map (·.1.key)).eraseDups
  let docs := keys.filterMap (fun k =>
    match Lww.lww (fl.map (·.1)) k with
    | some r =>
      if r % 2 == 1 then
        (fl.find? (fun p => p.1.key == k && p.1.ts == r / 2 && !p.1.isDel)).map (fun p => (k, r / 2, p.2))
      else none
    | none => none)
  let sorted := StoreDom.sortOn (fun d => d.1) docs
  if sorted.isEmpty then "-" else ",".intercalate (sorted.map (fun d => s!"{d.1}:{d.2.1}:{StoreDom.showData d.2.2}"))

def windowOk (ops : List (Nat × Issued)) : Bool :=
  let ts := (flatOps ops).map (·.1.ts)
  ts.all (fun a => ts.all (fun b => decide (Ts.dts a < Ts.dts b + Cluster.F)))

def cutsStr (s : OrSwot) : String :=
  ",".intercalate ([1, 2, 3, 4].map (fun n => toString (OrswotDom.cutOf s n)))

def parseIdData (s : String) : Option (List (Nat × List Nat)) :=
  (s.splitOn ",").mapM (fun p =>
    match p.splitOn ":" with
    | a :: rest => match a.toNat?, StoreDom.genData (":".intercalate rest) with
      | some a, some d => some (a, d)
      | _, _ => none
    | _ => none)

def issue (st : State) (i : Nat) (op : Issued) (ts : Nat) : State × String :=
  let (c1, ok) := applyAt st.c i 0 op
  let c2 := { c1 with ops := c1.ops ++ [(i, op)] }
  ({ st with c := c2 }, s!"{if ok then "ok" else "err"} op={c2.ops.length - 1} ts={ts}")

def switchKs (st : State) (name : String) : State :=
  if name == st.cur then st
  else
    let saved := (st.cur, st.c) :: st.others.filter (·.1 ≠ st.cur)
    let c := ((saved.find? (·.1 == name)).map (·.2)).getD { nodes := List.replicate st.nnodes {} }
    { st with c := c, others := saved.filter (·.1 ≠ name), cur := name }

/-- `check_node_changes` + `begin_keyspace_sync` for every keyspace the peer lists: one model exchange per keyspace. -/
def repairAll (st : State) (j i : Nat) (rf : Bool) : State × String :=
  let all := StoreDom.sortOn (fun (_ : String × Cluster) => 0) ((st.cur, st.c) :: st.others)
  let names := (all.map (·.1))
  let sortedNames := names.foldl (fun acc n => (acc.filter (· < n)) ++ [n] ++ (acc.filter (fun x => !(x < n)))) ([] : List String)
  let res := sortedNames.map (fun name =>
    let c := ((all.find? (·.1 == name)).map (·.2)).getD {}
    let (c1, out) := repair c j i rf
    (name, c1, out))
  let synced := res.filterMap (fun r => match r.2.2 with | .synced m rm => some s!"{r.1}:m{m}:r{rm}" | _ => none)
  let failed := res.any (fun r => match r.2.2 with | .failed => true | _ => false)
  let cNew := ((res.find? (·.1 == st.cur)).map (·.2.1)).getD st.c
  let others := (res.filter (·.1 ≠ st.cur)).map (fun r => (r.1, r.2.1))
  ({ st with c := cNew, others := others },
    if failed then "err" else if synced.isEmpty then "skipped" else "synced " ++ ",".intercalate synced)

/-- The concurrent production path against a peer that may refuse the next document fetch (`failfetch`; generated for
single-keyspace cases only): `Cluster.repairFetchFail`; the refusal is used up by the first exchange that fetches. -/
def repairMaybeFetchFail (st : State) (j i : Nat) : State × String :=
  if st.fetchFail.contains i && st.others.isEmpty then
    let used := repairFetches st.c j i
    let (c1, out) := repairFetchFail st.c j i
    ({ st with c := c1, fetchFail := if used then st.fetchFail.filter (· ≠ i) else st.fetchFail },
      match out with
      | .skipped => "skipped"
      | .failed => "err"
      | .synced m r => s!"synced {st.cur}:m{m}:r{r}")
  else repairAll st j i true

/-- A write through the replicas the level selected: local handler, one request per replica
(`Cluster.replicateAll`), `handle_consistency_distribution` (`Cluster.distribute`). -/
def wbulk (st : State) (i : Nat) (targets : List Nat) (iss : Issued) (ts : Nat) : State × String :=
  let (c2, stuck, out) := write st.c st.down st.hangNext st.stuck i targets iss
  let k := c2.ops.length - 1
  ({ st with c := c2, stuck := stuck, hangNext := st.hangNext.filter (fun t => !stuck.contains t) },
    match out with
    | .localFailed => s!"local op={k} ts={ts}"
    | .done (.ok _) => s!"ok op={k} ts={ts}"
    | .done (.error (acks, required)) => s!"consistency {acks}/{required} op={k} ts={ts}")

def showRepair (ks : String) : RepairOut → String
  | .skipped => "skipped"
  | .failed => "err"
  | .synced m r => s!"synced {ks}:m{m}:r{r}"

def step (st : State) (toks : List String) : State × String :=
  let c := st.c
  match toks with
  | ["ks", name] => (switchKs st name, "ok")
  | ["nodes", n] =>
    match n.toNat? with
    | some n => ({ c := { nodes := List.replicate n {} }, known := true, nnodes := n }, "ok")
    | none => (st, "bad-op")
  | "put" :: i :: id :: d :: rest =>
    match i.toNat?, id.toNat?, StoreDom.genData d, kvArg rest "ts" with
    | some i, some id, some d, some ts => issue st i (.put (id, ts, d)) ts
    | _, _, _, _ => (st, "bad-op")
  | "del" :: i :: id :: rest =>
    match i.toNat?, id.toNat?, kvArg rest "ts" with
    | some i, some id, some ts => issue st i (.del id ts) ts
    | _, _, _ => (st, "bad-op")
  | "mput" :: i :: items :: rest =>
    match i.toNat?, parseIdData items, kvArg rest "ts" with
    | some i, some items, some ts => issue st i (.mput (items.map (fun p => (p.1, ts, p.2)))) ts
    | _, _, _ => (st, "bad-op")
  | "mdel" :: i :: ids :: rest =>
    match i.toNat?, StoreDom.parseIds ids, kvArg rest "ts" with
    | some i, some ids, some ts => issue st i (.mdel (ids.map (fun id => (id, ts)))) ts
    | _, _, _ => (st, "bad-op")
  | ["deliver", to, k] =>
    match to.toNat?, k.toNat? with
    | some to, some k =>
      match c.ops[k]? with
      | some (_, op) =>
        let (c1, ok) := applyAt c to 0 op
        ({ st with c := c1 }, if ok then "ack" else "nack")
      | none => (st, "bad-op")
    | _, _ => (st, "bad-op")
  | ["batch", _from, to, ks] =>
    match to.toNat?, StoreDom.parseIds ks with
    | some to, some ks =>
      let sel := ks.filterMap (fun k => c.ops[k]?.map (·.2))
      let puts : List Doc := sel.flatMap (fun o => match o with | .put d => [d] | .mput ds => ds | _ => [])
      let dels : List (Nat × Nat) := sel.flatMap (fun o => match o with | .del id ts => [(id, ts)] | .mdel ds => ds | _ => [])
      let (c1, ok1) := if dels.isEmpty then (c, true) else applyAt c to 0 (.mdel dels)
      if !ok1 then ({ st with c := c1 }, "nack")
      else
        let (c2, ok2) := if puts.isEmpty then (c1, true) else applyAt c1 to 0 (.mput puts)
        ({ st with c := c2 }, if ok2 then "ack" else "nack")
    | _, _ => (st, "bad-op")
  | "repair" :: j :: i :: rest =>
    match j.toNat?, i.toNat? with
    | some j, some i => repairAll st j i ((rest.head?.getD "1") == "1")
    | _, _ => (st, "bad-op")
  | ["poll-start", j, _] =>
    match j.toNat? with
    | some j => ({ st with pollers := (j, {}) :: st.pollers.filter (·.1 ≠ j) }, "ok")
    | none => (st, "bad-op")
  | ["poll-change", j, l, jn] =>
    match j.toNat?, parseMembers l, parseMembers jn with
    | some j, some l, some jn =>
      let p := ((st.pollers.find? (·.1 == j)).map (·.2)).getD {}
      ({ st with pollers := (j, { p with queue := p.queue ++ [⟨jn, l⟩] }) :: st.pollers.filter (·.1 ≠ j) }, "ok")
    | _, _, _ => (st, "bad-op")
  | ["poll-wait", j, _] =>
    -- the first tick drains every queued change in order (`Poller.cycle`), then repairs from every live member, in member-id
    -- order, through the production loop; later ticks find nothing new (no mutation happens while the service runs)
    match j.toNat? with
    | some j =>
      let p := ((st.pollers.find? (·.1 == j)).map (·.2)).getD {}
      -- members that left lose their tracker entry (`keyspace_tracker.remove_node`)
      let leftIdx := (p.queue.flatMap (·.left)).map (·.2)
      let clearTr := fun (c : Cluster) =>
        let me := getNode c j
        setNode c j { me with tracker := (List.range me.tracker.length).map (fun x => if leftIdx.contains x then none else me.tracker.getD x none) }
      let st := { st with c := clearTr st.c, others := st.others.map (fun (o : String × Cluster) => (o.1, clearTr o.2)) }
      let p' := p.cycle ((p.queue.foldl Replication.pollerStep { p with queue := [] }).live.map (·.1))
      let targets := (Membership.sortMembers p'.live).map (·.2)
      -- a member inside a hung handler never answers `GetState`: since fix D32 the poll of that member ends at its deadline
      -- with an error (nothing is synced from it) and the cycle goes on to the next member
      let targets := targets.filter (fun i => !st.stuck.contains i)
      (targets.foldl (fun acc i => (repairAll acc j i true).1) { st with pollers := st.pollers.filter (·.1 ≠ j) }, "ok")
    | none => (st, "bad-op")
  | ["repair-begin", j, i, rf] =>
    -- single-keyspace cases only (the other keyspaces of an exchange are fetched after the first one's documents)
    match j.toNat?, i.toNat? with
    | some j, some i =>
      if !st.others.isEmpty then (st, "unsupported: several keyspaces")
      else
        match repairBegin c j i (rf == "1") with
        | (c1, .finished out) => ({ st with c := c1, pending := some (j, ⟨i, [], [], 0, true⟩), lastOut := showRepair st.cur out }, "begun finished")
        | (c1, .fetching p) => ({ st with c := c1, pending := some (j, p), lastOut := "" }, "begun fetching")
    | _, _ => (st, "bad-op")
  | ["repair-end", _, _] =>
    match st.pending with
    | some (j, p) =>
      if st.lastOut != "" then ({ st with pending := none, lastOut := "" }, st.lastOut)
      else
        let (c1, out) := repairEnd c j p
        ({ st with c := c1, pending := none }, showRepair st.cur out)
    | none => (st, "bad-op")
  | ["repairm", j] =>
    -- one round of the poller's production loop (`repair_members`): every other node in id order; a failed exchange is logged
    -- and skipped, the others go on
    match j.toNat? with
    | some j =>
      let peers := (List.range st.nnodes).filter (· ≠ j)
      (peers.foldl (fun acc i => (repairMaybeFetchFail acc j i).1) st, "ok")
    | none => (st, "bad-op")
  | ["repairc", j, i] =>
    -- the concurrent production path: both halves run; under the model's atomic handlers the result
    -- equals one of the two sequential orders; removals are dispatched first
    match j.toNat?, i.toNat? with
    | some j, some i => repairMaybeFetchFail st j i
    | _, _ => (st, "bad-op")
  | ["failfetch", i] =>
    match i.toNat? with
    | some i => ({ st with fetchFail := i :: st.fetchFail }, "ok")
    | none => (st, "bad-op")
  | ["clearfetch", i] =>
    match i.toNat? with
    | some i => ({ st with fetchFail := st.fetchFail.filter (· ≠ i) }, "ok")
    | none => (st, "bad-op")
  | ["purge", j] =>
    match j.toNat? with
    | some j =>
      match st.partialNext.find? (·.1 == j) with
      | none => ({ st with c := purge c j }, "ok")
      | some (_, idxs) =>
        -- a purge whose `remove_tombstones` removes only the tombstones at these positions (ascending key order) and fails: the
        -- others are tombstones of the set again (`Keyspace.onPurge` with the list of what was written)
        let c1 := touch c j
        let n := getNode c1 j
        let purged := (OrSwot.purgeOldDeletes n.ks.set).2
        let sortedKeys := StoreDom.sortNat (purged.map (·.1))
        let doneKeys := (sortedKeys.zipIdx.filter (fun p => idxs.contains p.2)).map (·.1)
        let idxs' := (purged.zipIdx.filter (fun p => doneKeys.contains p.1.1)).map (·.2)
        ({ st with c := setNode c1 j { n with ks := (onPurge n.ks (some idxs')).1 }, partialNext := st.partialNext.filter (·.1 ≠ j) }, "err")
    | none => (st, "bad-op")
  | ["partialnext", j, l] =>
    match j.toNat?, (if l == "-" then some [] else StoreDom.parseIds l) with
    | some j, some idxs => ({ st with partialNext := (j, idxs) :: st.partialNext.filter (·.1 ≠ j) }, "ok")
    | _, _ => (st, "bad-op")
  | ["dist-start", i] =>
    match i.toNat? with
    | some i => ({ st with dists := (i, {}) :: st.dists.filter (·.1 ≠ i) }, "ok")
    | none => (st, "bad-op")
  | ["dist-burst", i, n] =>
    -- n writes to another keyspace sit in the distributor's queue (they go out with the next tick, to the members live then;
    -- that keyspace is not part of this keyspace's model)
    match i.toNat?, n.toNat? with
    | some i, some n =>
      let d := ((st.dists.find? (·.1 == i)).map (·.2)).getD {}
      let d' := (List.range n).foldl (fun acc k => acc.enqueue (.mutation (.put "burst" (1000000 + k, 0, [0])))) d
      ({ st with dists := (i, d') :: st.dists.filter (·.1 ≠ i) }, "ok")
    | _, _ => (st, "bad-op")
  | ["dist-change", i, l, j] =>
    match i.toNat?, parseMembers l, parseMembers j with
    | some i, some l, some j =>
      let d := ((st.dists.find? (·.1 == i)).map (·.2)).getD {}
      -- the change is queued; the next tick applies it (`for member in left { remove }; for member in joined { insert }`)
      ({ st with dists := (i, d.enqueue (.change ⟨j, l⟩)) :: st.dists.filter (·.1 ≠ i) }, "ok")
    | _, _, _ => (st, "bad-op")
  | "dist-put" :: i :: id :: d :: rest =>
    match i.toNat?, id.toNat?, StoreDom.genData d, kvArg rest "ts" with
    | some i, some id, some bytes, some ts =>
      let dist := ((st.dists.find? (·.1 == i)).map (·.2)).getD {}
      -- the write is queued, then the interval fires (earlier ticks change nothing: `tick_split`)
      let (dist', batch) := (dist.enqueue (.mutation (.put st.cur (id, ts, bytes)))).tick
      match batch with
      | none => (st, "model-error: a queued mutation produced no batch")
      | some b =>
        let targets := StoreDom.sortNat ((b.targets.map (·.2)).eraseDups)
        let docs := (Replication.lookup b.modified st.cur).getD []
        -- `apply_batch`: one bulk write per keyspace at every live member (`Cluster.broadcast`); a member whose storage
        -- call hangs has the document in its store and stays silent, a member inside a hung handler gets nothing
        let (c1, stuck) := broadcast c st.down st.hangNext st.stuck targets (.mput docs)
        let c1 := { c1 with ops := c1.ops ++ docs.map (fun doc => (i, Issued.put doc)) }
        let holders := targets.filter (fun t => docs.all (fun doc =>
          match Storage.aget (getNode c1 t).ks.store.rows doc.1 with
          | some (ts', _) => ts' == doc.2.1
          | none => false))
        ({ st with c := c1, stuck := stuck, hangNext := st.hangNext.filter (fun t => !stuck.contains t),
                   dists := (i, dist') :: st.dists.filter (·.1 ≠ i) },
          "recv " ++ (if holders.isEmpty then "-" else ",".intercalate (holders.map toString)))
    | _, _, _, _ => (st, "bad-op")
  | ["advance", _] => (st, "ok")      -- time is not part of the model: stamps come from the implementation
  | ["failnext", j] =>
    match j.toNat? with
    | some j => ({ st with c := setNode c j { getNode c j with failNext := true } }, "ok")
    | none => (st, "bad-op")
  | ["hangnext", j] =>
    match j.toNat? with
    | some j => ({ st with hangNext := j :: st.hangNext }, "ok")
    | none => (st, "bad-op")
  | ["unreach", j] =>
    match j.toNat? with
    | some j => ({ st with down := j :: st.down }, "ok")
    | none => (st, "bad-op")
  | ["reach", j] =>
    match j.toNat? with
    | some j => ({ st with down := st.down.filter (· ≠ j) }, "ok")
    | none => (st, "bad-op")
  | ["clearfail", j] =>
    match j.toNat? with
    | some j => ({ st with c := setNode c j { getNode c j with failNext := false } }, "ok")
    | none => (st, "bad-op")
  | ["read", j] =>
    match j.toNat? with
    | some j =>
      let c1 := touch c j
      ({ st with c := c1 }, readStr (getNode c1 j))
    | none => (st, "bad-op")
  | ["converged", j] =>
    -- C01: at quiescence the documents read from node j are the LWW documents of everything issued
    match j.toNat? with
    | some j =>
      let c1 := touch c j
      let mine := readStr (getNode c1 j)
      let docsPart := (mine.splitOn " | docs ").getD 1 "-"
      let spec := if windowOk c.ops then "docs " ++ lwwDocs c.ops else "-"
      ({ st with c := c1 }, "docs " ++ docsPart ++ "\t#spec " ++ spec)
    | none => (st, "bad-op")
  | ["get", j, id] =>
    match j.toNat?, id.toNat? with
    | some j, some id =>
      let n := (getNode c j).ks
      (st, match Storage.aget n.store.data id, Storage.aget n.store.rows id with
        | some bytes, some (ts, _) => s!"doc {id}:{ts}:{StoreDom.showData bytes}"
        | _, _ => "none")
    | _, _ => (st, "bad-op")
  | ["bulk", _, _, _] => ({ st with known := false }, "ok")
  | "staterace" :: _ :: i :: id1 :: id2 :: rest =>
    -- two puts at node i (the harness reports their stamps); the reply of the interleaved GetState must be safe for the
    -- poller's skip rule (C01b.skip_safe): a reply whose change stamp is the final one carries the final set
    match i.toNat?, id1.toNat?, id2.toNat?, kvArg rest "ts", kvArg rest "ts2" with
    | some i, some id1, some id2, some ts1, some ts2 =>
      let iss1 : Issued := .put (id1, ts1, [1])
      let iss2 : Issued := .put (id2, ts2, [2])
      let (c1, _) := applyAt c i 0 iss1
      let c1 := { c1 with ops := c1.ops ++ [(i, iss1)] }
      let (c2, _) := applyAt c1 i 0 iss2
      let c2 := { c2 with ops := c2.ops ++ [(i, iss2)] }
      ({ st with c := c2 }, "race safe")
    | _, _, _, _, _ => (st, "bad-op")
  | "wmput" :: i :: targets :: first :: count :: rest =>
    -- put_many through the replicas the level selected: one stamp for the batch, a MultiSet locally and on every replica
    match i.toNat?, (if targets == "-" then some [] else StoreDom.parseIds targets), first.toNat?, count.toNat?,
          (rest.head?.bind StoreDom.genData), kvArg rest "ts" with
    | some i, some targets, some first, some count, some d, some ts =>
      wbulk st i targets (.mput ((List.range count).map (fun k => (first + k, ts, d)))) ts
    | _, _, _, _, _, _ => (st, "bad-op")
  | "wmdel" :: i :: targets :: first :: count :: rest =>
    match i.toNat?, (if targets == "-" then some [] else StoreDom.parseIds targets), first.toNat?, count.toNat?, kvArg rest "ts" with
    | some i, some targets, some first, some count, some ts =>
      wbulk st i targets (.mdel ((List.range count).map (fun k => (first + k, ts)))) ts
    | _, _, _, _, _ => (st, "bad-op")
  | ["envelope-bytes", ts, lu, h] =>
    -- the frame of a GetState reply, byte for byte (`Envelope.envFrame`: the rkyv layout of the envelope), and whether the
    -- checked reading of it (`Envelope.getState`: frame check + `readEnv`) hands back exactly what was put in
    match ts.toNat?, lu.toNat?, unhex h with
    | some ts, some lu, some set =>
      let f := Envelope.envFrame ts lu set
      let ok := Envelope.getState ts lu set [f.length / 3, f.length / 3] == some (ts, lu, set)
      (st, s!"frame {hexOfBytes f} valid={ok}")
    | _, _, _ => (st, "bad-op")
  | ["badenvelope", _, kind, n] =>
    -- the same for the envelope around the state: the honest reply is accepted, one whose declared length or position of the
    -- nested bytes is not inside the message is an error (never followed)
    (st, if kind == "ok" then s!"accepted {n}" else "rejected")
  | op :: i :: targets :: id :: rest =>
    if op == "wput" || op == "wdel" then
      match i.toNat?, (if targets == "-" then some [] else StoreDom.parseIds targets), id.toNat?, kvArg rest "ts" with
      | some i, some targets, some id, some ts =>
        let d : Option (List Nat) := if op == "wput" then (rest.head?.bind StoreDom.genData) else some []
        match d with
        | some d =>
          let iss : Issued := if op == "wput" then .put (id, ts, d) else .del id ts
          wbulk st i targets iss ts
        | none => (st, "bad-op")
      | _, _, _, _ => (st, "bad-op")
    else (st, "bad-op")
  | ["fetchstate", j, i] =>
    match j.toNat?, i.toNat? with
    | some _, some i =>
      let c1 := touch c i
      let s := (getNode c1 i).ks.set
      ({ st with c := c1 }, if st.known then s!"state {OrswotDom.dumpStr s} cuts {cutsStr s}" else "unknown")
    | _, _ => (st, "bad-op")
  | ["localstate", i] =>
    match i.toNat? with
    | some i =>
      let c1 := touch c i
      let s := (getNode c1 i).ks.set
      ({ st with c := c1 }, if st.known then s!"state {OrswotDom.dumpStr s} cuts {cutsStr s}" else "unknown")
    | none => (st, "bad-op")
  | ["collide", _] => (st, "collide same=true fine")     -- the specification: which ids a state holds does not matter for handing it over
  | ["badstate", _, _] => (st, "rejected")     -- the specification: an undecodable state is an error
  | _ => (st, "bad-op")

end Driver.ClusterDom
