import Datacake.Model.Selector
import Datacake.Model.Membership
import Datacake.Model.Timestamp
import Datacake.Model.Clock
import Driver.Util
/- Domain `node`: selector (C15), membership watcher (C16), node clock (C11). -/
namespace Driver.NodeDom
open Datacake Driver

structure State where
  actor : Selector.Actor := { local_ := 0, localDc := 0 }
  fresh : Bool := true
  watcher : Membership.Watcher := { self := 0 }
  chan : Membership.Chan := {}
  snap : Membership.Snapshot := []
  subs : List Membership.Sub := []
  clock : Nat := 0

def parseLevel : String → Option Selector.Level
  | "none" => some .none | "one" => some .one | "two" => some .two | "three" => some .three
  | "quorum" => some .quorum | "localquorum" => some .localQuorum | "all" => some .all
  | "eachquorum" => some .eachQuorum | _ => none

def parseNatList (s : String) : Option (List Nat) :=
  if s == "-" || s == "" then some [] else (s.splitOn ",").mapM (·.toNat?)

def parseLayout (s : String) : Option (List (Nat × List Nat)) :=
  if s == "-" then some []
  else (s.splitOn ";").mapM (fun part =>
    match part.splitOn ":" with
    | [d, ns] => match d.toNat?, parseNatList ns with
      | some d, some ns => some (d, ns)
      | _, _ => none
    | _ => none)

/-- `id:addr[@dc]` members: (id, addr, dc). -/
def parseMembersDc (s : String) : Option (List (Nat × Nat × Nat)) :=
  if s == "-" then some []
  else (s.splitOn ",").mapM (fun part =>
    let (part, dc) := match part.splitOn "@" with
      | [p, d] => (p, d.toNat?)
      | _ => (part, some 0)
    match part.splitOn ":", dc with
    | [a, b], some dc => match a.toNat?, b.toNat? with
      | some a, some b => some (a, b, dc)
      | _, _ => none
    | _, _ => none)

def parseMembers (s : String) : Option (List (Nat × Nat)) :=
  (parseMembersDc s).map (·.map (fun m => (m.1, m.2.1)))

/-- The data-centre map `watch_membership_changes` hands to the selector (`Selector.dcLayout`). -/
def layoutOf (self : Nat) (ms : List (Nat × Nat × Nat)) : List (Nat × List Nat) := Selector.dcLayout self ms

def fmtNats (l : List Nat) : String := if l.isEmpty then "-" else ",".intercalate (l.map toString)

def fmtMembers (l : List (Nat × Nat)) : String :=
  if l.isEmpty then "-" else ",".intercalate (l.map (fun m => s!"{m.1}:{m.2}"))

def sortById (l : List (Nat × Nat)) : List (Nat × Nat) := Membership.sortMembers l

def showRes (r : Selector.Res) (choiceStr : String) : String :=
  match r with
  | .ok ns => s!"ok {fmtNats ns} choice={choiceStr}"
  | .notEnough live req => s!"notenough {live} {req} choice={choiceStr}"
  | .panic => "panic"

/-- Replays the processed-event log of the real clock actor through the model (C11). -/
def replayLog (clock wall : Nat) : List (Nat × Nat × Nat) → Nat → Except String Nat
  | [], _ => .ok clock
  | (kind, inp, after) :: rest, i =>
    if kind == 0 then
      match Clock.onGet clock wall with
      | some c' => if c' == after then replayLog c' wall rest (i + 1)
                  else .error s!"replay mismatch at {i}: get model={c'} impl={after}"
      | none => .error s!"replay mismatch at {i}: model send fails (actor would stop), impl={after}"
    else
      let c' := Clock.onRegister clock wall inp
      if c' == after then replayLog c' wall rest (i + 1)
      else .error s!"replay mismatch at {i}: register {inp} model={c'} impl={after}"

def parseLog (s : String) : Option (List (Nat × Nat × Nat)) :=
  if s == "-" || s == "" then some []
  else (s.splitOn ",").mapM (fun e =>
    match e.splitOn ":" with
    | [a, b, c] => match a.toNat?, b.toNat?, c.toNat? with
      | some a, some b, some c => some (a, b, c)
      | _, _, _ => none
    | _ => none)

def normWall (ms : Nat) : Nat := Ts.partsAsDuration (Ts.durSecs ms) (Ts.durFrac ms)

def step (st : State) (toks : List String) : State × String :=
  match toks with
  | ["sel-init", a, d] =>
    match a.toNat?, d.toNat? with
    | some a, some d => ({ st with actor := { local_ := a, localDc := d }, fresh := true }, "ok")
    | _, _ => (st, "bad-op")
  | ["sel-set", l] =>
    match parseLayout l with
    | some layout => ({ st with actor := Selector.setNodes st.actor layout }, "ok")
    | none => (st, "bad-op")
  | "sel-get" :: lvl :: rest =>
    match parseLevel lvl, parseNatList (rest.head?.getD "-") with
    | some lvl, some choice =>
      let hit := (if st.fresh then Selector.cacheGet st.actor.cache lvl else none).isSome
      let (r, a') := Selector.getNodes st.actor lvl st.fresh choice
      -- the recorder only sees a pick when `select_n_nodes` actually ran
      let ran := !hit && (lvl == .one || lvl == .two || lvl == .three)
      let cs := if ran then (match r with
        | .panic => "-"
        | _ => let used := rest.head?.getD "-"; used) else "-"
      let n := match lvl with | .one => 1 | .two => 2 | .three => 3 | _ => 0
      if ran && !Selector.choiceValid st.actor.localDc n st.actor.total st.actor.dcs choice then
        ({ st with actor := a' }, s!"bad-choice {rest.head?.getD "-"}: not a possible pick of n distinct eligible data centres")
      else
      ({ st with actor := a' }, showRes r cs)
    | _, _ => (st, "bad-op")
  | ["realclock", _] => (st, "realclock ok")   -- C11.after_register_greater over the ONE event list of the node's clock: gossip registers, users ask
  | ["realnodes", _, _] => (st, "real ok")   -- select_sound / selectN_complete: no selection of a well-formed layout is bad
  | ["sel-expire"] => ({ st with actor := { st.actor with cache := [] } }, "ok")
  | "mem-init" :: self :: rest =>
    match self.toNat? with
    | some self =>
      -- the watcher starts by processing the initial (empty) snapshot
      let w : Membership.Watcher := { self := self }
      let (_, w') := Membership.watchStep w []
      -- ... and hands the (empty) data-centre map to the selector it feeds
      let la := ((rest[0]?).bind (·.toNat?)).getD 100
      let ld := ((rest[1]?).bind (·.toNat?)).getD 0
      let actor := Selector.setNodes { local_ := la, localDc := ld } []
      ({ st with watcher := w', chan := (({} : Membership.Chan).send []), snap := [], subs := [], actor := actor, fresh := true }, "ok")
    | none => (st, "bad-op")
  | ["mem-snap", s] =>
    match parseMembersDc s with
    | some ms =>
      let snap := ms.map (fun m => (m.1, m.2.1))
      -- the node's own watcher (disconnects, selector update) and then the publication of the processed snapshot
      let (_, w') := Membership.watchStep st.watcher snap
      ({ st with watcher := w', chan := st.chan.send snap, snap := snap, actor := Selector.setNodes st.actor (layoutOf st.watcher.self ms) },
        s!"published {fmtMembers (sortById snap)}")
    | none => (st, "bad-op")
  | ["mem-sub"] => ({ st with subs := st.subs ++ [{}] }, s!"sub {st.subs.length}")
  | ["mem-read", i] =>
    match i.toNat? with
    | some i =>
      match st.subs[i]? with
      | some sub =>
        let (d, sub') := sub.poll st.watcher.self st.chan
        let out := match d with
          | some d => s!"read [+{fmtMembers d.joined} -{fmtMembers d.left}]"
          | none => "read -"
        ({ st with subs := st.subs.set i sub' }, out)
      | none => (st, "bad-op")
    | none => (st, "bad-op")
  | ["mem-live", i] =>
    match i.toNat? with
    | some i =>
      match st.subs[i]? with
      | some sub =>
        let spec := sortById (Membership.networkSet st.watcher.self st.snap)
        (st, s!"live {fmtMembers (sortById sub.live)}" ++ "\t#spec " ++ s!"live {fmtMembers spec}")
      | none => (st, "bad-op")
    | none => (st, "bad-op")
  | ["clk-init", n, w] =>
    match n.toNat?, w.toNat? with
    | some n, some w =>
      let c := Ts.pack (normWall w) 0 n
      ({ st with clock := c }, s!"ok {c}")
    | _, _ => (st, "bad-op")
  | ["clk-replay", w, log] =>
    match w.toNat?, parseLog log with
    | some w, some log =>
      match replayLog st.clock (normWall w) log 0 with
      | .ok c' => ({ st with clock := c' }, s!"replay ok n={log.length}")
      | .error e => (st, e)
    | _, _ => (st, "bad-op")
  | ["clk-done"] => (st, "ok")
  | _ => (st, "bad-op")

end Driver.NodeDom
