import Datacake.Model.Rpc
import Datacake.Model.Exchange
import Driver.Util
/- Domain `rpc`: frame layer (C12) and handler registry (C13). -/
namespace Driver.RpcDom
open Datacake.Rpc Datacake.Exchange Driver

inductive Ev where
  | add (n : Nat) (keys : List Nat) (inst : Nat)
  | remove (n : Nat)

structure State where
  reg : Registry := Registry.empty
  evs : List Ev := []      -- newest first

/-- Service TYPE of the harness ↦ the service name it registers under.  D and E are two types
sharing the name 3 ("shared"); S is a four-message service; P0..P7 are single-message bystanders. -/
def svcName : String → Option Nat
  | "A" => some 0 | "B" => some 1 | "C" => some 2 | "D" => some 3 | "E" => some 3 | "S" => some 4 | "G" => some 5
  | "H" => some 6 | "I" => some 7 | "J" => some 8     -- H: same generic service, other parameter; I/J: names differing in `::` vs `_`
  | "K" => some 9 | "L" => some 18                     -- K: `gen-M1-`; L: `pair<M1, M2>` (a space and a comma in the name)
  | "Q" => some 21                                     -- `kv`: a strict prefix of the names of I and J
  | "R" => some 22 | "T" => some 23 | "V" => some 24   -- `kv-admin`, `kv.internal`, `gen`: prefixes continued by a byte below `/`
  | "X" => some 19 | "Y" => some 20                    -- two names whose paths for `u64` collide under the 64-bit std hash (D26)
  | "P0" => some 10 | "P1" => some 11 | "P2" => some 12 | "P3" => some 13
  | "P4" => some 14 | "P5" => some 15 | "P6" => some 16 | "P7" => some 17 | _ => none

/-- Handler keys of a service type (hash injectivity: distinct numbers; key = 100 * name + message). -/
def keysOfType : String → List Nat
  | "A" => [1] | "B" => [101] | "C" => [201, 202] | "D" => [301] | "E" => [302] | "S" => [401, 402, 403, 404] | "G" => [501]
  | "H" => [601] | "I" => [701] | "J" => [801] | "K" => [901] | "L" => [1801] | "X" => [1905] | "Y" => [2005] | "Q" => [2101] | "R" => [2201] | "T" => [2301] | "V" => [2401]
  | "P0" => [1001] | "P1" => [1101] | "P2" => [1201] | "P3" => [1301]
  | "P4" => [1401] | "P5" => [1501] | "P6" => [1601] | "P7" => [1701] | _ => []

def msgNo : String → Option Nat
  | "M1" => some 1 | "M2" => some 2 | "M3" => some 3 | "M4" => some 4 | "U" => some 5 | _ => none

def keyOf (s m : String) : Option Nat :=
  match svcName s, msgNo m with
  | some n, some j => if (keysOfType s).contains (100 * n + j) then some (100 * n + j) else none
  | _, _ => none

def ownerOf (k : Nat) : Nat := k / 100

/-- The specification of C13 (`C13.registered`): the instance of the last `add` not followed by a
`remove`, from the event history alone. -/
def registered (evs : List Ev) (k : Nat) : Option Nat :=
  match evs with
  | [] => none
  | .add _ keys inst :: rest => if keys.contains k then some inst else registered rest k
  | .remove m :: rest => if ownerOf k = m then none else registered rest k

/-- A call as the wire sees it (`Exchange.exchange`, Props/C13d): the table is the registry, the registered instance answers with
its own number; `ServiceUnavailable` is what an unknown path gets. -/
def wireCall (reg : Registry) (k : Nat) : Option Nat :=
  let H : Nat → Handler := fun inst => ⟨4, 4, fun _ => .ok (le32 inst)⟩
  match exchange (fun _ => (getHandler reg k).map H) [47] 4 4 (mkFrame [0, 0, 0, 0]) [1] [1] with
  | (.reply r, [_]) => some (fromLe32 r)
  | _ => none

def showCall : Option Nat → String
  | some inst => s!"ok:{inst}"
  | none => "unavailable"

/-- The alignment the archived root of each message type of the harness needs (`alignof` compares it with
`align_of::<Archived<T>>()` on every run). -/
def alignOf : String → Nat
  | "M2" => 4 | "Status" => 4 | _ => 8

def step (st : State) (toks : List String) : State × String :=
  match toks with
  | ["crc", h] =>
    match unhex h with
    | some bs => (st, toString (crc32 bs))
    | none => (st, "bad-op")
  | ["alignof", ty] => (st, s!"align {alignOf ty}")
  | ["check", ty, fixed, h] =>
    match fixed.toNat?, unhex h with
    | some fixed, some bs =>
      (st, match checkFrameA fixed (alignOf ty) bs with | some _ => "ok" | none => "invalid")
    | _, _ => (st, "bad-op")
  | ["uri", hs, hp] =>
    -- the request path for a service name and a message name (hex of their UTF-8 bytes; `-` = empty)
    match unhex (if hs == "-" then "" else hs), unhex (if hp == "-" then "" else hp) with
    | some sv, some pa => (st, "uri " ++ hexOfBytes (toUri sv pa))
    | _, _ => (st, "bad-op")
  | ["add", s, inst] =>
    match svcName s, inst.toNat? with
    | some n, some inst =>
      ({ reg := addHandlers st.reg n (keysOfType s) inst, evs := .add n (keysOfType s) inst :: st.evs }, "ok")
    | _, _ => (st, "bad-op")
  | ["remove", s] =>
    match svcName s with
    | some n => ({ reg := removeHandlers st.reg n, evs := .remove n :: st.evs }, "ok")
    | none => (st, "bad-op")
  | ["callp", s, m] =>
    -- the same request over the long-lived connection of the case: dispatch does not depend on the connection
    match svcName s, keyOf s m with
    | some _, some k =>
      (st, showCall (getHandler st.reg k) ++ "\t#spec " ++ showCall (registered st.evs k))
    | _, _ => (st, "bad-op")
  | ["call", s, m] =>
    match svcName s, keyOf s m with
    | some _, some k =>
      (st, showCall (wireCall st.reg k) ++ "\t#spec " ++ showCall (registered st.evs k))
    | _, _ => (st, "bad-op")
  | ["status-bytes", code, hm] =>
    -- the frame a handler error travels in, byte for byte (`Exchange.archive`: the rkyv layout of `Status`), and what the client
    -- reads back from it when it arrives in two chunks (`Exchange.client`)
    match code.toNat?, unhex hm with
    | some c, some m =>
      let f := statusFrame (c % 5) m
      let back := match client 0 1 400 (cut [f.length / 2] f) f.length with
        | .status c' m' => s!"{c'}:{hexOfBytes m'}"
        | .reply _ => "reply?"
      (st, s!"frame {hexOfBytes f} back {back}")
    | _, _ => (st, "bad-op")
  | ["fail", code, hm] =>
    -- a handler that answers with an error status: the whole exchange (`Exchange.exchange`: request framed, cut, reassembled,
    -- checked, handler, `create_bad_request`, cut, reassembled, read by the client).  The request is the 12 byte archive of the
    -- harness's `Fail` message as far as the model is concerned (its content is the handler's business: `run` ignores it).
    match code.toNat?, unhex hm with
    | some c, some m =>
      let h : Handler := ⟨4, 4, fun _ => .error (c % 5, m)⟩
      let req := mkFrame [0, 0, 0, 0, 0, 0, 0, 0]
      match exchange (fun _ => some h) [47] 4 4 req [2] [5, 16383, 16383] with
      | (.status c' m', [_]) => (st, s!"fail {c'} {hexOfBytes m'}")
      | _ => (st, "fail model-refused")
    | _, _ => (st, "bad-op")
  | "rawframe" :: _seed :: _size :: _mut :: cuts :: declared :: rest =>
    -- a frame over the wire, in any chunks, under any announced length: a frame that is damaged or too short is refused and no
    -- handler runs on it (`checkFrame`); a frame that does not have the announced length never gets that far (the transport
    -- refuses the stream); nothing panics either way.  The bytes that were sent come from the harness (`frame=`).
    match (rest.find? (·.startsWith "frame=")).map (fun x => (x.drop 6).toString) with
    | some h =>
      match unhex (if h == "-" then "" else h) with
      | some bs =>
        let lie := declared != "-" && declared != "actual" && declared.toNat? != some bs.length
        -- the bytes go through the model's server: cut as the case says, reassembled by `toAligned`, checked, echo handler
        let positions := if cuts == "-" then [] else (cuts.splitOn ",").filterMap (·.toNat?)
        let echo : Handler := ⟨56, 8, fun b => .ok b⟩
        let (resp, ran) := server (fun _ => some echo) [47] (cutAt positions bs) (declared.toNat?.getD bs.length)
        let fine := !lie && resp.http == 200 && ran.length == 1 && ran == [bs.take (bs.length - 4)]
        (st, if fine then "rawframe echo runs=1 panics=0" else "rawframe refused runs=0 panics=0")
      | none => (st, "bad-op")
    | none => (st, "bad-op")
  | ["wide", offset, delta] => (st, s!"wide seen={offset} {delta}")     -- the specification: the handler observes the value sent
  | ["proxy", tmo, _size, fault, _budget] =>
    -- C14 on the real transport: the reply is lost while its body is in flight (the handler has run).  A link that goes quiet
    -- ends in the client's timeout (RpcNet: the `timeout` step at `tau`), a connection that is torn down in a connection error
    -- (RpcNet: the `drop` step); never in a reply that is not the handler's, never in another error code, never late.
    match tmo.toNat? with
    | some tau =>
      let out := if fault == "none" then "reply" else if fault == "close" then "conn" else if tau != 0 then "timeout" else "pending"
      (st, s!"proxy {out} in-time")
    | none => (st, "bad-op")
  | _ => (st, "bad-op")

end Driver.RpcDom
