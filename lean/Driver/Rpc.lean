import Datacake.Model.Rpc
import Driver.Util
/- Domain `rpc`: frame layer (C12) and handler registry (C13). -/
namespace Driver.RpcDom
open Datacake.Rpc Driver

inductive Ev where
  | add (n inst : Nat)
  | remove (n : Nat)

structure State where
  reg : Registry := Registry.empty
  evs : List Ev := []      -- newest first

def svcName : String → Option Nat
  | "A" => some 0 | "B" => some 1 | "C" => some 2 | _ => none

/-- Handler keys of the three services of the harness (hash injectivity: distinct numbers). -/
def keysOf : Nat → List Nat
  | 0 => [1] | 1 => [2] | 2 => [3, 4] | _ => []

def keyOf : String → String → Option Nat
  | "A", "M1" => some 1 | "B", "M1" => some 2 | "C", "M1" => some 3 | "C", "M2" => some 4 | _, _ => none

/-- The specification of C13 (`C13.registered`): the instance of the last `add` not followed by a
`remove`, from the event history alone. -/
def registered (evs : List Ev) (n : Nat) : Option Nat :=
  match evs with
  | [] => none
  | .add m inst :: rest => if m = n then some inst else registered rest n
  | .remove m :: rest => if m = n then none else registered rest n

def showCall : Option Nat → String
  | some inst => s!"ok:{inst}"
  | none => "unavailable"

def step (st : State) (toks : List String) : State × String :=
  match toks with
  | ["crc", h] =>
    match unhex h with
    | some bs => (st, toString (crc32 bs))
    | none => (st, "bad-op")
  | ["check", _ty, fixed, h] =>
    match fixed.toNat?, unhex h with
    | some fixed, some bs =>
      (st, match checkFrame fixed bs with | some _ => "ok" | none => "invalid")
    | _, _ => (st, "bad-op")
  | ["add", s, inst] =>
    match svcName s, inst.toNat? with
    | some n, some inst =>
      ({ reg := addHandlers st.reg n (keysOf n) inst, evs := .add n inst :: st.evs }, "ok")
    | _, _ => (st, "bad-op")
  | ["remove", s] =>
    match svcName s with
    | some n => ({ reg := removeHandlers st.reg n, evs := .remove n :: st.evs }, "ok")
    | none => (st, "bad-op")
  | ["call", s, m] =>
    match svcName s, keyOf s m with
    | some n, some k =>
      (st, showCall (getHandler st.reg k) ++ "\t#spec " ++ showCall (registered st.evs n))
    | _, _ => (st, "bad-op")
  | _ => (st, "bad-op")

end Driver.RpcDom
