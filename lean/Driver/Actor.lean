import Datacake.Model.Keyspace
import Driver.Orswot
import Driver.Store
/- Domain `actor`: one node's keyspace actor over the reference store with injected failures
(C02, C07). -/
namespace Driver.ActorDom
open Datacake Datacake.Keyspace Datacake.OrSwot Driver

def F : Nat := 3600000

/-- A node holds many keyspaces, each with its own actor (set) and its own part of the store; `cur`
is the one the following requests address. -/
structure State where
  node : Node := {}                       -- the current keyspace
  others : List (String × Node) := []     -- the other keyspaces of the node
  cur : String := "ks"

inductive Dir where
  | none | fail | hang | written (idxs : List Nat)

def parseDir (toks : List String) : Dir :=
  match toks.getLast? with
  | some "fail" => .fail
  | some "hang" => .hang
  | some x =>
    if x.startsWith "w=" then
      let l := (x.drop 2).toString
      .written (if l == "-" then [] else (l.splitOn ",").filterMap (·.toNat?))
    else .none
  | none => .none

def fmtIds (l : List Nat) : String :=
  if l.isEmpty then "-" else ",".intercalate ((StoreDom.sortNat l).map toString)

def showOut (o : Out) (bulk : Bool) : String :=
  match o with
  | .ok => "ok"
  | .err ids => if bulk then s!"err {fmtIds ids}" else "err"

def stateStr (n : Node) : String :=
  let rows := StoreDom.sortOn (fun r => r.1) (n.store.rows.map (fun p => (p.1, p.2.1, p.2.2)))
  let ms := if rows.isEmpty then "-"
    else ",".intercalate (rows.map (fun r => s!"{r.1}:{r.2.1}:{if r.2.2 then "t" else "f"}"))
  s!"set {OrswotDom.dumpStr n.set} | store {ms}"

def switchKs (st : State) (name : String) : State :=
  if name == st.cur then st
  else
    let saved := (st.cur, st.node) :: st.others.filter (·.1 ≠ st.cur)
    let nd := ((saved.find? (·.1 == name)).map (·.2)).getD {}
    { node := nd, others := saved.filter (·.1 ≠ name), cur := name }

def step (st : State) (toks : List String) : State × String :=
  let n := st.node
  let dir := parseDir toks
  match toks with
  | "set" :: src :: id :: ts :: d :: _ =>
    match src.toNat?, id.toNat?, ts.toNat?, StoreDom.genData d with
    | some src, some id, some ts, some d =>
      match dir with
      | .hang =>
        if willApply n.set id ts then ({ st with node := { n with store := storePut n.store (id, ts, d) } }, "hung")
        else (st, "ok")
      | .fail => let (n', o) := onSet F n src (id, ts, d) true; ({ st with node := n' }, showOut o false)
      | _ => let (n', o) := onSet F n src (id, ts, d) false; ({ st with node := n' }, showOut o false)
    | _, _, _, _ => (st, "bad-op")
  | "del" :: src :: id :: ts :: _ =>
    match src.toNat?, id.toNat?, ts.toNat? with
    | some src, some id, some ts =>
      match dir with
      | .hang =>
        if willApply n.set id ts then ({ st with node := { n with store := storeTomb n.store id ts } }, "hung")
        else (st, "ok")
      | .fail => let (n', o) := onDel F n src id ts true; ({ st with node := n' }, showOut o false)
      | _ => let (n', o) := onDel F n src id ts false; ({ st with node := n' }, showOut o false)
    | _, _, _ => (st, "bad-op")
  | "mset" :: src :: docs :: _ =>
    match src.toNat?, StoreDom.parseDocs docs with
    | some src, some docs =>
      match dir with
      | .hang =>
        let valid := docs.filter (fun d => willApply n.set d.1 d.2.1)
        ({ st with node := { n with store := valid.foldl storePut n.store } }, "hung")
      | .fail => let (n', o) := onMultiSet F n src docs (some []); ({ st with node := n' }, showOut o true)
      | .written idxs => let (n', o) := onMultiSet F n src docs (some idxs); ({ st with node := n' }, showOut o true)
      | .none => let (n', o) := onMultiSet F n src docs none; ({ st with node := n' }, showOut o true)
    | _, _ => (st, "bad-op")
  | "mdel" :: src :: docs :: _ =>
    match src.toNat?, StoreDom.parsePairs docs with
    | some src, some docs =>
      match dir with
      | .hang =>
        let valid := docs.filter (fun d => willApply n.set d.1 d.2)
        ({ st with node := { n with store := valid.foldl (fun ks d => storeTomb ks d.1 d.2) n.store } }, "hung")
      | .fail => let (n', o) := onMultiDel F n src docs (some []); ({ st with node := n' }, showOut o true)
      | .written idxs => let (n', o) := onMultiDel F n src docs (some idxs); ({ st with node := n' }, showOut o true)
      | .none => let (n', o) := onMultiDel F n src docs none; ({ st with node := n' }, showOut o true)
    | _, _ => (st, "bad-op")
  | "purge" :: _ =>
    match dir with
    | .hang =>
      let (n', _) := onPurge n none
      ({ st with node := n' }, "hung")
    | .fail => let (n', o) := onPurge n (some []); ({ st with node := n' }, showOut o false)
    | .written idxs =>
      -- the case file numbers the purged tombstones in ascending key order (the implementation hands them to storage
      -- in hash-map order, the harness sorts them): translate to positions of the model's `purged` list
      let purged := (OrSwot.purgeOldDeletes n.set).2
      let sortedKeys := StoreDom.sortNat (purged.map (·.1))
      let doneKeys := (sortedKeys.zipIdx.filter (fun p => idxs.contains p.2)).map (·.1)
      let idxs' := (purged.zipIdx.filter (fun p => doneKeys.contains p.1.1)).map (·.2)
      let (n', o) := onPurge n (some idxs'); ({ st with node := n' }, showOut o false)
    | .none => let (n', o) := onPurge n none; ({ st with node := n' }, showOut o false)
  | ["state"] => (st, stateStr n)
  | ["get", id] =>
    match id.toNat? with
    | some id =>
      (st, match Storage.aget n.store.data id, Storage.aget n.store.rows id with
        | some bytes, some (ts, _) => s!"doc {id}:{ts}:{StoreDom.showData bytes}"
        | _, _ => "none")
    | none => (st, "bad-op")
  | ["ks", name] => (switchKs st name, "ok")
  | ["restart"] =>
    -- `load_states_from_storage`: EVERY keyspace is rebuilt from its own part of the store
    ({ st with node := { n with set := loadFromStorage F n.store },
               others := st.others.map (fun p => (p.1, { p.2 with set := loadFromStorage F p.2.store })) }, "ok")
  | _ => (st, "bad-op")

end Driver.ActorDom
