import Datacake.Model.Orswot
import Datacake.Spec.Lww
import Driver.Util
/- Domain `orswot`: the ORSWOT model behind the line protocol (C03, C04, C05, C08). -/
namespace Driver.OrswotDom
open Datacake Datacake.OrSwot Driver

/-- `FORGIVENESS_PERIOD` of a non-test build, in ms. -/
def F : Nat := 3600000

structure State where
  n : Nat := 1
  regs : List OrSwot := []
  /-- per register: the operations attempted on it since the last reset (newest first) -/
  hist : List (List Op) := []
  /-- the declared history of the case (`hist` line), for the gap-free alternative -/
  H : List Op := []
  /-- per register: every state in its derivation so far had applied a gap-free prefix of `H`
  (`C03.Reach` with the `DownClosed` alternative) -/
  gf : List Bool := []

def init (params : List String) : State :=
  let n := (params.head?.bind (·.toNat?)).getD 1
  { n := n, regs := List.replicate 4 (OrSwot.empty n), hist := List.replicate 4 [], gf := List.replicate 4 true }

def insertionSort (l : List (Nat × Nat)) : List (Nat × Nat) :=
  l.foldr (fun x acc =>
    let rec ins (x : Nat × Nat) : List (Nat × Nat) → List (Nat × Nat)
      | [] => [x]
      | y :: ys => if x.1 < y.1 ∨ (x.1 = y.1 ∧ x.2 ≤ y.2) then x :: y :: ys else y :: ins x ys
    ins x acc) []

def mergeSorted : List (Nat × Nat) → List (Nat × Nat) → List (Nat × Nat)
  | [], ys => ys
  | xs, [] => xs
  | x :: xs, y :: ys =>
    if x.1 < y.1 ∨ (x.1 = y.1 ∧ x.2 ≤ y.2) then x :: mergeSorted xs (y :: ys)
    else y :: mergeSorted (x :: xs) ys

/-- Merge sort (the canonical output order: by key, then stamp). -/
partial def sortPairs (l : List (Nat × Nat)) : List (Nat × Nat) :=
  if l.length ≤ 8 then insertionSort l
  else
    let h := l.length / 2
    mergeSorted (sortPairs (l.take h)) (sortPairs (l.drop h))

def fmtPairs (l : List (Nat × Nat)) : String :=
  if l.isEmpty then "-"
  else ",".intercalate ((sortPairs l).map (fun p => s!"{p.1}:{p.2}"))

def parsePairs (s : String) : Option (List (Nat × Nat)) :=
  if s == "-" then some []
  else (s.splitOn ",").mapM (fun p =>
    match p.splitOn ":" with
    | [a, b] => match a.toNat?, b.toNat? with
      | some a, some b => some (a, b)
      | _, _ => none
    | _ => none)

def getReg (st : State) (i : Nat) : OrSwot := st.regs.getD i (OrSwot.empty st.n)
def setReg (st : State) (i : Nat) (s : OrSwot) : State := { st with regs := st.regs.set i s }

def getHist (st : State) (i : Nat) : List Op := st.hist.getD i []
def pushHist (st : State) (i : Nat) (o : Op) : State := { st with hist := st.hist.set i (o :: getHist st i) }
def setHist (st : State) (i : Nat) (h : List Op) : State := { st with hist := st.hist.set i h }

/-- Decidable form of the hypotheses of `C04.apply_ops_lww` + `accepted_of_origin_window`
(`C04.Window`) plus distinct stamps: the LWW oracle is only printed when they hold. -/
def windowOk (ops : List Op) : Bool :=
  ops.all (fun a => decide (a.ts < 18446744073709551616) && decide (Ts.fractional a.ts < 250)) &&
  ops.all (fun a => ops.all (fun b =>
    (Ts.node a.ts != Ts.node b.ts) || decide (Ts.dts a.ts < Ts.dts b.ts + F)))

def distinctStamps (ops : List Op) : Bool :=
  let ts := ops.map (·.ts)
  ts.length == ts.eraseDups.length

def keysOf (ops : List Op) : List Nat := (ops.map (·.key)).eraseDups

/-- The LWW specification printed in the same canonical form as `dump`. -/
def lwwDump (ops : List Op) : String :=
  let recs := (keysOf ops).filterMap (fun k => (Lww.lww ops k).map (fun r => (k, r)))
  let live := recs.filter (fun p => p.2 % 2 == 1) |>.map (fun p => (p.1, p.2 / 2))
  let dead := recs.filter (fun p => p.2 % 2 == 0) |>.map (fun p => (p.1, p.2 / 2))
  s!"E {fmtPairs live} D {fmtPairs dead}"

/-- Arrival-order timeliness (hypothesis of the C08 cluster statement): every operation is less
than `F` older (in time) than every operation applied before it.  `ops` is newest first. -/
def timelyOk : List Op → Bool
  | [] => true
  | o :: earlier => earlier.all (fun e => decide (Ts.dts e.ts < Ts.dts o.ts + F)) && timelyOk earlier

def validOps (ops : List Op) : Bool :=
  ops.all (fun a => decide (a.ts < 18446744073709551616) && decide (Ts.fractional a.ts < 250))

def lwwLive (ops : List Op) : String :=
  let recs := (keysOf ops).filterMap (fun k => (Lww.lww ops k).map (fun r => (k, r)))
  let live := recs.filter (fun p => p.2 % 2 == 1) |>.map (fun p => (p.1, p.2 / 2))
  s!"E {fmtPairs live}"

def sortByTs (l : List (Nat × Nat)) : List (Nat × Nat) :=
  (sortPairs (l.map (fun p => (p.2, p.1)))).map (fun p => (p.2, p.1))

/-- Deterministic interleaving of the removal and modification batches (each sorted by stamp):
mode 0 = removals first, 1 = modifications first, otherwise bit `i` of `mode / 2` picks the batch
of the `i`-th item while both are non-empty.  `true` marks a removal. -/
def interleave (mode : Nat) (rs cs : List (Nat × Nat)) : List (Bool × Nat × Nat) :=
  if mode == 0 then rs.map (fun p => (true, p.1, p.2)) ++ cs.map (fun p => (false, p.1, p.2))
  else if mode == 1 then cs.map (fun p => (false, p.1, p.2)) ++ rs.map (fun p => (true, p.1, p.2))
  else
    let rec go (bits : Nat) : Nat → List (Nat × Nat) → List (Nat × Nat) → List (Bool × Nat × Nat)
      | 0, _, _ => []
      | _ + 1, [], cs => cs.map (fun p => (false, p.1, p.2))
      | _ + 1, rs, [] => rs.map (fun p => (true, p.1, p.2))
      | fuel + 1, r :: rs, c :: cs =>
        if bits % 2 == 0 then (true, r.1, r.2) :: go (bits / 2) fuel rs (c :: cs)
        else (false, c.1, c.2) :: go (bits / 2) fuel (r :: rs) cs
    go (mode / 2) (rs.length + cs.length + 1) rs cs

def opIn (o : Op) (l : List Op) : Bool := l.any (fun x => x.key == o.key && x.ts == o.ts && x.isDel == o.isDel)

/-- Decidable `DownClosed A H`. -/
def downClosedOk (A H : List Op) : Bool :=
  A.all (fun o => H.all (fun o' =>
    !(Ts.node o'.ts == Ts.node o.ts && decide (o'.ts ≤ o.ts)) || opIn o' A))

def getGf (st : State) (i : Nat) : Bool := st.gf.getD i false
def setGf (st : State) (i : Nat) (b : Bool) : State := { st with gf := st.gf.set i b }

/-- After an operation on register `r`: keep the gap-free flag only if the new applied list is
still a gap-free prefix of the declared history. -/
def touchGf (st : State) (r : Nat) (o : Op) : State :=
  setGf st r (getGf st r && opIn o st.H && downClosedOk (getHist st r) st.H)

def parseOps (s : String) : Option (List Op) :=
  if s == "-" then some []
  else (s.splitOn ",").mapM (fun p =>
    match p.splitOn ":" with
    | [a, b, c] => match a.toNat?, b.toNat?, c.toNat? with
      | some a, some b, some c => some ⟨a, b, c == 1⟩
      | _, _, _ => none
    | _ => none)

def bstr (b : Bool) : String := if b then "true" else "false"

/-- Least stamp with node id `n` that `isBefore` does not refuse. -/
def cutOf (s : OrSwot) (n : Nat) : Nat :=
  match s.safe.get n with
  | none => n
  | some v => if v % 256 ≤ n then v - v % 256 + n else v - v % 256 + 256 + n

def dumpStr (s : OrSwot) : String :=
  s!"E {fmtPairs s.entries.bindings} D {fmtPairs s.dead.bindings}"

def step (st : State) (toks : List String) : State × String :=
  match toks with
  | ["applydiff", a, b, src, mode] =>
    -- a.diff(b), then the listed removals / modifications applied to `a` on source `src`
    match a.toNat?, b.toNat?, src.toNat?, mode.toNat? with
    | some a, some b, some src, some mode =>
      if src < st.n ∧ a < 4 ∧ b < 4 then
        let (cs, rs) := diff (getReg st a) (getReg st b)
        let items := interleave mode (sortByTs rs) (sortByTs cs)
        let (st', cnt) := items.foldl (fun (acc : State × Nat) it =>
          let (isDel, k, ts) := it
          let (s', res) := if isDel then deleteWithSource F (getReg acc.1 a) src k ts
                           else insertWithSource F (getReg acc.1 a) src k ts
          (setGf (pushHist (setReg acc.1 a s') a ⟨k, ts, isDel⟩) a false, acc.2 + (if res then 1 else 0))) (st, 0)
        (st', s!"applied {cnt}/{items.length}")
      else (st, "bad-op")
    | _, _, _, _ => (st, "bad-op")
  | [op, a, b, c, d] =>
    match a.toNat?, b.toNat?, c.toNat?, d.toNat? with
    | some r, some src, some k, some ts =>
      if src < st.n ∧ r < 4 then
        if op == "ins" then
          let (s', res) := insertWithSource F (getReg st r) src k ts
          (touchGf (pushHist (setReg st r s') r ⟨k, ts, false⟩) r ⟨k, ts, false⟩, bstr res)
        else if op == "del" then
          let (s', res) := deleteWithSource F (getReg st r) src k ts
          (touchGf (pushHist (setReg st r s') r ⟨k, ts, true⟩) r ⟨k, ts, true⟩, bstr res)
        else (st, "bad-op")
      else (st, "bad-op")
    | _, _, _, _ => (st, "bad-op")
  | ["will", r, k, ts] =>
    match r.toNat?, k.toNat?, ts.toNat? with
    | some r, some k, some ts => (st, bstr (willApply (getReg st r) k ts))
    | _, _, _ => (st, "bad-op")
  | ["get", r, k] =>
    match r.toNat?, k.toNat? with
    | some r, some k =>
      match OrSwot.get (getReg st r) k with
      | some v => (st, toString v)
      | none => (st, "none")
    | _, _ => (st, "bad-op")
  | ["dump", r] =>
    match r.toNat? with
    | some r => (st, dumpStr (getReg st r))
    | none => (st, "bad-op")
  | ["lww", r] =>
    -- model: the state; spec: the LWW record of every key of the history (C04.apply_ops_lww)
    match r.toNat? with
    | some r =>
      let h := getHist st r
      let spec := if validOps h && (windowOk h || getGf st r) then lwwDump h else "-"
      (st, dumpStr (getReg st r) ++ "\t#spec " ++ spec)
    | none => (st, "bad-op")
  | ["hist", ops] =>
    match parseOps ops with
    | some ops => ({ st with H := ops }, "ok")
    | none => (st, "bad-op")
  | ["lwwlive", r] =>
    -- C08: live part only; oracle printed when the arrival order is timely
    match r.toNat? with
    | some r =>
      let h := getHist st r
      let spec := if validOps h && timelyOk h then lwwLive h else "-"
      (st, s!"E {fmtPairs (getReg st r).entries.bindings}" ++ "\t#spec " ++ spec)
    | none => (st, "bad-op")
  | ["diff", a, b] =>
    match a.toNat?, b.toNat? with
    | some a, some b =>
      let (c, r) := diff (getReg st a) (getReg st b)
      (st, s!"C {fmtPairs c} R {fmtPairs r}")
    | _, _ => (st, "bad-op")
  | ["merge", a, b] =>
    match a.toNat?, b.toNat? with
    | some a, some b =>
      (setGf (setHist (setReg st a (merge F (getReg st a) (getReg st b))) a (getHist st a ++ getHist st b)) a
        (getGf st a && getGf st b), "ok")
    | _, _ => (st, "bad-op")
  | ["purge", r] =>
    match r.toNat? with
    | some r =>
      let (s', purged) := purgeOldDeletes (getReg st r)
      (setReg st r s', fmtPairs purged)
    | none => (st, "bad-op")
  | ["rawtomb", r, ps] =>
    match r.toNat?, parsePairs ps with
    | some r, some ps => (setReg st r (addRawTombstones (getReg st r) ps), "ok")
    | _, _ => (st, "bad-op")
  | ["copy", a, b] =>
    match a.toNat?, b.toNat? with
    | some a, some b => (setGf (setHist (setReg st a (getReg st b)) a (getHist st b)) a (getGf st b), "ok")
    | _, _ => (st, "bad-op")
  | ["reset", r] =>
    match r.toNat? with
    | some r => (setGf (setHist (setReg st r (OrSwot.empty st.n)) r []) r true, "ok")
    | none => (st, "bad-op")
  | ["cut", r, n] =>
    match r.toNat?, n.toNat? with
    | some r, some n => (st, s!"cut {cutOf (getReg st r) n}")
    | _, _ => (st, "bad-op")
  | _ => (st, "bad-op")

end Driver.OrswotDom
