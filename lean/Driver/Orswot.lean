import Datacake.Model.Orswot
import Datacake.Spec.Lww
import Driver.Util
/- Domain `orswot`: the ORSWOT model behind the line protocol (C03, C04, C05, C08). -/
namespace Driver.OrswotDom
open Datacake Datacake.OrSwot Driver

/-- `FORGIVENESS_PERIOD` of a non-test build, in ms. -/
def F : Nat := 3600000

structure State where
  n : Nat := 1
  regs : List OrSwot := []
  /-- per register: the operations attempted on it since the last reset (newest first) -/
  hist : List (List Op) := []

def init (params : List String) : State :=
  let n := (params.head?.bind (·.toNat?)).getD 1
  { n := n, regs := List.replicate 4 (OrSwot.empty n), hist := List.replicate 4 [] }

def insertionSort (l : List (Nat × Nat)) : List (Nat × Nat) :=
  l.foldr (fun x acc =>
    let rec ins (x : Nat × Nat) : List (Nat × Nat) → List (Nat × Nat)
      | [] => [x]
      | y :: ys => if x.1 < y.1 ∨ (x.1 = y.1 ∧ x.2 ≤ y.2) then x :: y :: ys else y :: ins x ys
    ins x acc) []

def mergeSorted : List (Nat × Nat) → List (Nat × Nat) → List (Nat × Nat)
  | [], ys => ys
  | xs, [] => xs
  | x :: xs, y :: ys =>
    if x.1 < y.1 ∨ (x.1 = y.1 ∧ x.2 ≤ y.2) then x :: mergeSorted xs (y :: ys)
    else y :: mergeSorted (x :: xs) ys

/-- Merge sort (the canonical output order: by key, then stamp). -/
partial def sortPairs (l : List (Nat × Nat)) : List (Nat × Nat) :=
  if l.length ≤ 8 then insertionSort l
  else
    let h := l.length / 2
    mergeSorted (sortPairs (l.take h)) (sortPairs (l.drop h))

def fmtPairs (l : List (Nat × Nat)) : String :=
  if l.isEmpty then "-"
  else ",".intercalate ((sortPairs l).map (fun p => s!"{p.1}:{p.2}"))

def parsePairs (s : String) : Option (List (Nat × Nat)) :=
  if s == "-" then some []
  else (s.splitOn ",").mapM (fun p =>
    match p.splitOn ":" with
    | [a, b] => match a.toNat?, b.toNat? with
      | some a, some b => some (a, b)
      | _, _ => none
    | _ => none)

def getReg (st : State) (i : Nat) : OrSwot := st.regs.getD i (OrSwot.empty st.n)
def setReg (st : State) (i : Nat) (s : OrSwot) : State := { st with regs := st.regs.set i s }

def getHist (st : State) (i : Nat) : List Op := st.hist.getD i []
def pushHist (st : State) (i : Nat) (o : Op) : State := { st with hist := st.hist.set i (o :: getHist st i) }
def setHist (st : State) (i : Nat) (h : List Op) : State := { st with hist := st.hist.set i h }

/-- Decidable form of the hypotheses of `C04.apply_ops_lww` + `accepted_of_origin_window`
(`C04.Window`) plus distinct stamps: the LWW oracle is only printed when they hold. -/
def windowOk (ops : List Op) : Bool :=
  ops.all (fun a => decide (a.ts < 18446744073709551616) && decide (Ts.fractional a.ts < 250) && decide (0 < Ts.dts a.ts)) &&
  ops.all (fun a => ops.all (fun b =>
    (Ts.node a.ts != Ts.node b.ts) || decide (Ts.dts a.ts < Ts.dts b.ts + F)))

def distinctStamps (ops : List Op) : Bool :=
  let ts := ops.map (·.ts)
  ts.length == ts.eraseDups.length

def keysOf (ops : List Op) : List Nat := (ops.map (·.key)).eraseDups

/-- The LWW specification printed in the same canonical form as `dump`. -/
def lwwDump (ops : List Op) : String :=
  let recs := (keysOf ops).filterMap (fun k => (Lww.lww ops k).map (fun r => (k, r)))
  let live := recs.filter (fun p => p.2 % 2 == 1) |>.map (fun p => (p.1, p.2 / 2))
  let dead := recs.filter (fun p => p.2 % 2 == 0) |>.map (fun p => (p.1, p.2 / 2))
  s!"E {fmtPairs live} D {fmtPairs dead}"

def bstr (b : Bool) : String := if b then "true" else "false"

/-- Least stamp with node id `n` that `isBefore` does not refuse. -/
def cutOf (s : OrSwot) (n : Nat) : Nat :=
  match s.safe.get n with
  | none => n
  | some v => if v % 256 ≤ n then v - v % 256 + n else v - v % 256 + 256 + n

def dumpStr (s : OrSwot) : String :=
  s!"E {fmtPairs s.entries.bindings} D {fmtPairs s.dead.bindings}"

def step (st : State) (toks : List String) : State × String :=
  match toks with
  | [op, a, b, c, d] =>
    match a.toNat?, b.toNat?, c.toNat?, d.toNat? with
    | some r, some src, some k, some ts =>
      if src < st.n ∧ r < 4 then
        if op == "ins" then
          let (s', res) := insertWithSource F (getReg st r) src k ts
          (pushHist (setReg st r s') r ⟨k, ts, false⟩, bstr res)
        else if op == "del" then
          let (s', res) := deleteWithSource F (getReg st r) src k ts
          (pushHist (setReg st r s') r ⟨k, ts, true⟩, bstr res)
        else (st, "bad-op")
      else (st, "bad-op")
    | _, _, _, _ => (st, "bad-op")
  | ["will", r, k, ts] =>
    match r.toNat?, k.toNat?, ts.toNat? with
    | some r, some k, some ts => (st, bstr (willApply (getReg st r) k ts))
    | _, _, _ => (st, "bad-op")
  | ["get", r, k] =>
    match r.toNat?, k.toNat? with
    | some r, some k =>
      match OrSwot.get (getReg st r) k with
      | some v => (st, toString v)
      | none => (st, "none")
    | _, _ => (st, "bad-op")
  | ["dump", r] =>
    match r.toNat? with
    | some r => (st, dumpStr (getReg st r))
    | none => (st, "bad-op")
  | ["lww", r] =>
    -- model: the state; spec: the LWW record of every key of the history (C04.apply_ops_lww)
    match r.toNat? with
    | some r =>
      let h := getHist st r
      let spec := if windowOk h && distinctStamps h then lwwDump h else "-"
      (st, dumpStr (getReg st r) ++ "\t#spec " ++ spec)
    | none => (st, "bad-op")
  | ["diff", a, b] =>
    match a.toNat?, b.toNat? with
    | some a, some b =>
      let (c, r) := diff (getReg st a) (getReg st b)
      (st, s!"C {fmtPairs c} R {fmtPairs r}")
    | _, _ => (st, "bad-op")
  | ["merge", a, b] =>
    match a.toNat?, b.toNat? with
    | some a, some b =>
      (setHist (setReg st a (merge F (getReg st a) (getReg st b))) a (getHist st a ++ getHist st b), "ok")
    | _, _ => (st, "bad-op")
  | ["purge", r] =>
    match r.toNat? with
    | some r =>
      let (s', purged) := purgeOldDeletes (getReg st r)
      (setReg st r s', fmtPairs purged)
    | none => (st, "bad-op")
  | ["rawtomb", r, ps] =>
    match r.toNat?, parsePairs ps with
    | some r, some ps => (setReg st r (addRawTombstones (getReg st r) ps), "ok")
    | _, _ => (st, "bad-op")
  | ["copy", a, b] =>
    match a.toNat?, b.toNat? with
    | some a, some b => (setHist (setReg st a (getReg st b)) a (getHist st b), "ok")
    | _, _ => (st, "bad-op")
  | ["reset", r] =>
    match r.toNat? with
    | some r => (setHist (setReg st r (OrSwot.empty st.n)) r [], "ok")
    | none => (st, "bad-op")
  | ["cut", r, n] =>
    match r.toNat?, n.toNat? with
    | some r, some n => (st, s!"cut {cutOf (getReg st r) n}")
    | _, _ => (st, "bad-op")
  | _ => (st, "bad-op")

end Driver.OrswotDom
