/- Shared helpers of the line-protocol driver (no Mathlib, no Std beyond core). -/
namespace Driver

def hexDigit (n : Nat) : Char :=
  if n < 10 then Char.ofNat (48 + n) else Char.ofNat (87 + n)

def hexByte (b : Nat) : String :=
  String.ofList [hexDigit (b / 16 % 16), hexDigit (b % 16)]

def hexOfBytes (bs : List Nat) : String :=
  if bs.isEmpty then "-" else String.join (bs.map hexByte)

def hexVal (c : Char) : Option Nat :=
  if '0' ≤ c ∧ c ≤ '9' then some (c.toNat - 48)
  else if 'a' ≤ c ∧ c ≤ 'f' then some (c.toNat - 87)
  else if 'A' ≤ c ∧ c ≤ 'F' then some (c.toNat - 55)
  else none

def unhexAux : List Char → List Nat → Option (List Nat)
  | [], acc => some acc.reverse
  | [_], _ => none
  | a :: b :: rest, acc =>
    match hexVal a, hexVal b with
    | some x, some y => unhexAux rest ((x * 16 + y) :: acc)
    | _, _ => none

def unhex (s : String) : Option (List Nat) :=
  if s == "-" then some [] else unhexAux s.toList []

def bytesToString? (bs : List Nat) : Option String :=
  String.fromUTF8? (ByteArray.mk (bs.map (fun b => UInt8.ofNat b)).toArray)

def stringToBytes (s : String) : List Nat :=
  s.toUTF8.toList.map (·.toNat)

def natArgs (ts : List String) : Option (List Nat) :=
  ts.mapM (·.toNat?)

end Driver
