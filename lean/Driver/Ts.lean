import Datacake.Model.Timestamp
import Driver.Util
/- Domain `ts`: the timestamp model behind the line protocol (C09, C10). -/
namespace Driver.TsDom
open Datacake Datacake.Ts Driver

structure State where
  clock : Nat := 0

def errName : Err → String
  | .duplicatedNode => "err:dup"
  | .clockDrift => "err:drift"
  | .overflow => "err:overflow"

/-- `get_datacake_timestamp` normalises the system time through `duration_to_parts` /
`parts_as_duration` (floor to 4 ms); the verif hook does the same to an injected reading. -/
def normWall (ms : Nat) : Nat := partsAsDuration (durSecs ms) (durFrac ms)

def cmpStr (a b : Nat) : String := if a < b then "lt" else if a = b then "eq" else "gt"

def step (s : State) (toks : List String) : State × String :=
  match toks with
  | ["init", c] =>
    match c.toNat? with
    | some c => ({ clock := c }, s!"ok clock={c}")
    | none => (s, "bad-op")
  | ["send", w] =>
    match w.toNat? with
    | some w =>
      let w := normWall w
      match send s.clock w with
      | .ok c' => ({ clock := c' }, s!"ok {c'} clock={c'}")
      | .error e => (s, s!"{errName e} clock={s.clock}")
    | none => (s, "bad-op")
  | ["send-unix", u] =>
    match u.toNat? with
    | some u =>
      match send s.clock (wallOfUnix u) with
      | .ok c' => ({ clock := c' }, s!"ok {c'} clock={c'}")
      | .error e => (s, s!"{errName e} clock={s.clock}")
    | none => (s, "bad-op")
  | ["recv", w, m] =>
    match w.toNat?, m.toNat? with
    | some w, some m =>
      let w := normWall w
      match recv s.clock w m with
      | .ok (c', r) => ({ clock := c' }, s!"ok {r} clock={c'}")
      | .err e => (s, s!"{errName e} clock={s.clock}")
      | .panic =>
        -- the Rust has already assigned the new clock value when `Self::new` panics
        let tsNew := max (max (dts s.clock) w) (dts m)
        match recvCounter tsNew (dts s.clock) (dts m) (counter s.clock) (counter m) with
        | .ok k => let c' := pack tsNew k (node s.clock); ({ clock := c' }, s!"panic clock={c'}")
        | .error _ => (s, s!"panic clock={s.clock}")
    | _, _ => (s, "bad-op")
  | ["fields", t] =>
    match t.toNat? with
    | some t => (s, s!"{seconds t} {fractional t} {counter t} {node t} {dts t}")
    | none => (s, "bad-op")
  | ["new", ms, k, n] =>
    match ms.toNat?, k.toNat?, n.toNat? with
    | some ms, some k, some n =>
      if k < 65536 ∧ n < 256 then
        match new? ms k n with
        | some t => (s, s!"ok {t}")
        | none => (s, "panic")
      else (s, "bad-op")
    | _, _, _ => (s, "bad-op")
  | ["display", t] =>
    match t.toNat? with
    | some t => (s, hexOfBytes (stringToBytes (String.ofList (display t))))
    | none => (s, "bad-op")
  | ["parse", h] =>
    match (unhex h).bind bytesToString? with
    | some str =>
      match fromStr str.toList with
      | .ok t => (s, s!"ok {t}")
      | .invalid => (s, "invalid")
      | .panic => (s, "panic")
    | none => (s, "bad-op")
  | ["rt", t] =>
    match t.toNat? with
    | some t =>
      match fromStr (display t) with
      | .ok t => (s, s!"ok {t}")
      | .invalid => (s, "invalid")
      | .panic => (s, "panic")
    | none => (s, "bad-op")
  | ["newf", a, b, c, d] =>
    match a.toNat?, b.toNat?, c.toNat?, d.toNat? with
    | some secs, some frac, some k, some n =>
      if k < 65536 ∧ n < 256 ∧ frac < 256 ∧ secs < 18446744073709551616 then
        if secs + (frac * 4) / 1000 > 18446744073709551616 - 1 then (s, "panic")
        else match new? (partsAsDuration secs frac) k n with
          | some t => (s, s!"{seconds t} {fractional t} {counter t} {node t} {t}")
          | none => (s, "panic")
      else (s, "bad-op")
    | _, _, _, _ => (s, "bad-op")
  | ["cmp", a, b] =>
    match a.toNat?, b.toNat? with
    | some a, some b => (s, cmpStr a b)
    | _, _ => (s, "bad-op")
  | ["archive", t] =>
    match t.toNat? with
    | some t => (s, s!"{hexOfBytes (archive t)} {unarchive (archive t)}")
    | none => (s, "bad-op")
  | _ => (s, "bad-op")

end Driver.TsDom
