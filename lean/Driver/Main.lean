import Driver.Ts
import Driver.Orswot
import Driver.Rpc
import Driver.Node
import Driver.Store
import Driver.Group
import Driver.Actor
import Driver.Cluster
import Driver.Sim
/- `dcdriver`: reads a case file on stdin, answers every line with the model's output. -/
namespace Driver

inductive Dom where
  | none
  | ts (s : TsDom.State)
  | orswot (s : OrswotDom.State)
  | rpc (s : RpcDom.State)
  | node (s : NodeDom.State)
  | store (s : StoreDom.State)
  | group (s : GroupDom.State)
  | actor (s : ActorDom.State)
  | cluster (s : ClusterDom.State)
  | sim (s : SimDom.State)
  | full     -- real nodes with the real store and all background services: only the eventual outcome is specified

def newDom (name : String) (params : List String) : Dom :=
  match name with
  | "ts" => .ts {}
  | "orswot" => .orswot (OrswotDom.init params)
  | "rpc" => .rpc {}
  | "node" => .node {}
  | "store" => .store {}
  | "group" => .group {}
  | "actor" => .actor {}
  | "cluster" => .cluster {}
  | "sim" => .sim {}
  | "full" => .full
  | _ => .none

def stepDom (d : Dom) (toks : List String) : Dom × String :=
  match d with
  | .none => (d, "bad-op")
  | .ts s => let (s', o) := TsDom.step s toks; (.ts s', o)
  | .orswot s => let (s', o) := OrswotDom.step s toks; (.orswot s', o)
  | .rpc s => let (s', o) := RpcDom.step s toks; (.rpc s', o)
  | .node s => let (s', o) := NodeDom.step s toks; (.node s', o)
  | .store s => let (s', o) := StoreDom.step s toks; (.store s', o)
  | .group s => let (s', o) := GroupDom.step s toks; (.group s', o)
  | .actor s => let (s', o) := ActorDom.step s toks; (.actor s', o)
  | .cluster s => let (s', o) := ClusterDom.step s toks; (.cluster s', o)
  | .sim s => let (s', o) := SimDom.step s toks; (.sim s', o)
  | .full =>
    match toks with
    | ["converge", _] => (d, "full converged")     -- C01.convergence: the last operation per id wins on every node
    | ["joinwrite"] => (d, "full ok")               -- C06 (C06d): an acknowledged write at All is on every member of the moment it was issued
    | ["leave"] => (d, "full safe")                 -- C16: a departed member is no longer replicated to
    | ["rejoin"] => (d, "full safe")                -- C16: a member back under a new address is held, and replicated to, at that address
    | _ => (d, "bad-op")

partial def loop (h : IO.FS.Stream) (out : IO.FS.Stream) (d : Dom) : IO Unit := do
  let line ← h.getLine
  if line.isEmpty then return ()
  let toks := (line.trimAscii.toString.splitOn " ").filter (· ≠ "")
  match toks with
  | [] => out.putStrLn ""; loop h out d
  | "case" :: rest =>
    let id := rest.head?.getD "?"
    let name := (rest.drop 1).head?.getD ""
    out.putStrLn s!"case {id}"
    loop h out (newDom name (rest.drop 2))
  | ["end"] => out.putStrLn "end"; loop h out .none
  | _ =>
    let (d', o) := stepDom d toks
    out.putStrLn o
    loop h out d'

end Driver

def main : IO Unit := do
  let stdin ← IO.getStdin
  let stdout ← IO.getStdout
  Driver.loop stdin stdout .none
  stdout.flush
