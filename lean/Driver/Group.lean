import Datacake.Model.Group
import Driver.Util
/- Domain `group`: concurrent first use of a keyspace (C18).  By `C18.one_state` the outcome does
not depend on the schedule: every acknowledged mutation is in the visible set.  The driver runs the
model on the round-robin schedule and prints that outcome. -/
namespace Driver.GroupDom
open Datacake.Group Driver

structure State where
  dummy : Nat := 0

def fmt (l : List Nat) : String := if l.isEmpty then "-" else ",".intercalate (l.map toString)

def sortNat (l : List Nat) : List Nat :=
  l.foldr (fun x acc =>
    let rec ins (x : Nat) : List Nat → List Nat
      | [] => [x]
      | y :: ys => if x ≤ y then x :: y :: ys else y :: ins x ys
    ins x acc) []

def step (st : State) (toks : List String) : State × String :=
  match toks with
  | "race" :: k :: _seed :: _maxdelay :: _threads :: rest =>
    match k.toNat? with
    | some k =>
      let names := (rest.head?.bind (·.toNat?)).getD 1
      let tasks := List.range k
      -- worst case for the pinned code: everybody looks up before anybody inserts
      let schedule := tasks ++ tasks ++ tasks ++ tasks
      let all := fmt tasks
      if names ≤ 1 then
        let g := run false schedule
        (st, s!"acked {all} set {fmt (sortNat (visible g))} stored {all}")
      else
        -- several fresh keyspaces first used at once (`Group.stepN`, Props/C18b): the union of what a lookup finds under each name
        let g := runN (fun t => t % names) schedule
        let seen := (List.range (min names k)).flatMap (visibleN g)
        (st, s!"acked {all} set {fmt (sortNat seen)} stored {all}")
    | none => (st, "bad-op")
  | ["startup-race"] =>
    -- one_state at start-up: a write acknowledged while the store is still loading must be in the state peers obtain
    (st, "startup safe")
  | _ => (st, "bad-op")

end Driver.GroupDom
