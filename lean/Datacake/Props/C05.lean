/-
C05 — The computed difference is exactly what a replica lacks; one exchange repairs.

Model: `OrSwot.diff` / `lacks` (`check_self_then_insert_to`) in `Model/Orswot.lean`.
-/
import Datacake.Lemmas.OrswotVersions

namespace Datacake.C05
open Datacake.Lww Datacake.OrSwot Datacake.Ts Datacake.Map

/-- "The replica `a` lacks the peer's record `(k, t)`": the peer's stamp is strictly newer than
what `a` holds for `k` (live entry first, else tombstone) or, if `a` holds nothing for `k`, is not
older than `a`'s purge cut-off for the stamp's origin node.  Literally the first sentence of the
property. -/
def Lacks (a : OrSwot) (k t : Nat) : Prop :=
  (∀ e, Map.get a.entries k = some e → e < t) ∧
  (Map.get a.entries k = none → ∀ d, Map.get a.dead k = some d → d < t) ∧
  (Map.get a.entries k = none → Map.get a.dead k = none → isBefore a.safe t = false)

theorem lacks_iff (a : OrSwot) (k t : Nat) : lacks a k t = true ↔ Lacks a k t := by
  unfold lacks Lacks
  cases he : Map.get a.entries k with
  | some e => simp
  | none =>
    cases hd : Map.get a.dead k with
    | some d => simp
    | none => simp

/-- **diff_exact** (no hypotheses, any two states): the modifications are exactly the peer's live
entries the replica lacks, the removals exactly the peer's tombstones it lacks, each with the
peer's stamp; nothing is listed twice. -/
theorem diff_exact (a b : OrSwot) (k t : Nat) :
    ((k, t) ∈ (diff a b).1 ↔ Map.get b.entries k = some t ∧ Lacks a k t) ∧
    ((k, t) ∈ (diff a b).2 ↔ Map.get b.dead k = some t ∧ Lacks a k t) := by
  constructor <;> simp [diff, List.mem_filter, mem_bindings, lacks_iff]

theorem diff_nodup (a b : OrSwot) :
    ((diff a b).1.map Prod.fst).Nodup ∧ ((diff a b).2.map Prod.fst).Nodup := by
  unfold diff
  constructor
  · exact List.Nodup.sublist (List.Sublist.map _ List.filter_sublist) (bindings_nodup _)
  · exact List.Nodup.sublist (List.Sublist.map _ List.filter_sublist) (bindings_nodup _)

/-- A key the peer holds live is never also listed as a removal, when the peer's state is
consistent (`Disj`): the two lists are about different keys. -/
theorem diff_disjoint (a b : OrSwot) (hb : Disj b) (k t t' : Nat)
    (h1 : (k, t) ∈ (diff a b).1) (h2 : (k, t') ∈ (diff a b).2) : False := by
  have e1 := ((diff_exact a b k t).1.1 h1).1
  have e2 := ((diff_exact a b k t').2.1 h2).1
  rcases hb k with h | h
  · rw [h] at e1; cases e1
  · rw [h] at e2; cases e2

/-- In LWW terms: a record of the peer is listed iff it is strictly newer than the replica's
record of that key — or the replica has no record and does not consider the stamp purged. -/
theorem diff_lww (a b : OrSwot) (ha : Disj a) (k t : Nat) (hlive : Map.get b.entries k = some t)
    (htie : Map.get a.dead k ≠ some t) :
    (k, t) ∈ (diff a b).1 ↔
      (view a k ≠ none ∧ Newer (view a k) (liveRec t)) ∨
      (view a k = none ∧ isBefore a.safe t = false) := by
  rw [(diff_exact a b k t).1]
  simp only [hlive, true_and]
  unfold Lacks view Newer liveRec deadRec
  rcases ha k with h | h
  · rw [h]
    cases hd : Map.get a.dead k with
    | none => simp
    | some d =>
      rw [hd] at htie
      simp at htie ⊢; omega
  · cases he : Map.get a.entries k with
    | none => simp [h]
    | some e => simp

/-- A replica whose record of `k` is at least "live at `t`" does not lack `(k, t)`. -/
theorem not_lacks_of_view_ge (s : OrSwot) (k t r : Nat) (hv : view s k = some r)
    (hr : liveRec t ≤ r) : ¬ Lacks s k t := by
  intro ⟨l1, l2, l3⟩
  unfold view liveRec deadRec at *
  cases he : Map.get s.entries k with
  | some e =>
    have := l1 e he
    rw [he] at hv; simp at hv; omega
  | none =>
    rw [he] at hv
    cases hd : Map.get s.dead k with
    | some d =>
      have := l2 he d hd
      rw [hd] at hv; simp at hv; omega
    | none => rw [hd] at hv; cases hv

/-- Applying one listed modification closes it: the entry is no longer lacking afterwards. -/
theorem applied_not_lacking_insert (F : Nat) (a : OrSwot) (src k t : Nat) (ha : Disj a)
    (hacc : isBefore a.safe t = false) :
    ¬ Lacks (insertWithSource F a src k t).1 k t := by
  have htu : tryUpdateMax F a src t ≠ none := by unfold tryUpdateMax; rw [hacc]; simp
  cases htv : tryUpdateMax F a src t with
  | none => exact absurd htv htu
  | some p =>
    obtain ⟨maxs', safe'⟩ := p
    have hd' : Disj { a with maxs := maxs', safe := safe' } := ha
    obtain ⟨h1, _, _⟩ := view_insertCore { a with maxs := maxs', safe := safe' } k t hd'
    have hv := h1 k
    simp only [if_true] at hv
    unfold insertWithSource
    simp only [htv]
    cases hva : view { a with maxs := maxs', safe := safe' } k with
    | none =>
      rw [hva] at hv
      simp only [join] at hv
      exact not_lacks_of_view_ge _ k t _ hv (Nat.le_refl _)
    | some y =>
      rw [hva] at hv
      simp only [join] at hv
      exact not_lacks_of_view_ge _ k t _ hv (by omega)

/-- Non-vacuity / illustration: a concrete pair of replicas and its difference. -/
example :
    let t1 := pack 5000000 0 0
    let t2 := pack 5000004 0 1
    let a := (insertWithSource 3600000 (OrSwot.empty 2) 0 1 t1).1
    let b := (deleteWithSource 3600000 (insertWithSource 3600000 (insertWithSource 3600000
      (OrSwot.empty 2) 0 1 t1).1 0 2 t2).1 0 1 (pack 5000008 0 0)).1
    diff a b = ([(2, t2)], [(1, pack 5000008 0 0)]) ∧ diff b a = ([], []) := by
  decide

end Datacake.C05
