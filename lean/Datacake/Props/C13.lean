/-
C13 — A message is served exactly when its service is currently registered.

Model: `Registry`, `addHandlers`, `removeHandlers`, `getHandler` in `Model/Rpc.lean`
(`ServerState` of `datacake-rpc/src/server.rs`).  A handler key is the hash of
`/service/path`; the hash is assumed injective on the URIs in play (trusted base), which is the
hypothesis `hdisj`: different service names own disjoint key sets.  Services may share message
*types* (the path is part of the key together with the service name).
-/
import Datacake.Model.Rpc

namespace Datacake.C13
open Datacake.Rpc

/-- Registry events: `add n inst` = `Server::add_service` of an instance `inst` of the service
named `n`; `remove n` = `Server::remove_service(n)`. -/
inductive Ev where
  | add (n inst : Nat)
  | remove (n : Nat)

/-- One event on the registry; `K n` are the handler keys of service `n`. -/
def step (K : Nat → List Nat) (st : Registry) : Ev → Registry
  | .add n inst => addHandlers st n (K n) inst
  | .remove n => removeHandlers st n

def run (K : Nat → List Nat) (evs : List Ev) : Registry := evs.foldl (step K) Registry.empty

/-- The specification: which instance of service `n` is registered after the events (the one of
the last `add n` not followed by a `remove n`), if any. -/
def specStep (f : Nat → Option Nat) : Ev → (Nat → Option Nat)
  | .add n inst => fun m => if m = n then some inst else f m
  | .remove n => fun m => if m = n then none else f m

def registered (evs : List Ev) : Nat → Option Nat := evs.foldl specStep (fun _ => none)

/-! ### lookup lemmas -/

theorem lookup_map_append (keys : List Nat) (inst : Nat) (rest : List (Nat × Nat)) (k : Nat) :
    lookup (keys.map (fun k => (k, inst)) ++ rest) k = if k ∈ keys then some inst else lookup rest k := by
  induction keys with
  | nil => simp
  | cons x xs ih =>
    simp only [List.map_cons, List.cons_append, lookup, List.mem_cons]
    by_cases h : x = k
    · simp [h]
    · have : ¬ k = x := fun e => h e.symm
      simp [h, this, ih]

theorem lookup_filter {α : Type} (m : List (Nat × α)) (p : Nat → Bool) (k : Nat) :
    lookup (m.filter (fun q => p q.1)) k = if p k then lookup m k else none := by
  induction m with
  | nil => simp [lookup]
  | cons x xs ih =>
    obtain ⟨a, b⟩ := x
    simp only [List.filter_cons]
    by_cases h : a = k
    · subst h
      cases hp : p a <;> simp [lookup, hp, ih]
    · cases hp : p a <;> simp [lookup, hp, ih, h]

theorem lookup_remove {α : Type} (m : List (Nat × α)) (n n' : Nat) :
    lookup (remove m n) n' = if n' = n then none else lookup m n' := by
  unfold remove
  have := lookup_filter m (fun x => decide (x ≠ n)) n'
  simp only [ne_eq, decide_not] at this ⊢
  rw [this]
  by_cases h : n' = n <;> simp [h]

/-- The invariant tying the registry to the specification. -/
structure Inv (K : Nat → List Nat) (st : Registry) (f : Nat → Option Nat) : Prop where
  svcNone : ∀ n, f n = none → lookup st.services n = none
  svcSome : ∀ n inst, f n = some inst → ∃ ks, lookup st.services n = some ks ∧ ∀ k, k ∈ ks ↔ k ∈ K n
  owned : ∀ n k, k ∈ K n → lookup st.handlers k = f n
  foreign : ∀ k, (∀ n, k ∉ K n) → lookup st.handlers k = none

theorem inv_step (K : Nat → List Nat) (hdisj : ∀ n n' k, k ∈ K n → k ∈ K n' → n = n')
    (st : Registry) (f : Nat → Option Nat) (h : Inv K st f) (e : Ev) :
    Inv K (step K st e) (specStep f e) := by
  cases e with
  | add n inst =>
    simp only [step, specStep, addHandlers]
    have hf : ∀ k, lookup (st.handlers.filter (fun p => !(K n).contains p.1)) k =
        if k ∈ K n then none else lookup st.handlers k := by
      intro k
      have := lookup_filter st.handlers (fun x => !(K n).contains x) k
      rw [this]
      by_cases hk : k ∈ K n <;> simp [hk]
    constructor
    · intro m hm
      by_cases hmn : m = n
      · simp [hmn] at hm
      · simp only [if_neg hmn] at hm
        have : ¬ n = m := fun e => hmn e.symm
        simp only [lookup, if_neg this, lookup_remove, if_neg hmn]
        exact h.svcNone m hm
    · intro m i hm
      by_cases hmn : m = n
      · subst hmn
        refine ⟨K m ++ (lookup st.services m).getD [], by simp [lookup], ?_⟩
        intro k
        simp only [List.mem_append]
        constructor
        · rintro (hk | hk)
          · exact hk
          · cases hfm : f m with
            | none => rw [h.svcNone m hfm] at hk; simp at hk
            | some j =>
              obtain ⟨ks, e1, e2⟩ := h.svcSome m j hfm
              rw [e1] at hk; exact (e2 k).1 hk
        · intro hk; exact Or.inl hk
      · simp only [if_neg hmn] at hm
        have : ¬ n = m := fun e => hmn e.symm
        simp only [lookup, if_neg this, lookup_remove, if_neg hmn]
        exact h.svcSome m i hm
    · intro m k hk
      rw [lookup_map_append, hf]
      by_cases hmn : m = n
      · subst hmn; simp [hk]
      · have hkn : k ∉ K n := fun hkn => hmn (hdisj m n k hk hkn)
        simp only [if_neg hkn, if_neg hmn]
        exact h.owned m k hk
    · intro k hk
      rw [lookup_map_append, hf]
      simp only [if_neg (hk n)]
      exact h.foreign k hk
  | remove n =>
    simp only [step, specStep, removeHandlers]
    cases hl : lookup st.services n with
    | none =>
      have hfn : f n = none := by
        cases hfn : f n with
        | none => rfl
        | some j => obtain ⟨ks, e1, _⟩ := h.svcSome n j hfn; rw [e1] at hl; cases hl
      have hsame : ∀ m, (if m = n then none else f m) = f m := by
        intro m; by_cases hmn : m = n <;> simp [hmn, hfn]
      simp only
      exact ⟨fun m hm => h.svcNone m (by rw [← hsame m]; exact hm),
             fun m i hm => h.svcSome m i (by rw [← hsame m]; exact hm),
             fun m k hk => by rw [hsame m]; exact h.owned m k hk, h.foreign⟩
    | some uris =>
      have hu : ∀ k, k ∈ uris ↔ k ∈ K n := by
        cases hfn : f n with
        | none => rw [h.svcNone n hfn] at hl; cases hl
        | some j =>
          obtain ⟨ks, e1, e2⟩ := h.svcSome n j hfn
          rw [e1] at hl; injection hl with hl; subst hl; exact e2
      have hf : ∀ k, lookup (st.handlers.filter (fun p => !uris.contains p.1)) k =
          if k ∈ K n then none else lookup st.handlers k := by
        intro k
        have := lookup_filter st.handlers (fun x => !uris.contains x) k
        rw [this]
        by_cases hk : k ∈ K n
        · have : k ∈ uris := (hu k).2 hk
          simp [hk, this]
        · have : k ∉ uris := fun e => hk ((hu k).1 e)
          simp [hk, this]
      simp only
      constructor
      · intro m hm
        rw [lookup_remove]
        by_cases hmn : m = n
        · simp [hmn]
        · simp only [if_neg hmn] at hm ⊢; exact h.svcNone m hm
      · intro m i hm
        by_cases hmn : m = n
        · simp [hmn] at hm
        · simp only [if_neg hmn] at hm
          rw [lookup_remove, if_neg hmn]; exact h.svcSome m i hm
      · intro m k hk
        rw [hf]
        by_cases hmn : m = n
        · subst hmn; simp [hk]
        · have hkn : k ∉ K n := fun hkn => hmn (hdisj m n k hk hkn)
          simp only [if_neg hkn, if_neg hmn]; exact h.owned m k hk
      · intro k hk
        rw [hf, if_neg (hk n)]; exact h.foreign k hk

theorem inv_run (K : Nat → List Nat) (hdisj : ∀ n n' k, k ∈ K n → k ∈ K n' → n = n')
    (evs : List Ev) : Inv K (run K evs) (registered evs) := by
  unfold run registered
  have h0 : Inv K Registry.empty (fun _ => none) :=
    ⟨fun _ _ => rfl, fun _ _ h => (by cases h), fun _ _ _ => rfl, fun _ _ => rfl⟩
  generalize Registry.empty = st at h0
  generalize (fun _ => none : Nat → Option Nat) = f at h0
  induction evs generalizing st f with
  | nil => exact h0
  | cons e es ih => exact ih _ _ (inv_step K hdisj st f h0 e)

/-- **served_iff_registered**: after any sequence of adding and removing services, a request for
message key `k` of service `n` is dispatched to a handler iff `n` was added and not removed since —
and then to the handler of the most recently added instance; a key no service owns is never
served. -/
theorem served_iff_registered (K : Nat → List Nat)
    (hdisj : ∀ n n' k, k ∈ K n → k ∈ K n' → n = n') (evs : List Ev) :
    (∀ n k, k ∈ K n → getHandler (run K evs) k = registered evs n) ∧
    (∀ k, (∀ n, k ∉ K n) → getHandler (run K evs) k = none) :=
  ⟨(inv_run K hdisj evs).owned, (inv_run K hdisj evs).foreign⟩

/-- Removing one service never disables handlers of another … -/
theorem remove_does_not_disable_others (K : Nat → List Nat)
    (hdisj : ∀ n n' k, k ∈ K n → k ∈ K n' → n = n') (evs : List Ev) (n m k : Nat)
    (hk : k ∈ K m) (hmn : m ≠ n) :
    getHandler (run K (evs ++ [Ev.remove n])) k = getHandler (run K evs) k := by
  rw [(served_iff_registered K hdisj _).1 m k hk, (served_iff_registered K hdisj _).1 m k hk]
  simp [registered, List.foldl_append, specStep, hmn]

/-- … and never leaves behind handlers of the removed one. -/
theorem remove_leaves_nothing_behind (K : Nat → List Nat)
    (hdisj : ∀ n n' k, k ∈ K n → k ∈ K n' → n = n') (evs : List Ev) (n k : Nat) (hk : k ∈ K n) :
    getHandler (run K (evs ++ [Ev.remove n])) k = none := by
  rw [(served_iff_registered K hdisj _).1 n k hk]
  simp [registered, List.foldl_append, specStep]

/-- Defect D4 of the pinned tree (inverted `retain` predicate): after `add A, add B, remove A`
service A is still served and B is not. -/
theorem legacy_counterexample :
    let K : Nat → List Nat := fun n => if n = 0 then [10, 11] else if n = 1 then [20] else []
    let st := removeHandlersLegacy (addHandlers (addHandlers Registry.empty 0 (K 0) 100) 1 (K 1) 200) 0
    getHandler st 10 = some 100 ∧ getHandler st 20 = none ∧
    getHandler (run K [Ev.add 0 100, Ev.add 1 200, Ev.remove 0]) 10 = none ∧
    getHandler (run K [Ev.add 0 100, Ev.add 1 200, Ev.remove 0]) 20 = some 200 := by
  decide

end Datacake.C13
