/-
C06, at the level of the executable cluster model: the theorem is about exactly the function the
driver executes (`Cluster.write`: local handler, `replicateAll`, `distribute`), with replicas that
fail (`failNext`), refuse connections (`down`) or stay silent (`hangNext` / `stuck`).

  write_spec, Ok        — `Ok` ⇒ the issuer and EVERY selected replica hold the document or a
                          newer record of its id;
  write_spec, error     — otherwise the error carries the number of selected replicas and a
                          smaller number of acknowledgements, and the issuer still holds the write;
  for all four request kinds: put, del, put_many, del_many (bulk requests of any shape).
-/
import Datacake.Props.C06
import Datacake.Lemmas.ClusterSets

namespace Datacake.C06
open Datacake.Lww Datacake.OrSwot Datacake.Storage Datacake.Keyspace Datacake.Cluster Datacake.C01d

/-- The keyspace of every node after a single put handled at node `i` — whatever `failNext` is. -/
theorem applyAt_put_ks (c : Cluster) (i src : Nat) (d : Doc) (h : i < c.nodes.length) (x : Nat) :
    (getNode (applyAt c i src (.put d)).1 x).ks =
      (if x = i then (onSet Cluster.F (getNode c i).ks src d (getNode c i).failNext).1 else (getNode c x).ks) ∧
    ((applyAt c i src (.put d)).2 = true ↔
      (onSet Cluster.F (getNode c i).ks src d (getNode c i).failNext).2 = .ok) := by
  unfold applyAt
  simp only []
  have hks : (getNode (touch c i) i).ks = (getNode c i).ks := touch_ks c i i
  have hfn : (getNode (touch c i) i).failNext = (getNode c i).failNext := touch_failNext c i i
  rw [hks, hfn]
  by_cases hw : willApply (getNode c i).ks.set d.1 d.2.1 = true
  · simp only [hw, Bool.not_true, Bool.false_eq_true, if_false]
    cases hf : (getNode c i).failNext with
    | false =>
      have hout : (onSet Cluster.F (getNode c i).ks src d false).2 = .ok := by simp [onSet, hw]
      simp only [hout, beq_self_eq_true, if_true]
      refine ⟨ks_written_bump c i x _ h, by simp⟩
    | true =>
      have hout : (onSet Cluster.F (getNode c i).ks src d true).2 = .err [] := by simp [onSet, hw]
      have hne : ((Out.err [] : Out) == Out.ok) = false := by decide
      simp only [hout, hne, Bool.false_eq_true, if_false]
      refine ⟨ks_written c i x _ h, by simp⟩
  · simp only [hw, Bool.not_false, if_true]
    have h1 : (onSet Cluster.F (getNode c i).ks src d (getNode c i).failNext).1 = (getNode c i).ks := by
      simp [onSet, hw]
    have h2 : (onSet Cluster.F (getNode c i).ks src d (getNode c i).failNext).2 = .ok := by
      simp [onSet, hw]
    rw [h1, h2, touch_ks]
    refine ⟨?_, by simp⟩
    split
    · rename_i hx; rw [hx]
    · rfl

theorem applyAt_del_ks (c : Cluster) (i src id ts : Nat) (h : i < c.nodes.length) (x : Nat) :
    (getNode (applyAt c i src (.del id ts)).1 x).ks =
      (if x = i then (onDel Cluster.F (getNode c i).ks src id ts (getNode c i).failNext).1 else (getNode c x).ks) ∧
    ((applyAt c i src (.del id ts)).2 = true ↔
      (onDel Cluster.F (getNode c i).ks src id ts (getNode c i).failNext).2 = .ok) := by
  unfold applyAt
  simp only []
  have hks : (getNode (touch c i) i).ks = (getNode c i).ks := touch_ks c i i
  have hfn : (getNode (touch c i) i).failNext = (getNode c i).failNext := touch_failNext c i i
  rw [hks, hfn]
  by_cases hw : willApply (getNode c i).ks.set id ts = true
  · simp only [hw, Bool.not_true, Bool.false_eq_true, if_false]
    cases hf : (getNode c i).failNext with
    | false =>
      have hout : (onDel Cluster.F (getNode c i).ks src id ts false).2 = .ok := by simp [onDel, hw]
      simp only [hout, beq_self_eq_true, if_true]
      refine ⟨ks_written_bump c i x _ h, by simp⟩
    | true =>
      have hout : (onDel Cluster.F (getNode c i).ks src id ts true).2 = .err [] := by simp [onDel, hw]
      have hne : ((Out.err [] : Out) == Out.ok) = false := by decide
      simp only [hout, hne, Bool.false_eq_true, if_false]
      refine ⟨ks_written c i x _ h, by simp⟩
  · simp only [hw, Bool.not_false, if_true]
    have h1 : (onDel Cluster.F (getNode c i).ks src id ts (getNode c i).failNext).1 = (getNode c i).ks := by
      simp [onDel, hw]
    have h2 : (onDel Cluster.F (getNode c i).ks src id ts (getNode c i).failNext).2 = .ok := by
      simp [onDel, hw]
    rw [h1, h2, touch_ks]
    refine ⟨?_, by simp⟩
    split
    · rename_i hx; rw [hx]
    · rfl

/-- A request the handler refuses (`will_apply = false`) although it is fresh for the replica: the
replica already holds a record of that id at least as new. -/
theorem refused_holds (n : Node) (h : Agree n) (id ts : Nat) (hfresh : isBefore n.set.safe ts = false)
    (hw : willApply n.set id ts = false) : ∃ r, storeView n.store id = some r ∧ ts ≤ r / 2 := by
  unfold willApply at hw
  simp only [hfresh, Bool.false_eq_true, if_false] at hw
  rw [← h.same id, view_of_gets]
  cases he : Map.get n.set.entries id with
  | some e =>
    rw [he] at hw; simp at hw
    exact ⟨_, rfl, by unfold liveRec; omega⟩
  | none =>
    rw [he] at hw
    cases hd : Map.get n.set.dead id with
    | some dd =>
      rw [hd] at hw; simp at hw
      exact ⟨_, rfl, by unfold deadRec; omega⟩
    | none => rw [hd] at hw; simp at hw

/-- A replica that acknowledges a replicated `put_many` holds every document of the batch or a newer
record of its id — whatever the batch looks like (ids repeated, any stamps). -/
theorem ack_mput_holds (F : Nat) (n : Node) (src : Nat) (docs : List Doc) (w : Option (List Nat)) (h : Agree n)
    (hfresh : ∀ d ∈ docs, isBefore n.set.safe d.2.1 = false)
    (hack : (onMultiSet F n src docs w).2 = .ok) :
    ∀ d ∈ docs, ∃ r, storeView (onMultiSet F n src docs w).1.store d.1 = some r ∧ d.2.1 ≤ r / 2 := by
  intro d hd
  unfold onMultiSet onMultiSetCore at hack ⊢
  cases w with
  | some idxs => simp at hack
  | none =>
    simp only []
    obtain ⟨e, he, hid, hle⟩ := newest_dominates (fun (v : Nat × List Nat) => v.1) docs d hd
    have hnd := newest_nodup (fun (v : Nat × List Nat) => v.1) docs
    generalize hN : newest (fun (v : Nat × List Nat) => v.1) docs = N at he hnd
    have hvnd : ((N.filter (fun d => willApply n.set d.1 d.2.1)).map (·.1)).Nodup :=
      List.Nodup.sublist (List.Sublist.map _ List.filter_sublist) hnd
    obtain ⟨f1, f2, _⟩ := C02.store_fold_put n.store (N.filter (fun d => willApply n.set d.1 d.2.1)) hvnd h.data d.1
    cases hw : willApply n.set e.1 e.2.1 with
    | true =>
      have hev : e ∈ N.filter (fun d => willApply n.set d.1 d.2.1) := List.mem_filter.2 ⟨he, by simpa using hw⟩
      refine ⟨liveRec e.2.1, f1 e hev hid, ?_⟩
      unfold liveRec; omega
    | false =>
      have hem : e ∈ docs := by rw [← hN] at he; exact newest_mem _ _ _ he
      obtain ⟨r, hr, hrl⟩ := refused_holds n h e.1 e.2.1 (hfresh e hem) hw
      refine ⟨r, ?_, by omega⟩
      rw [f2 ?_, ← hid]; exact hr
      intro d' hd' hk
      obtain ⟨hd1, hd2⟩ := List.mem_filter.1 hd'
      have : d' = e := C02.eq_of_nodup_map (·.1) N hnd d' e hd1 he (by rw [hk, hid])
      rw [this] at hd2
      simp [hw] at hd2

theorem ack_mdel_holds (F : Nat) (n : Node) (src : Nat) (docs : List (Nat × Nat)) (w : Option (List Nat)) (h : Agree n)
    (hfresh : ∀ d ∈ docs, isBefore n.set.safe d.2 = false)
    (hack : (onMultiDel F n src docs w).2 = .ok) :
    ∀ d ∈ docs, ∃ r, storeView (onMultiDel F n src docs w).1.store d.1 = some r ∧ d.2 ≤ r / 2 := by
  intro d hd
  unfold onMultiDel onMultiDelCore at hack ⊢
  cases w with
  | some idxs => simp at hack
  | none =>
    simp only []
    obtain ⟨e, he, hid, hle⟩ := newest_dominates (fun (t : Nat) => t) docs d hd
    have hnd := newest_nodup (fun (t : Nat) => t) docs
    generalize hN : newest (fun (t : Nat) => t) docs = N at he hnd
    have hvnd : ((N.filter (fun d => willApply n.set d.1 d.2)).map (·.1)).Nodup :=
      List.Nodup.sublist (List.Sublist.map _ List.filter_sublist) hnd
    obtain ⟨f1, f2, _⟩ := C02.store_fold_tomb n.store (N.filter (fun d => willApply n.set d.1 d.2)) hvnd h.data d.1
    cases hw : willApply n.set e.1 e.2 with
    | true =>
      have hev : e ∈ N.filter (fun d => willApply n.set d.1 d.2) := List.mem_filter.2 ⟨he, by simpa using hw⟩
      refine ⟨deadRec e.2, f1 e hev hid, ?_⟩
      unfold deadRec; omega
    | false =>
      have hem : e ∈ docs := by rw [← hN] at he; exact newest_mem _ _ _ he
      obtain ⟨r, hr, hrl⟩ := refused_holds n h e.1 e.2 (hfresh e hem) hw
      refine ⟨r, ?_, by omega⟩
      rw [f2 ?_, ← hid]; exact hr
      intro d' hd' hk
      obtain ⟨hd1, hd2⟩ := List.mem_filter.1 hd'
      have : d' = e := C02.eq_of_nodup_map (·.1) N hnd d' e hd1 he (by rw [hk, hid])
      rw [this] at hd2
      simp [hw] at hd2

/-- The keyspace of every node after a bulk request handled at node `i` — whatever `failNext` is. -/
theorem applyAt_mput_ks (c : Cluster) (i src : Nat) (ds : List Doc) (h : i < c.nodes.length) (x : Nat) :
    (getNode (applyAt c i src (.mput ds)).1 x).ks =
      (if x = i then (onMultiSet Cluster.F (getNode c i).ks src ds (if (getNode c i).failNext then some [] else none)).1
       else (getNode c x).ks) ∧
    ((applyAt c i src (.mput ds)).2 = true ↔
      (onMultiSet Cluster.F (getNode c i).ks src ds (if (getNode c i).failNext then some [] else none)).2 = .ok) := by
  unfold applyAt
  simp only []
  have hks : (getNode (touch c i) i).ks = (getNode c i).ks := touch_ks c i i
  have hfn : (getNode (touch c i) i).failNext = (getNode c i).failNext := touch_failNext c i i
  rw [hks, hfn]
  exact ⟨ks_written_bump c i x _ h, by simp⟩

theorem applyAt_mdel_ks (c : Cluster) (i src : Nat) (ds : List (Nat × Nat)) (h : i < c.nodes.length) (x : Nat) :
    (getNode (applyAt c i src (.mdel ds)).1 x).ks =
      (if x = i then (onMultiDel Cluster.F (getNode c i).ks src ds (if (getNode c i).failNext then some [] else none)).1
       else (getNode c x).ks) ∧
    ((applyAt c i src (.mdel ds)).2 = true ↔
      (onMultiDel Cluster.F (getNode c i).ks src ds (if (getNode c i).failNext then some [] else none)).2 = .ok) := by
  unfold applyAt
  simp only []
  have hks : (getNode (touch c i) i).ks = (getNode c i).ks := touch_ks c i i
  have hfn : (getNode (touch c i) i).failNext = (getNode c i).failNext := touch_failNext c i i
  rw [hks, hfn]
  exact ⟨ks_written_bump c i x _ h, by simp⟩

/-- "Node `x` of the cluster holds the mutation `(id, ts)` or a newer record of that id". -/
def HoldsOne (c : Cluster) (x id ts : Nat) : Prop :=
  ∃ r, storeView (getNode c x).ks.store id = some r ∧ ts ≤ r / 2

/-- The `(id, stamp)` pairs a request carries. -/
def pairs : Issued → List (Nat × Nat)
  | .put d => [(d.1, d.2.1)]
  | .del id ts => [(id, ts)]
  | .mput ds => ds.map (fun d => (d.1, d.2.1))
  | .mdel ds => ds

/-- Node `x` holds every mutation of the request, or newer records. -/
def HoldsAt (c : Cluster) (x : Nat) (iss : Issued) : Prop := ∀ p ∈ pairs iss, HoldsOne c x p.1 p.2

/-- The request is fresh for a set: none of its stamps is before the cut-off of its origin. -/
def Fresh (s : OrSwot) (iss : Issued) : Prop := ∀ p ∈ pairs iss, isBefore s.safe p.2 = false

/-- A request handled at node `t`: the other nodes are untouched; if the handler returned `Ok`
node `t` holds every mutation of the request or something newer. -/
theorem applyAt_holds (c : Cluster) (t src : Nat) (iss : Issued) (h : t < c.nodes.length)
    (hag : Agree (getNode c t).ks) (hfresh : Fresh (getNode c t).ks.set iss) :
    (∀ x, x ≠ t → (getNode (applyAt c t src iss).1 x).ks = (getNode c x).ks) ∧
    ((applyAt c t src iss).2 = true → HoldsAt (applyAt c t src iss).1 t iss) := by
  cases iss with
  | put d =>
    obtain ⟨hk, hok⟩ := (fun x => applyAt_put_ks c t src d h x) t
    refine ⟨fun x hx => by rw [(applyAt_put_ks c t src d h x).1]; simp [hx], ?_⟩
    intro hack p hp
    simp only [pairs, List.mem_singleton] at hp
    subst hp
    unfold HoldsOne
    rw [hk]; simp only [if_true]
    exact ack_put_holds Cluster.F _ src d _ hag (hfresh (d.1, d.2.1) (by simp [pairs])) (hok.1 hack)
  | del id ts =>
    obtain ⟨hk, hok⟩ := (fun x => applyAt_del_ks c t src id ts h x) t
    refine ⟨fun x hx => by rw [(applyAt_del_ks c t src id ts h x).1]; simp [hx], ?_⟩
    intro hack p hp
    simp only [pairs, List.mem_singleton] at hp
    subst hp
    unfold HoldsOne
    rw [hk]; simp only [if_true]
    exact ack_del_holds Cluster.F _ src id ts _ hag (hfresh (id, ts) (by simp [pairs])) (hok.1 hack)
  | mput ds =>
    obtain ⟨hk, hok⟩ := (fun x => applyAt_mput_ks c t src ds h x) t
    refine ⟨fun x hx => by rw [(applyAt_mput_ks c t src ds h x).1]; simp [hx], ?_⟩
    intro hack p hp
    simp only [pairs, List.mem_map] at hp
    obtain ⟨d, hd, rfl⟩ := hp
    unfold HoldsOne
    rw [hk]; simp only [if_true]
    exact ack_mput_holds Cluster.F _ src ds _ hag
      (fun d' hd' => hfresh (d'.1, d'.2.1) (by simp only [pairs, List.mem_map]; exact ⟨d', hd', rfl⟩)) (hok.1 hack) d hd
  | mdel ds =>
    obtain ⟨hk, hok⟩ := (fun x => applyAt_mdel_ks c t src ds h x) t
    refine ⟨fun x hx => by rw [(applyAt_mdel_ks c t src ds h x).1]; simp [hx], ?_⟩
    intro hack p hp
    simp only [pairs] at hp
    unfold HoldsOne
    rw [hk]; simp only [if_true]
    exact ack_mdel_holds Cluster.F _ src ds _ hag (fun d' hd' => hfresh d' (by simpa [pairs] using hd')) (hok.1 hack) p hp

/-! ### One request of the distribution, and all of them -/

theorem hangAt_other (c : Cluster) (t : Nat) (iss : Issued) (x : Nat) (hx : x ≠ t) :
    getNode (hangAt c t iss) x = getNode c x := by
  unfold hangAt
  simp only []
  rw [getNode_setNode_other _ _ _ _ hx, getNode_applyAt_other c t 0 iss x hx]

theorem hangAt_length (c : Cluster) (t : Nat) (iss : Issued) : (hangAt c t iss).nodes.length = c.nodes.length := by
  unfold hangAt
  simp only []
  rw [length_setNode', applyAt_length]

theorem replicate_other (c : Cluster) (down hangNext stuck : List Nat) (t : Nat) (iss : Issued) (x : Nat) (hx : x ≠ t) :
    getNode (replicate c down hangNext stuck t iss).1 x = getNode c x := by
  unfold replicate
  split
  · rfl
  · split
    · rfl
    · split
      · exact hangAt_other c t iss x hx
      · exact getNode_applyAt_other c t 0 iss x hx

theorem replicate_length (c : Cluster) (down hangNext stuck : List Nat) (t : Nat) (iss : Issued) :
    (replicate c down hangNext stuck t iss).1.nodes.length = c.nodes.length := by
  unfold replicate
  split
  · rfl
  · split
    · rfl
    · split
      · exact hangAt_length c t iss
      · exact applyAt_length c t 0 iss

/-- An acknowledgement comes only from a handler that returned `Ok`: the replica then holds the
mutation or a newer record.  (A replica that is down, stuck or hangs never acknowledges.) -/
theorem replicate_ack (c : Cluster) (down hangNext stuck : List Nat) (t : Nat) (iss : Issued)
    (h : t < c.nodes.length) (hag : Agree (getNode c t).ks)
    (hfresh : Fresh (getNode c t).ks.set iss)
    (hack : (replicate c down hangNext stuck t iss).2.2 = .ack) :
    HoldsAt (replicate c down hangNext stuck t iss).1 t iss := by
  unfold replicate at hack ⊢
  split at hack
  · cases hack
  · split at hack
    · cases hack
    · split at hack
      · cases hack
      · rename_i h1 h2 h3
        simp only [h1, h2, h3, Bool.false_eq_true, if_false] at hack ⊢
        have hok : (applyAt c t 0 iss).2 = true := by
          cases hb : (applyAt c t 0 iss).2 with
          | true => rfl
          | false => rw [hb] at hack; simp at hack
        exact (applyAt_holds c t 0 iss h hag hfresh).2 hok

theorem replicateAll_cons (c : Cluster) (down hangNext stuck : List Nat) (t : Nat) (ts : List Nat) (iss : Issued) :
    replicateAll c down hangNext stuck (t :: ts) iss =
      (let r1 := replicate c down hangNext stuck t iss
       let r2 := replicateAll r1.1 down hangNext r1.2.1 ts iss
       (r2.1, r2.2.1, r1.2.2 :: r2.2.2)) := rfl

theorem replicateAll_nil (c : Cluster) (down hangNext stuck : List Nat) (iss : Issued) :
    replicateAll c down hangNext stuck [] iss = (c, stuck, []) := rfl

/-- **replicateAll_spec**: the requests to distinct selected replicas are independent — nodes that
are not selected are untouched, there is one reply per replica, and every replica whose reply is
an acknowledgement holds the mutation or a newer record afterwards. -/
theorem replicateAll_spec (down hangNext : List Nat) (iss : Issued) :
    ∀ (targets : List Nat) (c : Cluster) (stuck : List Nat), targets.Nodup →
    (∀ t ∈ targets, t < c.nodes.length) →
    (∀ t ∈ targets, Agree (getNode c t).ks) →
    (∀ t ∈ targets, Fresh (getNode c t).ks.set iss) →
    (replicateAll c down hangNext stuck targets iss).2.2.length = targets.length ∧
    (∀ x, x ∉ targets → getNode (replicateAll c down hangNext stuck targets iss).1 x = getNode c x) ∧
    (replicateAll c down hangNext stuck targets iss).1.nodes.length = c.nodes.length ∧
    (∀ p ∈ targets.zip (replicateAll c down hangNext stuck targets iss).2.2, p.2 = .ack →
      HoldsAt (replicateAll c down hangNext stuck targets iss).1 p.1 iss) := by
  intro targets
  induction targets with
  | nil =>
    intro c stuck _ _ _ _
    rw [replicateAll_nil]
    exact ⟨rfl, fun _ _ => rfl, rfl, fun p hp => by simp at hp⟩
  | cons t ts ih =>
    intro c stuck hnd hlen hag hfresh
    rw [replicateAll_cons]
    simp only []
    rw [List.nodup_cons] at hnd
    have hks : ∀ x, x ≠ t → getNode (replicate c down hangNext stuck t iss).1 x = getNode c x :=
      fun x hx => replicate_other c down hangNext stuck t iss x hx
    have hl1 := replicate_length c down hangNext stuck t iss
    have hne : ∀ t' ∈ ts, t' ≠ t := fun t' ht' e => hnd.1 (e ▸ ht')
    obtain ⟨i1, i2, i3, i4⟩ := ih (replicate c down hangNext stuck t iss).1 (replicate c down hangNext stuck t iss).2.1 hnd.2
      (fun t' ht' => by rw [hl1]; exact hlen t' (List.mem_cons_of_mem _ ht'))
      (fun t' ht' => by rw [hks t' (hne t' ht')]; exact hag t' (List.mem_cons_of_mem _ ht'))
      (fun t' ht' => by rw [hks t' (hne t' ht')]; exact hfresh t' (List.mem_cons_of_mem _ ht'))
    refine ⟨by simp [i1], ?_, by rw [i3, hl1], ?_⟩
    · intro x hx
      have hxt : x ≠ t := fun e => hx (e ▸ List.mem_cons_self)
      have hxts : x ∉ ts := fun h => hx (List.mem_cons_of_mem _ h)
      rw [i2 x hxts, hks x hxt]
    · intro p hp hack
      rw [List.zip_cons_cons, List.mem_cons] at hp
      rcases hp with rfl | hp
      · simp only at hack ⊢
        have h0 := replicate_ack c down hangNext stuck t iss (hlen t List.mem_cons_self)
          (hag t List.mem_cons_self) (hfresh t List.mem_cons_self) hack
        intro q hq
        have := h0 q hq
        unfold HoldsOne at this ⊢
        rw [i2 t hnd.1]; exact this
      · exact i4 p hp hack

/-! ### The write -/

theorem zip_filter_length {α β : Type} (p : β → Bool) : ∀ (l1 : List α) (l2 : List β), l1.length = l2.length →
    ((l1.zip l2).filter (fun q => p q.2)).length = (l2.filter p).length
  | [], [], _ => rfl
  | [], _ :: _, h => by cases h
  | _ :: _, [], h => by cases h
  | a :: as, b :: bs, h => by
    simp only [List.length_cons, Nat.add_right_cancel_iff] at h
    have ih := zip_filter_length p as bs h
    simp only [List.zip_cons_cons, List.filter_cons]
    split <;> simp [ih]

/-- The premises of the property for a write of `iss` issued at `i` with the replicas `targets`
selected (C15 gives: distinct, live, not the issuer): the nodes exist, their set and store agree
(C02), the write is fresh for them (C09: not older than their cut-off for its origin). -/
structure WriteOk (c : Cluster) (i : Nat) (targets : List Nat) (iss : Issued) : Prop where
  nodup : targets.Nodup
  notSelf : i ∉ targets
  issuer : i < c.nodes.length
  inRange : ∀ t ∈ targets, t < c.nodes.length
  agree : ∀ x, Agree (getNode c x).ks
  fresh : ∀ x, Fresh (getNode c x).ks.set iss

theorem getNode_ops (c : Cluster) (ops : List (Nat × Issued)) (x : Nat) : getNode { c with ops := ops } x = getNode c x := rfl

/-- **write_spec**: what `Cluster.write` — the function the driver executes for `wput`/`wdel` —
guarantees, for every request kind (put, del, put_many, del_many) and replicas that fail, refuse
connections or stay silent in any combination.
* `Ok`: the issuer and EVERY selected replica hold the mutation or a newer record of its id;
* consistency error `(a, q)`: `q` is the number of selected replicas, `a < q`, at least `a` of the
  selected replicas hold it (those that acknowledged), and the local write is in place;
* local failure: no replica was contacted. -/
theorem write_spec (c : Cluster) (down hangNext stuck : List Nat) (i : Nat) (targets : List Nat) (iss : Issued)
    (hw : WriteOk c i targets iss) :
    match (write c down hangNext stuck i targets iss).2.2 with
    | .done (.ok _) =>
        HoldsAt (write c down hangNext stuck i targets iss).1 i iss ∧
        ∀ t ∈ targets, HoldsAt (write c down hangNext stuck i targets iss).1 t iss
    | .done (.error (a, q)) =>
        q = targets.length ∧ a < q ∧
        HoldsAt (write c down hangNext stuck i targets iss).1 i iss ∧
        ∃ acked : List Nat, acked.length = a ∧ (∀ t ∈ acked, t ∈ targets) ∧ acked.Nodup ∧
          ∀ t ∈ acked, HoldsAt (write c down hangNext stuck i targets iss).1 t iss
    | .localFailed =>
        ∀ x, x ≠ i → getNode (write c down hangNext stuck i targets iss).1 x = getNode c x := by
  obtain ⟨hnd, hni, hi, hr, hag, hfr⟩ := hw
  unfold write
  simp only []
  cases hloc : (applyAt c i 0 iss).2 with
  | false =>
    simp only [Bool.not_false, if_true]
    intro x hx
    rw [getNode_ops]; exact getNode_applyAt_other c i 0 iss x hx
  | true =>
    simp only [Bool.not_true, Bool.false_eq_true, if_false]
    obtain ⟨hoth, hhold⟩ := applyAt_holds c i 0 iss hi (hag i) (hfr i)
    have hhold := hhold hloc
    generalize hc1 : ({ (applyAt c i 0 iss).1 with ops := (applyAt c i 0 iss).1.ops ++ [(i, iss)] } : Cluster) = c1
    have hg1 : ∀ x, getNode c1 x = getNode (applyAt c i 0 iss).1 x := by intro x; rw [← hc1]; rfl
    have hl1 : c1.nodes.length = c.nodes.length := by rw [← hc1]; exact applyAt_length c i 0 iss
    have hne : ∀ t ∈ targets, t ≠ i := fun t ht e => hni (e ▸ ht)
    obtain ⟨s1, s2, s3, s4⟩ := replicateAll_spec down hangNext iss targets c1 stuck hnd
      (fun t ht => by rw [hl1]; exact hr t ht)
      (fun t ht => by rw [hg1, hoth t (hne t ht)]; exact hag t)
      (fun t ht => by rw [hg1, hoth t (hne t ht)]; exact hfr t)
    have hissuer : HoldsAt (replicateAll c1 down hangNext stuck targets iss).1 i iss := by
      intro q hq
      have := hhold q hq
      unfold HoldsOne at this ⊢
      rw [s2 i hni, hg1]; exact this
    cases hd : distribute (replicateAll c1 down hangNext stuck targets iss).2.2 with
    | ok u =>
      simp only []
      refine ⟨hissuer, ?_⟩
      intro t ht
      have hall := (distribute_replies _).1.1 hd
      obtain ⟨k, hk, rfl⟩ := List.getElem_of_mem ht
      have hk2 : k < (replicateAll c1 down hangNext stuck targets iss).2.2.length := by rw [s1]; exact hk
      have hmem : (targets[k], (replicateAll c1 down hangNext stuck targets iss).2.2[k]) ∈
          targets.zip (replicateAll c1 down hangNext stuck targets iss).2.2 := by
        rw [List.mem_iff_getElem]
        exact ⟨k, by rw [List.length_zip]; omega, by simp⟩
      exact s4 _ hmem (hall _ (List.getElem_mem hk2))
    | error e =>
      obtain ⟨a, q⟩ := e
      simp only []
      obtain ⟨ha, hq, hlt⟩ := (distribute_replies _).2 a q hd
      refine ⟨by rw [hq, s1], hlt, hissuer, ?_⟩
      refine ⟨((targets.zip (replicateAll c1 down hangNext stuck targets iss).2.2).filter (fun p => p.2 == .ack)).map (·.1), ?_, ?_, ?_, ?_⟩
      · rw [List.length_map, ha]
        exact zip_filter_length (fun r => r == Reply.ack) targets _ s1.symm
      · intro t ht
        obtain ⟨p, hp, rfl⟩ := List.mem_map.1 ht
        exact (List.of_mem_zip (List.mem_filter.1 hp).1).1
      · have hsub : (((targets.zip (replicateAll c1 down hangNext stuck targets iss).2.2).filter (fun p => p.2 == .ack)).map (·.1)).Sublist
            ((targets.zip (replicateAll c1 down hangNext stuck targets iss).2.2).map (·.1)) :=
          List.Sublist.map _ List.filter_sublist
        refine List.Nodup.sublist hsub ?_
        rw [List.map_fst_zip (by rw [s1]; exact Nat.le_refl _)]
        exact hnd
      · intro t ht
        obtain ⟨p, hp, rfl⟩ := List.mem_map.1 ht
        obtain ⟨hp1, hp2⟩ := List.mem_filter.1 hp
        exact s4 p hp1 (by simpa using hp2)

/-- Non-vacuity and a concrete run: three nodes, the issuer writes at level All; replica 1 is
silent, replica 2 acknowledges: the error says 1 of 2, and replica 2 and the issuer hold the write. -/
example :
    let c : Cluster := { nodes := [{}, {}, {}] }
    let d : Doc := (5, Ts.pack 5000000 0 1, [187])
    let r := write c [] [1] [] 0 [1, 2] (.put d)
    (match r.2.2 with | .done (.error (1, 2)) => true | _ => false) = true ∧ r.2.1 = [1] ∧
    storeView (getNode r.1 0).ks.store 5 = some (liveRec d.2.1) ∧
    storeView (getNode r.1 2).ks.store 5 = some (liveRec d.2.1) ∧
    view (getNode r.1 1).ks.set 5 = none := by
  decide

end Datacake.C06
