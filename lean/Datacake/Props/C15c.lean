/-
C15, the wiring membership → selector (`watch_membership_changes`): the data-centre map the
watcher installs is well-formed for EVERY membership snapshot — data-centre names distinct, every
address listed once (fix D21: one entry per address, even when two member ids share it) — so the
hypothesis `WF` of `select_sound` and its companions is met by construction, not assumed.
-/
import Datacake.Props.C15

namespace Datacake.Selector
open Datacake.C15

/-! ### `insertNat`: a sorted set of data-centre names -/

theorem mem_insertNat (x y : Nat) : ∀ l : List Nat, y ∈ insertNat x l ↔ y = x ∨ y ∈ l
  | [] => by simp [insertNat]
  | z :: zs => by
    simp only [insertNat]
    split
    · simp
    · split
      · rename_i h1 h2; subst h2; simp
      · simp only [List.mem_cons, mem_insertNat x y zs]
        constructor
        · rintro (h | h | h) <;> simp [h]
        · rintro (h | h | h) <;> simp [h]

theorem insertNat_sorted (x : Nat) : ∀ l : List Nat, l.Pairwise (· < ·) → (insertNat x l).Pairwise (· < ·)
  | [], _ => by simp [insertNat]
  | z :: zs, h => by
    rw [List.pairwise_cons] at h
    simp only [insertNat]
    split
    · rename_i hlt
      refine List.Pairwise.cons ?_ (List.Pairwise.cons h.1 h.2)
      intro y hy
      rcases List.mem_cons.1 hy with rfl | hy
      · exact hlt
      · exact Nat.lt_trans hlt (h.1 y hy)
    · split
      · exact List.Pairwise.cons h.1 h.2
      · rename_i h1 h2
        refine List.Pairwise.cons ?_ (insertNat_sorted x zs h.2)
        intro y hy
        rcases (mem_insertNat x y zs).1 hy with rfl | hy
        · omega
        · exact h.1 y hy

theorem dcs_sorted (l : List Nat) : (l.foldr insertNat []).Pairwise (· < ·) := by
  induction l with
  | nil => exact List.Pairwise.nil
  | cons x xs ih => exact insertNat_sorted x _ ih

/-! ### `setNodes` over a layout with ascending names keeps it as it is -/

theorem insertDc_last (d : Nat) (c : Cycler) : ∀ dcs : Dcs, (∀ p ∈ dcs, p.1 < d) → insertDc dcs d c = dcs ++ [(d, c)]
  | [], _ => rfl
  | (d', c') :: rest, h => by
    have h1 := h (d', c') List.mem_cons_self
    simp only [insertDc]
    rw [if_neg (by simp only at h1; omega), if_neg (by simp only at h1; omega)]
    rw [insertDc_last d c rest (fun p hp => h p (List.mem_cons_of_mem _ hp))]
    rfl

theorem foldl_insertDc_sorted : ∀ (layout : List (Nat × List Nat)) (acc : Dcs),
    (layout.map (·.1)).Pairwise (· < ·) → (∀ a ∈ acc, ∀ p ∈ layout, a.1 < p.1) →
    layout.foldl (fun m p => insertDc m p.1 ⟨0, p.2⟩) acc = acc ++ layout.map (fun p => (p.1, ⟨0, p.2⟩))
  | [], acc, _, _ => by simp
  | p :: ps, acc, hs, hacc => by
    rw [List.map_cons, List.pairwise_cons] at hs
    simp only [List.foldl_cons]
    rw [insertDc_last p.1 ⟨0, p.2⟩ acc (fun a ha => hacc a ha p List.mem_cons_self)]
    rw [foldl_insertDc_sorted ps _ hs.2]
    · simp
    · intro a ha q hq
      rcases List.mem_append.1 ha with ha | ha
      · exact hacc a ha q (List.mem_cons_of_mem _ hq)
      · simp only [List.mem_singleton] at ha
        subst ha
        exact hs.1 q.1 (List.mem_map.2 ⟨q, hq, rfl⟩)

/-! ### One entry per address -/

theorem keepFirstAddr_spec : ∀ (ms : List MemberDc) (seen : List Nat),
    ((keepFirstAddr ms seen).map (·.2.1)).Nodup ∧ (∀ m ∈ keepFirstAddr ms seen, m.2.1 ∉ seen) ∧
    (∀ m ∈ keepFirstAddr ms seen, m ∈ ms)
  | [], _ => by simp [keepFirstAddr]
  | m :: ms, seen => by
    simp only [keepFirstAddr]
    split
    · obtain ⟨h1, h2, h3⟩ := keepFirstAddr_spec ms seen
      exact ⟨h1, h2, fun x hx => List.mem_cons_of_mem _ (h3 x hx)⟩
    · rename_i hc
      obtain ⟨h1, h2, h3⟩ := keepFirstAddr_spec ms (m.2.1 :: seen)
      refine ⟨?_, ?_, ?_⟩
      · rw [List.map_cons, List.nodup_cons]
        refine ⟨?_, h1⟩
        intro hm
        obtain ⟨x, hx, hxe⟩ := List.mem_map.1 hm
        exact h2 x hx (by rw [hxe]; exact List.mem_cons_self)
      · intro x hx
        rcases List.mem_cons.1 hx with rfl | hx
        · intro hin; exact hc (List.contains_iff_mem.2 hin)
        · intro hin; exact h2 x hx (List.mem_cons_of_mem _ hin)
      · intro x hx
        rcases List.mem_cons.1 hx with rfl | hx
        · exact List.mem_cons_self
        · exact List.mem_cons_of_mem _ (h3 x hx)

theorem eq_of_nodup_addr (l : List MemberDc) (h : (l.map (·.2.1)).Nodup) (a b : MemberDc)
    (ha : a ∈ l) (hb : b ∈ l) (e : a.2.1 = b.2.1) : a = b := by
  induction l with
  | nil => cases ha
  | cons x xs ih =>
    simp only [List.map_cons, List.nodup_cons] at h
    rcases List.mem_cons.1 ha with ea | ha' <;> rcases List.mem_cons.1 hb with eb | hb'
    · rw [ea, eb]
    · exact absurd (List.mem_map.2 ⟨b, hb', by rw [← e, ea]⟩) h.1
    · exact absurd (List.mem_map.2 ⟨a, ha', by rw [e, eb]⟩) h.1
    · exact ih h.2 ha' hb'

/-- The address lists of distinct data centres, taken out of a member list without repeated
addresses, share nothing and repeat nothing. -/
theorem flatten_by_dc_nodup (kept : List MemberDc) (hk : (kept.map (·.2.1)).Nodup) :
    ∀ dcs : List Nat, dcs.Nodup →
    ((dcs.map (fun d => (kept.filter (fun m => m.2.2 == d)).map (·.2.1))).flatten).Nodup
  | [], _ => by simp
  | d :: ds, hd => by
    rw [List.nodup_cons] at hd
    simp only [List.map_cons, List.flatten_cons]
    rw [List.nodup_append]
    refine ⟨List.Nodup.sublist (List.Sublist.map _ List.filter_sublist) hk, flatten_by_dc_nodup kept hk ds hd.2, ?_⟩
    intro a ha b hb hab
    obtain ⟨m, hm, rfl⟩ := List.mem_map.1 ha
    obtain ⟨l, hl, hbl⟩ := List.mem_flatten.1 hb
    obtain ⟨d', hd', rfl⟩ := List.mem_map.1 hl
    obtain ⟨m', hm', rfl⟩ := List.mem_map.1 hbl
    obtain ⟨hm1, hm2⟩ := List.mem_filter.1 hm
    obtain ⟨hm1', hm2'⟩ := List.mem_filter.1 hm'
    have : m = m' := eq_of_nodup_addr kept hk m m' hm1 hm1' hab
    subst this
    simp only [beq_iff_eq] at hm2 hm2'
    exact hd.1 (by rw [← hm2, hm2']; exact hd')

/-- **dcLayout_wf**: for EVERY membership snapshot — any member ids, addresses and data centres,
two ids at one address included — the map the watcher installs in the selector is well-formed:
distinct data-centre names, every address once. -/
theorem dcLayout_wf (a : Actor) (ms : List MemberDc) : WF (setNodes a (dcLayout ms)).dcs := by
  have hsorted := dcs_sorted ((keepFirstAddr (sortById ms) []).map (·.2.2))
  have hk := (keepFirstAddr_spec (sortById ms) []).1
  generalize hkept : keepFirstAddr (sortById ms) [] = kept at hsorted hk
  generalize hdcs : (kept.map (·.2.2)).foldr insertNat [] = dcs at hsorted
  have hlay : dcLayout ms = dcs.map (fun d => (d, (kept.filter (fun m => m.2.2 == d)).map (·.2.1))) := by
    unfold dcLayout; simp only [hkept, hdcs]
  have hids : ((dcLayout ms).map (·.1)) = dcs := by
    rw [hlay, List.map_map]
    have : ((fun p : Nat × List Nat => p.1) ∘ fun d => (d, (kept.filter (fun m => m.2.2 == d)).map (·.2.1))) = id := rfl
    rw [this, List.map_id]
  have hfold : (setNodes a (dcLayout ms)).dcs = (dcLayout ms).map (fun p => (p.1, ⟨0, p.2⟩)) := by
    unfold setNodes
    simp only
    rw [foldl_insertDc_sorted (dcLayout ms) [] (by rw [hids]; exact hsorted) (by intro a ha; cases ha)]
    simp
  have hnd : dcs.Nodup := hsorted.imp (fun h => Nat.ne_of_lt h)
  constructor
  · rw [hfold, List.map_map]
    have : ((fun p : Nat × Cycler => p.1) ∘ fun p : Nat × List Nat => (p.1, (⟨0, p.2⟩ : Cycler))) = (·.1) := rfl
    rw [this, hids]; exact hnd
  · unfold allNodes
    rw [hfold, List.map_map, hlay, List.map_map]
    exact flatten_by_dc_nodup kept hk dcs hnd

/-- **wired_selection_sound**: whatever the membership snapshot, a successful selection from the map
the watcher installed has no duplicates, excludes the local node, lies in that map and has the size
the level requires (`select_sound` with `WF` discharged). `hl`: the local data centre is in the map
(the snapshot contains the local member, first at its address). -/
theorem wired_selection_sound (a : Actor) (ms : List MemberDc) (lvl : Level) (choice : List Nat)
    (hl : ∃ c, getDc (setNodes a (dcLayout ms)).dcs a.localDc = some c)
    (hchoice : ∀ n, (lvl = .one → n = 1) → (lvl = .two → n = 2) → (lvl = .three → n = 3) →
      (lvl = .one ∨ lvl = .two ∨ lvl = .three) → GoodChoice (setNodes a (dcLayout ms)).dcs n choice) :
    let b := setNodes a (dcLayout ms)
    ∀ ns, (selectNodes b.local_ b.localDc b.total b.dcs lvl choice).1 = .ok ns →
      ns.Nodup ∧ b.local_ ∉ ns ∧ (∀ x ∈ ns, x ∈ allNodes b.dcs) ∧
      ns.length ≥ required lvl b.local_ b.localDc b.total b.dcs := by
  intro b ns hns
  have hsnd := select_sound b.local_ b.localDc b.total b.dcs lvl choice (dcLayout_wf a ms) hl hchoice
  obtain ⟨h1, h2, h3, h4, _⟩ := hsnd.2.2 ns hns
  exact ⟨h1, h2, h3, h4⟩

/-- Defect D21 (pinned wiring): two member ids at one address put it into the map twice; the map
is not well-formed and `All` returns the address twice.  The current wiring lists it once. -/
theorem legacy_wiring_duplicates :
    let ms : List MemberDc := [(0, 100, 1), (1, 101, 1), (2, 102, 1), (3, 102, 1)]
    dcLayoutLegacy ms = [(1, [100, 101, 102, 102])] ∧ dcLayout ms = [(1, [100, 101, 102])] ∧
    (selectNodes 100 1 4 (setNodes { local_ := 100, localDc := 1 } (dcLayoutLegacy ms)).dcs .all []).1 = .ok [101, 102, 102] ∧
    (selectNodes 100 1 3 (setNodes { local_ := 100, localDc := 1 } (dcLayout ms)).dcs .all []).1 = .ok [101, 102] := by
  decide

end Datacake.Selector
