/-
C15, the wiring membership → selector (`watch_membership_changes`): the data-centre map the
watcher installs is well-formed for EVERY membership snapshot — data-centre names distinct, every
address listed once (fix D21: one entry per address, even when two member ids share it) — so the
hypothesis `WF` of `select_sound` and its companions is met by construction, not assumed.
-/
import Datacake.Props.C15

namespace Datacake.Selector
open Datacake.C15

/-! ### `insertNat`: a sorted set of data-centre names -/

theorem mem_insertNat (x y : Nat) : ∀ l : List Nat, y ∈ insertNat x l ↔ y = x ∨ y ∈ l
  | [] => by simp [insertNat]
  | z :: zs => by
    simp only [insertNat]
    split
    · simp
    · split
      · rename_i h1 h2; subst h2; simp
      · simp only [List.mem_cons, mem_insertNat x y zs]
        constructor
        · rintro (h | h | h) <;> simp [h]
        · rintro (h | h | h) <;> simp [h]

theorem insertNat_sorted (x : Nat) : ∀ l : List Nat, l.Pairwise (· < ·) → (insertNat x l).Pairwise (· < ·)
  | [], _ => by simp [insertNat]
  | z :: zs, h => by
    rw [List.pairwise_cons] at h
    simp only [insertNat]
    split
    · rename_i hlt
      refine List.Pairwise.cons ?_ (List.Pairwise.cons h.1 h.2)
      intro y hy
      rcases List.mem_cons.1 hy with rfl | hy
      · exact hlt
      · exact Nat.lt_trans hlt (h.1 y hy)
    · split
      · exact List.Pairwise.cons h.1 h.2
      · rename_i h1 h2
        refine List.Pairwise.cons ?_ (insertNat_sorted x zs h.2)
        intro y hy
        rcases (mem_insertNat x y zs).1 hy with rfl | hy
        · omega
        · exact h.1 y hy

theorem dcs_sorted (l : List Nat) : (l.foldr insertNat []).Pairwise (· < ·) := by
  induction l with
  | nil => exact List.Pairwise.nil
  | cons x xs ih => exact insertNat_sorted x _ ih

/-! ### `setNodes` over a layout with ascending names keeps it as it is -/

theorem insertDc_last (d : Nat) (c : Cycler) : ∀ dcs : Dcs, (∀ p ∈ dcs, p.1 < d) → insertDc dcs d c = dcs ++ [(d, c)]
  | [], _ => rfl
  | (d', c') :: rest, h => by
    have h1 := h (d', c') List.mem_cons_self
    simp only [insertDc]
    rw [if_neg (by simp only at h1; omega), if_neg (by simp only at h1; omega)]
    rw [insertDc_last d c rest (fun p hp => h p (List.mem_cons_of_mem _ hp))]
    rfl

theorem foldl_insertDc_sorted : ∀ (layout : List (Nat × List Nat)) (acc : Dcs),
    (layout.map (·.1)).Pairwise (· < ·) → (∀ a ∈ acc, ∀ p ∈ layout, a.1 < p.1) →
    layout.foldl (fun m p => insertDc m p.1 ⟨0, p.2⟩) acc = acc ++ layout.map (fun p => (p.1, ⟨0, p.2⟩))
  | [], acc, _, _ => by simp
  | p :: ps, acc, hs, hacc => by
    rw [List.map_cons, List.pairwise_cons] at hs
    simp only [List.foldl_cons]
    rw [insertDc_last p.1 ⟨0, p.2⟩ acc (fun a ha => hacc a ha p List.mem_cons_self)]
    rw [foldl_insertDc_sorted ps _ hs.2]
    · simp
    · intro a ha q hq
      rcases List.mem_append.1 ha with ha | ha
      · exact hacc a ha q (List.mem_cons_of_mem _ hq)
      · simp only [List.mem_singleton] at ha
        subst ha
        exact hs.1 q.1 (List.mem_map.2 ⟨q, hq, rfl⟩)

/-! ### Members in id order -/

theorem mem_insertById (m x : MemberDc) : ∀ l : List MemberDc, x ∈ insertById m l → x = m ∨ x ∈ l
  | [], h => by simp [insertById] at h; exact Or.inl h
  | y :: ys, h => by
    simp only [insertById] at h
    split at h
    · rcases List.mem_cons.1 h with h | h
      · exact Or.inl h
      · exact Or.inr h
    · split at h
      · rcases List.mem_cons.1 h with h | h
        · exact Or.inl h
        · exact Or.inr (List.mem_cons_of_mem _ h)
      · rcases List.mem_cons.1 h with h | h
        · exact Or.inr (h ▸ List.mem_cons_self)
        · rcases mem_insertById m x ys h with h | h
          · exact Or.inl h
          · exact Or.inr (List.mem_cons_of_mem _ h)

theorem insertById_sorted (m : MemberDc) : ∀ l : List MemberDc, l.Pairwise (fun a b => a.1 < b.1) →
    (insertById m l).Pairwise (fun a b => a.1 < b.1)
  | [], _ => by simp [insertById]
  | y :: ys, h => by
    rw [List.pairwise_cons] at h
    simp only [insertById]
    split
    · rename_i hlt
      refine List.Pairwise.cons ?_ (List.Pairwise.cons h.1 h.2)
      intro z hz
      rcases List.mem_cons.1 hz with rfl | hz
      · exact hlt
      · exact Nat.lt_trans hlt (h.1 z hz)
    · split
      · rename_i _ heq
        refine List.Pairwise.cons ?_ h.2
        intro z hz; rw [heq]; exact h.1 z hz
      · rename_i h1 h2
        refine List.Pairwise.cons ?_ (insertById_sorted m ys h.2)
        intro z hz
        rcases mem_insertById m z ys hz with rfl | hz
        · omega
        · exact h.1 z hz

/-- `m` stays a member when entries with other ids are inserted. -/
theorem mem_insertById_other (m x : MemberDc) (hne : x.1 ≠ m.1) : ∀ l : List MemberDc, x ∈ l → x ∈ insertById m l
  | [], h => by cases h
  | y :: ys, h => by
    simp only [insertById]
    split
    · exact List.mem_cons_of_mem _ h
    · split
      · rename_i _ heq
        rcases List.mem_cons.1 h with rfl | h
        · exact absurd heq.symm hne
        · exact List.mem_cons_of_mem _ h
      · rcases List.mem_cons.1 h with rfl | h
        · exact List.mem_cons_self
        · exact List.mem_cons_of_mem _ (mem_insertById_other m x hne ys h)

theorem mem_insertById_self (m : MemberDc) : ∀ l : List MemberDc, m ∈ insertById m l
  | [] => by simp [insertById]
  | y :: ys => by
    simp only [insertById]
    split
    · exact List.mem_cons_self
    · split
      · exact List.mem_cons_self
      · exact List.mem_cons_of_mem _ (mem_insertById_self m ys)

theorem sortById_spec (ms : List MemberDc) (hid : (ms.map (·.1)).Nodup) :
    (sortById ms).Pairwise (fun a b => a.1 < b.1) ∧ (∀ x, x ∈ sortById ms ↔ x ∈ ms) := by
  unfold sortById
  suffices h : ∀ (l acc : List MemberDc), acc.Pairwise (fun a b => a.1 < b.1) → ((acc ++ l).map (·.1)).Nodup →
      (l.foldl (fun acc m => insertById m acc) acc).Pairwise (fun a b => a.1 < b.1) ∧
      (∀ x, x ∈ l.foldl (fun acc m => insertById m acc) acc ↔ x ∈ acc ∨ x ∈ l) by
    obtain ⟨h1, h2⟩ := h ms [] List.Pairwise.nil (by simpa using hid)
    exact ⟨h1, fun x => by rw [h2 x]; simp⟩
  intro l
  induction l with
  | nil => intro acc hs _; exact ⟨hs, fun x => by simp⟩
  | cons m rest ih =>
    intro acc hs hnd
    simp only [List.foldl_cons]
    have hm_notin : ∀ y ∈ acc, y.1 ≠ m.1 := by
      intro y hy heq
      rw [List.map_append, List.nodup_append] at hnd
      exact hnd.2.2 y.1 (List.mem_map.2 ⟨y, hy, rfl⟩) m.1 (List.mem_map.2 ⟨m, List.mem_cons_self, rfl⟩) heq
    have hnd' : ((insertById m acc ++ rest).map (·.1)).Nodup := by
      -- the ids of `insertById m acc ++ rest` are those of `acc ++ m :: rest`, rearranged
      rw [List.map_append, List.nodup_append] at hnd ⊢
      obtain ⟨ha, hr, hdisj⟩ := hnd
      rw [List.map_cons, List.nodup_cons] at hr
      refine ⟨?_, hr.2, ?_⟩
      · exact (insertById_sorted m acc hs).imp (fun h => Nat.ne_of_lt h) |> fun hp => by
          rw [List.Nodup, List.pairwise_map]; exact hp
      · intro a ha' b hb heq
        obtain ⟨x, hx, rfl⟩ := List.mem_map.1 ha'
        rcases mem_insertById m x acc hx with rfl | hx
        · exact hr.1 (heq ▸ hb)
        · exact hdisj x.1 (List.mem_map.2 ⟨x, hx, rfl⟩) b (List.mem_cons_of_mem _ hb) heq
    obtain ⟨i1, i2⟩ := ih (insertById m acc) (insertById_sorted m acc hs) hnd'
    refine ⟨i1, fun x => ?_⟩
    rw [i2 x]
    constructor
    · rintro (h | h)
      · rcases mem_insertById m x acc h with rfl | h
        · exact Or.inr List.mem_cons_self
        · exact Or.inl h
      · exact Or.inr (List.mem_cons_of_mem _ h)
    · rintro (h | h)
      · exact Or.inl (mem_insertById_other m x (hm_notin x h) acc h)
      · rcases List.mem_cons.1 h with rfl | h
        · exact Or.inl (mem_insertById_self x acc)
        · exact Or.inr h

theorem sortById_sorted (ms : List MemberDc) : (sortById ms).Pairwise (fun a b => a.1 < b.1) := by
  unfold sortById
  suffices h : ∀ (l acc : List MemberDc), acc.Pairwise (fun a b => a.1 < b.1) →
      (l.foldl (fun acc m => insertById m acc) acc).Pairwise (fun a b => a.1 < b.1) from h ms [] List.Pairwise.nil
  intro l
  induction l with
  | nil => intro acc h; exact h
  | cons m rest ih => intro acc h; exact ih _ (insertById_sorted m acc h)

/-! ### One entry per address -/

/-- On an id-sorted list whose local member (if listed) has its address in `seen`: the kept members
have pairwise different addresses, the kept NON-local members have addresses outside `seen`, and
the local member is always kept. -/
theorem keepFirstAddr_spec (self : Nat) : ∀ (l : List MemberDc) (seen : List Nat),
    l.Pairwise (fun a b => a.1 < b.1) → (∀ m ∈ l, m.1 = self → m.2.1 ∈ seen) →
    ((keepFirstAddr self l seen).map (·.2.1)).Nodup ∧
    (∀ m ∈ keepFirstAddr self l seen, m.1 ≠ self → m.2.1 ∉ seen) ∧
    (∀ m ∈ keepFirstAddr self l seen, m ∈ l) ∧
    (∀ m ∈ l, m.1 = self → m ∈ keepFirstAddr self l seen)
  | [], _, _, _ => by simp [keepFirstAddr]
  | m :: ms, seen, hs, hself => by
    rw [List.pairwise_cons] at hs
    simp only [keepFirstAddr]
    split
    · rename_i hc
      simp only [Bool.and_eq_true, bne_iff_ne, ne_eq] at hc
      obtain ⟨h1, h2, h3, h4⟩ := keepFirstAddr_spec self ms seen hs.2
        (fun x hx hxs => hself x (List.mem_cons_of_mem _ hx) hxs)
      refine ⟨h1, h2, fun x hx => List.mem_cons_of_mem _ (h3 x hx), ?_⟩
      intro x hx hxs
      rcases List.mem_cons.1 hx with rfl | hx
      · exact absurd hxs hc.1
      · exact h4 x hx hxs
    · rename_i hc
      have hkeep : m.1 = self ∨ m.2.1 ∉ seen := by
        by_cases hm : m.1 = self
        · exact Or.inl hm
        · right
          intro hin
          apply hc
          simp only [Bool.and_eq_true, bne_iff_ne, ne_eq]
          exact ⟨hm, List.contains_iff_mem.2 hin⟩
      obtain ⟨h1, h2, h3, h4⟩ := keepFirstAddr_spec self ms (m.2.1 :: seen) hs.2
        (fun x hx hxs => List.mem_cons_of_mem _ (hself x (List.mem_cons_of_mem _ hx) hxs))
      refine ⟨?_, ?_, ?_, ?_⟩
      · rw [List.map_cons, List.nodup_cons]
        refine ⟨?_, h1⟩
        intro hm
        obtain ⟨x, hx, hxe⟩ := List.mem_map.1 hm
        by_cases hxs : x.1 = self
        · -- `x` is the local member, later in the list than `m`
          have hxl : x ∈ ms := h3 x hx
          have hlt : m.1 < x.1 := hs.1 x hxl
          rcases hkeep with hm1 | hm2
          · omega
          · exact hm2 (hxe ▸ hself x (List.mem_cons_of_mem _ hxl) hxs)
        · exact h2 x hx hxs (by rw [hxe]; exact List.mem_cons_self)
      · intro x hx hxs
        rcases List.mem_cons.1 hx with rfl | hx
        · rcases hkeep with h | h
          · exact absurd h hxs
          · exact h
        · intro hin; exact h2 x hx hxs (List.mem_cons_of_mem _ hin)
      · intro x hx
        rcases List.mem_cons.1 hx with rfl | hx
        · exact List.mem_cons_self
        · exact List.mem_cons_of_mem _ (h3 x hx)
      · intro x hx hxs
        rcases List.mem_cons.1 hx with rfl | hx
        · exact List.mem_cons_self
        · exact List.mem_cons_of_mem _ (h4 x hx hxs)

/-- The local member's address is in the seed of `dcLayout`. -/
theorem selfAddr_covers (self : Nat) (l : List MemberDc) (hs : l.Pairwise (fun a b => a.1 < b.1)) :
    ∀ m ∈ l, m.1 = self → m.2.1 ∈ selfAddr self l := by
  intro m hm hms
  unfold selfAddr
  cases hf : l.find? (fun x => x.1 == self) with
  | none =>
    have := List.find?_eq_none.1 hf m hm
    simp [hms] at this
  | some x =>
    have hx := List.mem_of_find?_eq_some hf
    have hxs : x.1 = self := by simpa using List.find?_some hf
    -- ids are distinct in a strictly sorted list: `x = m`
    have : x = m := by
      clear hf
      induction l with
      | nil => cases hm
      | cons y ys ih =>
        rw [List.pairwise_cons] at hs
        rcases List.mem_cons.1 hx with rfl | hx' <;> rcases List.mem_cons.1 hm with rfl | hm'
        · rfl
        · have := hs.1 m hm'; omega
        · have := hs.1 x hx'; omega
        · exact ih hs.2 hm' hx'
    simp [this]

theorem eq_of_nodup_addr (l : List MemberDc) (h : (l.map (·.2.1)).Nodup) (a b : MemberDc)
    (ha : a ∈ l) (hb : b ∈ l) (e : a.2.1 = b.2.1) : a = b := by
  induction l with
  | nil => cases ha
  | cons x xs ih =>
    simp only [List.map_cons, List.nodup_cons] at h
    rcases List.mem_cons.1 ha with ea | ha' <;> rcases List.mem_cons.1 hb with eb | hb'
    · rw [ea, eb]
    · exact absurd (List.mem_map.2 ⟨b, hb', by rw [← e, ea]⟩) h.1
    · exact absurd (List.mem_map.2 ⟨a, ha', by rw [e, eb]⟩) h.1
    · exact ih h.2 ha' hb'

/-- The address lists of distinct data centres, taken out of a member list without repeated
addresses, share nothing and repeat nothing. -/
theorem flatten_by_dc_nodup (kept : List MemberDc) (hk : (kept.map (·.2.1)).Nodup) :
    ∀ dcs : List Nat, dcs.Nodup →
    ((dcs.map (fun d => (kept.filter (fun m => m.2.2 == d)).map (·.2.1))).flatten).Nodup
  | [], _ => by simp
  | d :: ds, hd => by
    rw [List.nodup_cons] at hd
    simp only [List.map_cons, List.flatten_cons]
    rw [List.nodup_append]
    refine ⟨List.Nodup.sublist (List.Sublist.map _ List.filter_sublist) hk, flatten_by_dc_nodup kept hk ds hd.2, ?_⟩
    intro a ha b hb hab
    obtain ⟨m, hm, rfl⟩ := List.mem_map.1 ha
    obtain ⟨l, hl, hbl⟩ := List.mem_flatten.1 hb
    obtain ⟨d', hd', rfl⟩ := List.mem_map.1 hl
    obtain ⟨m', hm', rfl⟩ := List.mem_map.1 hbl
    obtain ⟨hm1, hm2⟩ := List.mem_filter.1 hm
    obtain ⟨hm1', hm2'⟩ := List.mem_filter.1 hm'
    have : m = m' := eq_of_nodup_addr kept hk m m' hm1 hm1' hab
    subst this
    simp only [beq_iff_eq] at hm2 hm2'
    exact hd.1 (by rw [← hm2, hm2']; exact hd')

/-- **dcLayout_wf**: for EVERY membership snapshot — any member ids, addresses and data centres,
two ids at one address included, also at the local address — the map the watcher installs in the
selector is well-formed: distinct data-centre names, every address once. -/
theorem dcLayout_wf (a : Actor) (self : Nat) (ms : List MemberDc) : WF (setNodes a (dcLayout self ms)).dcs := by
  have hss := sortById_sorted ms
  have hspec := keepFirstAddr_spec self (sortById ms) (selfAddr self (sortById ms)) hss (selfAddr_covers self _ hss)
  have hk := hspec.1
  have hsorted := dcs_sorted ((keepFirstAddr self (sortById ms) (selfAddr self (sortById ms))).map (·.2.2))
  generalize hkept : keepFirstAddr self (sortById ms) (selfAddr self (sortById ms)) = kept at hsorted hk
  generalize hdcs : (kept.map (·.2.2)).foldr insertNat [] = dcs at hsorted
  have hlay : dcLayout self ms = dcs.map (fun d => (d, (kept.filter (fun m => m.2.2 == d)).map (·.2.1))) := by
    unfold dcLayout; simp only [hkept, hdcs]
  have hids : ((dcLayout self ms).map (·.1)) = dcs := by
    rw [hlay, List.map_map]
    have : ((fun p : Nat × List Nat => p.1) ∘ fun d => (d, (kept.filter (fun m => m.2.2 == d)).map (·.2.1))) = id := rfl
    rw [this, List.map_id]
  have hfold : (setNodes a (dcLayout self ms)).dcs = (dcLayout self ms).map (fun p => (p.1, ⟨0, p.2⟩)) := by
    unfold setNodes
    simp only
    rw [foldl_insertDc_sorted (dcLayout self ms) [] (by rw [hids]; exact hsorted) (by intro a ha; cases ha)]
    simp
  have hnd : dcs.Nodup := hsorted.imp (fun h => Nat.ne_of_lt h)
  constructor
  · rw [hfold, List.map_map]
    have : ((fun p : Nat × Cycler => p.1) ∘ fun p : Nat × List Nat => (p.1, (⟨0, p.2⟩ : Cycler))) = (·.1) := rfl
    rw [this, hids]; exact hnd
  · unfold allNodes
    rw [hfold, List.map_map, hlay, List.map_map]
    exact flatten_by_dc_nodup kept hk dcs hnd

/-- **wired_selection_sound**: whatever the membership snapshot, a successful selection from the map
the watcher installed has no duplicates, excludes the local node, lies in that map and has the size
the level requires (`select_sound` with `WF` discharged). `hl`: the local data centre is in the map
(`local_dc_present`: it is, whenever the snapshot lists the local member). -/
theorem wired_selection_sound (a : Actor) (self : Nat) (ms : List MemberDc) (lvl : Level) (choice : List Nat)
    (hl : ∃ c, getDc (setNodes a (dcLayout self ms)).dcs a.localDc = some c)
    (hchoice : ∀ n, (lvl = .one → n = 1) → (lvl = .two → n = 2) → (lvl = .three → n = 3) →
      (lvl = .one ∨ lvl = .two ∨ lvl = .three) → GoodChoice (setNodes a (dcLayout self ms)).dcs n choice) :
    let b := setNodes a (dcLayout self ms)
    ∀ ns, (selectNodes b.local_ b.localDc b.total b.dcs lvl choice).1 = .ok ns →
      ns.Nodup ∧ b.local_ ∉ ns ∧ (∀ x ∈ ns, x ∈ allNodes b.dcs) ∧
      ns.length ≥ required lvl b.local_ b.localDc b.total b.dcs := by
  intro b ns hns
  have hsnd := select_sound b.local_ b.localDc b.total b.dcs lvl choice (dcLayout_wf a self ms) hl hchoice
  obtain ⟨h1, h2, h3, h4, _⟩ := hsnd.2.2 ns hns
  exact ⟨h1, h2, h3, h4⟩

/-! ### The local data centre is in the installed map -/

/-- A member of the input with an id no other entry of the input has is a member of the sorted list. -/
theorem mem_sortById (ms : List MemberDc) (hid : (ms.map (·.1)).Nodup) (x : MemberDc) (hx : x ∈ ms) : x ∈ sortById ms := by
  unfold sortById
  suffices h : ∀ (l acc : List MemberDc), ((acc ++ l).map (·.1)).Nodup → (x ∈ acc ∨ x ∈ l) →
      x ∈ l.foldl (fun acc m => insertById m acc) acc from h ms [] (by simpa using hid) (Or.inr hx)
  intro l
  induction l with
  | nil => intro acc _ h; rcases h with h | h; exact h; cases h
  | cons m rest ih =>
    intro acc hnd h
    simp only [List.foldl_cons]
    have hnd' : ((insertById m acc ++ rest).map (·.1)).Nodup ∧ (∀ y ∈ acc, y.1 ≠ m.1) := by
      rw [List.map_append, List.nodup_append] at hnd
      obtain ⟨ha, hr, hdisj⟩ := hnd
      rw [List.map_cons, List.nodup_cons] at hr
      have hm_notin : ∀ y ∈ acc, y.1 ≠ m.1 := fun y hy heq =>
        hdisj y.1 (List.mem_map.2 ⟨y, hy, rfl⟩) m.1 (by simp) heq
      refine ⟨?_, hm_notin⟩
      rw [List.map_append, List.nodup_append]
      refine ⟨?_, hr.2, ?_⟩
      · -- ids of `insertById m acc`: those of `acc` plus `m.1`
        have key : ∀ (l2 : List MemberDc), (l2.map (·.1)).Nodup → (∀ y ∈ l2, y.1 ≠ m.1) → ((insertById m l2).map (·.1)).Nodup := by
          intro l2
          induction l2 with
          | nil => intro _ _; simp [insertById]
          | cons y ys ih2 =>
            intro hn hne
            rw [List.map_cons, List.nodup_cons] at hn
            simp only [insertById]
            split
            · rw [List.map_cons, List.nodup_cons]
              refine ⟨?_, by rw [List.map_cons, List.nodup_cons]; exact hn⟩
              intro hin
              obtain ⟨z, hz, hze⟩ := List.mem_map.1 hin
              exact hne z hz hze
            · split
              · rename_i _ heq
                exact absurd heq.symm (hne y List.mem_cons_self)
              · rw [List.map_cons, List.nodup_cons]
                refine ⟨?_, ih2 hn.2 (fun z hz => hne z (List.mem_cons_of_mem _ hz))⟩
                intro hin
                obtain ⟨z, hz, hze⟩ := List.mem_map.1 hin
                rcases mem_insertById m z ys hz with rfl | hz
                · exact hne y List.mem_cons_self hze.symm
                · exact hn.1 (List.mem_map.2 ⟨z, hz, hze⟩)
        exact key acc ha hm_notin
      · intro a ha' b hb heq
        obtain ⟨z, hz, rfl⟩ := List.mem_map.1 ha'
        rcases mem_insertById m z acc hz with rfl | hz
        · exact hr.1 (heq ▸ hb)
        · exact hdisj z.1 (List.mem_map.2 ⟨z, hz, rfl⟩) b (List.mem_cons_of_mem _ hb) heq
    apply ih _ hnd'.1
    rcases h with h | h
    · exact Or.inl (mem_insertById_other m x (hnd'.2 x h) acc h)
    · rcases List.mem_cons.1 h with rfl | h
      · exact Or.inl (mem_insertById_self x acc)
      · exact Or.inr h

theorem getDc_map_mk (layout : List (Nat × List Nat)) (d : Nat) (ns : List Nat) (h : (d, ns) ∈ layout)
    (hnd : (layout.map (·.1)).Nodup) :
    getDc (layout.map (fun p => (p.1, (⟨0, p.2⟩ : Cycler)))) d = some ⟨0, ns⟩ := by
  induction layout with
  | nil => cases h
  | cons p ps ih =>
    rw [List.map_cons, List.nodup_cons] at hnd
    simp only [List.map_cons, getDc]
    rcases List.mem_cons.1 h with rfl | h'
    · simp
    · have : p.1 ≠ d := fun e => hnd.1 (List.mem_map.2 ⟨(d, ns), h', e.symm⟩)
      rw [if_neg this]
      exact ih h' hnd.2

/-- **local_dc_present**: when the membership snapshot (distinct node ids: they are map keys) lists
the local member, the local data centre is in the installed map and lists the local address - whatever
other ids claim that address (fix D30).  So `hl` of `wired_selection_sound` holds, and the local node
counts in the quorum sizes of its own data centre. -/
theorem local_dc_present (a : Actor) (ms : List MemberDc) (hid : (ms.map (·.1)).Nodup)
    (self : MemberDc) (hself : self ∈ ms) :
    ∃ c, getDc (setNodes a (dcLayout self.1 ms)).dcs self.2.2 = some c ∧ self.2.1 ∈ c.nodes := by
  have hss := sortById_sorted ms
  have hspec := keepFirstAddr_spec self.1 (sortById ms) (selfAddr self.1 (sortById ms)) hss (selfAddr_covers self.1 _ hss)
  have hkept : self ∈ keepFirstAddr self.1 (sortById ms) (selfAddr self.1 (sortById ms)) :=
    hspec.2.2.2 self (mem_sortById ms hid self hself) rfl
  have hdsorted := dcs_sorted ((keepFirstAddr self.1 (sortById ms) (selfAddr self.1 (sortById ms))).map (·.2.2))
  generalize hk : keepFirstAddr self.1 (sortById ms) (selfAddr self.1 (sortById ms)) = kept at hkept hdsorted
  generalize hdcs : (kept.map (·.2.2)).foldr insertNat [] = dcs at hdsorted
  have hlay : dcLayout self.1 ms = dcs.map (fun d => (d, (kept.filter (fun m => m.2.2 == d)).map (·.2.1))) := by
    unfold dcLayout; simp only [hk, hdcs]
  have hids : ((dcLayout self.1 ms).map (·.1)) = dcs := by
    rw [hlay, List.map_map]
    have : ((fun p : Nat × List Nat => p.1) ∘ fun d => (d, (kept.filter (fun m => m.2.2 == d)).map (·.2.1))) = id := rfl
    rw [this, List.map_id]
  have hfold : (setNodes a (dcLayout self.1 ms)).dcs = (dcLayout self.1 ms).map (fun p => (p.1, ⟨0, p.2⟩)) := by
    unfold setNodes
    simp only
    rw [foldl_insertDc_sorted (dcLayout self.1 ms) [] (by rw [hids]; exact hdsorted) (by intro a ha; cases ha)]
    simp
  have hnd : dcs.Nodup := hdsorted.imp (fun h => Nat.ne_of_lt h)
  have hdin : self.2.2 ∈ dcs := by
    rw [← hdcs]
    have : ∀ (l : List Nat) (x : Nat), x ∈ l → x ∈ l.foldr insertNat [] := by
      intro l
      induction l with
      | nil => intro x hx; cases hx
      | cons y ys ih =>
        intro x hx
        simp only [List.foldr_cons]
        rw [mem_insertNat]
        rcases List.mem_cons.1 hx with rfl | hx
        · exact Or.inl rfl
        · exact Or.inr (ih x hx)
    exact this _ _ (List.mem_map.2 ⟨self, hkept, rfl⟩)
  refine ⟨⟨0, (kept.filter (fun m => m.2.2 == self.2.2)).map (·.2.1)⟩, ?_, ?_⟩
  · rw [hfold]
    apply getDc_map_mk
    · rw [hlay]; exact List.mem_map.2 ⟨self.2.2, hdin, rfl⟩
    · rw [hids]; exact hnd
  · exact List.mem_map.2 ⟨self, List.mem_filter.2 ⟨hkept, by simp⟩, rfl⟩

/-- **wired_selection_sound_of_snapshot**: `wired_selection_sound` with its remaining hypothesis
discharged from the snapshot itself: distinct node ids (they are map keys) and the local member listed,
in the data centre the selector was created for. -/
theorem wired_selection_sound_of_snapshot (a : Actor) (ms : List MemberDc) (hid : (ms.map (·.1)).Nodup)
    (self : MemberDc) (hself : self ∈ ms) (hdc : a.localDc = self.2.2) (lvl : Level) (choice : List Nat)
    (hchoice : ∀ n, (lvl = .one → n = 1) → (lvl = .two → n = 2) → (lvl = .three → n = 3) →
      (lvl = .one ∨ lvl = .two ∨ lvl = .three) → GoodChoice (setNodes a (dcLayout self.1 ms)).dcs n choice) :
    let b := setNodes a (dcLayout self.1 ms)
    ∀ ns, (selectNodes b.local_ b.localDc b.total b.dcs lvl choice).1 = .ok ns →
      ns.Nodup ∧ b.local_ ∉ ns ∧ (∀ x ∈ ns, x ∈ allNodes b.dcs) ∧
      ns.length ≥ required lvl b.local_ b.localDc b.total b.dcs := by
  obtain ⟨c, hc, _⟩ := local_dc_present a ms hid self hself
  exact wired_selection_sound a self.1 ms lvl choice ⟨c, by rw [hdc]; exact hc⟩ hchoice

/-- Defect D21 (pinned wiring): two member ids at one address put it into the map twice; the map
is not well-formed and `All` returns the address twice.  The current wiring lists it once. -/
theorem legacy_wiring_duplicates :
    let ms : List MemberDc := [(0, 100, 1), (1, 101, 1), (2, 102, 1), (3, 102, 1)]
    dcLayoutLegacy ms = [(1, [100, 101, 102, 102])] ∧ dcLayout 0 ms = [(1, [100, 101, 102])] ∧
    (selectNodes 100 1 4 (setNodes { local_ := 100, localDc := 1 } (dcLayoutLegacy ms)).dcs .all []).1 = .ok [101, 102, 102] ∧
    (selectNodes 100 1 3 (setNodes { local_ := 100, localDc := 1 } (dcLayout 0 ms)).dcs .all []).1 = .ok [101, 102] := by
  decide

/-- Defect D30 (the wiring between the fixes for D21 and D30): the local node (id 9) restarted at its
address 100 in data centre 2 while its old id 1 is still listed at that address in data centre 0: the
first-member-per-address rule filed the local address under data centre 0, the local data centre was
missing from the map and `One` returned TWO nodes.  The current wiring keeps the local address in the
local data centre and `One` returns one node. -/
theorem legacy_local_address_taken :
    let ms : List MemberDc := [(9, 100, 2), (1, 100, 0), (2, 101, 0), (3, 102, 1)]
    dcLayoutD21 ms = [(0, [100, 101]), (1, [102])] ∧ dcLayout 9 ms = [(0, [101]), (1, [102]), (2, [100])] ∧
    (selectNodes 100 2 3 (setNodes { local_ := 100, localDc := 2 } (dcLayoutD21 ms)).dcs .one [0, 1]).1 = .ok [101, 102] ∧
    (selectNodes 100 2 3 (setNodes { local_ := 100, localDc := 2 } (dcLayout 9 ms)).dcs .one [0]).1 = .ok [101] := by
  decide

end Datacake.Selector
