/-
C08, the chain — the executable cluster model refines the timed cluster of `Props/C08b.lean`.

`Props/C08b.lean` proves, for an abstract TIMED cluster (events `apply`, `exchange`, `purge` with a
global time, delay and skew bounds), that purging at arbitrary moments is invisible when every
operation reaches every replica in time.  As for C01 (`Props/C01d.lean`), what is run against the
code is the executable `Model/Cluster.lean`.  This file shows that its steps are events of the timed
cluster with the same effect on every node's (possibly purged) set:

* `exchange_refines_timed` — an exchange applies only items of the difference against the peer's
  current state (`repairOps_sub_diffOps`: removal items as listed; a fetched document carries exactly
  the listed stamp because the peer's store agrees with its set), which is the admissibility
  condition of `C08b.Ev.exchange`;
* `purge_refines_timed` — `PurgeDeletes` is `purge_old_deletes` on the node's set;
* `request_sets_timed` — a handled request is a sequence of `apply` events (their timing conditions
  are the premise of the property, not something the model can derive).
-/
import Datacake.Props.C01d
import Datacake.Props.C08b

namespace Datacake.C08c
open Datacake.Lww Datacake.OrSwot Datacake.Keyspace Datacake.Storage Datacake.Cluster Datacake.C05 Datacake.C01d

theorem fetched_origin (store : Storage.Keyspace) (modified : List (Nat × Nat)) (d : Doc)
    (hd : d ∈ fetched store modified) : ∃ m ∈ modified, m.1 = d.1 := by
  unfold fetched at hd
  rw [List.mem_filterMap] at hd
  obtain ⟨m, hm, hmd⟩ := hd
  refine ⟨m, hm, ?_⟩
  cases hdat : aget store.data m.1 with
  | none => rw [hdat] at hmd; simp at hmd
  | some bytes =>
    cases hrow : aget store.rows m.1 with
    | none => rw [hdat, hrow] at hmd; simp at hmd
    | some row =>
      obtain ⟨ts, tomb⟩ := row
      rw [hdat, hrow] at hmd
      simp only [Option.some.injEq] at hmd
      subst hmd; rfl

/-- What an (atomic) exchange of the executable model applies are items of the difference against the
peer's current state — the admissibility condition of `C08b.Ev.exchange`. -/
theorem repairOps_sub_diffOps (c : Cluster) (j i : Nat) (rf : Bool) (hagree : Agree (getNode c i).ks) :
    ∀ so ∈ repairOps c j i rf, so.op ∈ diffOps (absSet c j) (absSet c i) := by
  intro so hso
  unfold repairOps at hso
  by_cases hex : (getNode c i).exists_ = true
  · simp only [hex, Bool.not_true, Bool.false_eq_true, if_false] at hso
    by_cases htr : ((getNode c j).tracker.getD i none == some (getNode c i).change) = true
    · simp only [htr, if_true] at hso; cases hso
    · simp only [htr, Bool.false_eq_true, if_false] at hso
      have hrem : ∀ s', so ∈ removalOps s' (diff (absSet c j) (absSet c i)).2 → so.op ∈ diffOps (absSet c j) (absSet c i) := by
        intro s' h
        obtain ⟨p, hp, _, rfl⟩ := of_mem_removalOps _ _ _ h
        unfold diffOps
        exact List.mem_append_right _ (List.mem_map.2 ⟨p, hp, rfl⟩)
      have hmod : ∀ s', so ∈ modificationOps s' (fetched (getNode c i).ks.store (diff (absSet c j) (absSet c i)).1) →
          so.op ∈ diffOps (absSet c j) (absSet c i) := by
        intro s' h
        obtain ⟨d, hd, _, rfl⟩ := of_mem_modificationOps _ _ _ h
        obtain ⟨m, hm, hm1⟩ := fetched_origin _ _ d hd
        have hrec := fetched_rec (getNode c i).ks hagree _ d hd
        have hlisted := ((diff_exact (absSet c j) (absSet c i) m.1 m.2).1.1 hm).1
        have hts : m.2 = d.2.1 := by
          have h1 : Map.get (absSet c i).entries d.1 = some d.2.1 := hrec
          rw [← hm1] at h1
          rw [hlisted] at h1
          injection h1
        unfold diffOps
        refine List.mem_append_left _ (List.mem_map.2 ⟨m, hm, ?_⟩)
        simp only [putOp]
        rw [hm1, hts]
      cases rf with
      | true =>
        simp only [if_true] at hso
        rcases List.mem_append.1 hso with h | h
        · exact hrem _ h
        · exact hmod _ h
      | false =>
        simp only [Bool.false_eq_true, if_false] at hso
        rcases List.mem_append.1 hso with h | h
        · exact hmod _ h
        · exact hrem _ h
  · simp only [hex, Bool.not_false, if_true] at hso; cases hso

/-- `PurgeDeletes` at node `j` of the executable model is `purge_old_deletes` on its set. -/
theorem purge_sets (c : Cluster) (j : Nat) (h : j < c.nodes.length) (x : Nat) :
    absSet (Cluster.purge c j) x = if x = j then (purgeOldDeletes (absSet c j)).1 else absSet c x := by
  unfold Cluster.purge absSet
  simp only []
  rw [setNode_ks, touch_length]
  by_cases hx : x = j
  · subst hx
    simp only [true_and, h, if_true, onPurge]
    rw [touch_ks]
  · simp only [hx, false_and, if_false]
    rw [touch_ks]

/-- **exchange_refines_timed**: one exchange of the executable model is an admissible `exchange` event
of the timed cluster of `Props/C08b.lean` (whose sets may have been purged), with the same effect on
every node's set. -/
theorem exchange_refines_timed (P : C08b.Params) (hP : P.F = Cluster.F) (H : List Op) (c : Cluster) (a : C08b.Cl)
    (τ : Nat) (hs : ∀ x, (a x).s = absSet c x) (j i : Nat) (rf : Bool) (hl : j < c.nodes.length)
    (hjn : j < P.n) (hin : i < P.n) (hf : (getNode c j).failNext = false) (hji : j ≠ i)
    (hagree : Agree (getNode c i).ks) :
    C08b.ValidEv P H a τ (.exchange j i (repairOps c j i rf)) ∧
    ∀ x, (C08b.step P.F a (.exchange j i (repairOps c j i rf)) x).s = absSet (repair c j i rf).1 x := by
  constructor
  · refine ⟨hjn, hin, ?_⟩
    intro so hso
    rw [hs j, hs i]
    exact repairOps_sub_diffOps c j i rf hagree so hso
  · intro x
    rw [repair_sets c j i rf hl hf hji x, hP]
    simp only [C08b.step, C08b.upd]
    by_cases hx : x = j
    · subst hx; simp only [if_true]; rw [hs x]
    · simp only [if_neg hx]; exact hs x

/-- **purge_refines_timed**: the purge of the executable model is the `purge` event. -/
theorem purge_refines_timed (P : C08b.Params) (H : List Op) (c : Cluster) (a : C08b.Cl) (τ : Nat)
    (hs : ∀ x, (a x).s = absSet c x) (j : Nat) (hl : j < c.nodes.length) (hjn : j < P.n) :
    C08b.ValidEv P H a τ (.purge j) ∧
    ∀ x, (C08b.step P.F a (.purge j) x).s = absSet (Cluster.purge c j) x := by
  refine ⟨hjn, fun x => ?_⟩
  rw [purge_sets c j hl x]
  simp only [C08b.step, C08b.upd]
  by_cases hx : x = j
  · subst hx; simp only [if_true]; rw [hs x]
  · simp only [if_neg hx]; exact hs x


/-- The effect of a handled request on the sets, as one equation. -/
theorem applyAt_sets_eq (c : Cluster) (i src : Nat) (iss : Issued) (hl : i < c.nodes.length)
    (hf : (getNode c i).failNext = false) (x : Nat) :
    absSet (applyAt c i src iss).1 x =
      if x = i then applyAll Cluster.F (absSet c i) ((requestOps (absSet c i) iss).map (fun o => ⟨src, o⟩)) else absSet c x := by
  cases iss with
  | put d =>
    rw [applyAt_put_sets c i src d hl hf x]
    by_cases hx : x = i
    · subst hx
      simp only [if_true, requestOps]
      by_cases hw : willApply (absSet c x) d.1 d.2.1 = true
      · simp [hw, applyAll, putOp]
      · simp [hw, applyAll]
    · simp [hx]
  | del id ts =>
    rw [applyAt_del_sets c i src id ts hl hf x]
    by_cases hx : x = i
    · subst hx
      simp only [if_true, requestOps]
      by_cases hw : willApply (absSet c x) id ts = true
      · simp [hw, applyAll, delOp]
      · simp [hw, applyAll]
    · simp [hx]
  | mput ds =>
    rw [applyAt_mput_sets c i src ds hl hf x]
    by_cases hx : x = i
    · subst hx
      simp only [if_true, requestOps, List.map_map]
      rfl
    · simp [hx]
  | mdel ds =>
    rw [applyAt_mdel_sets c i src ds hl hf x]
    by_cases hx : x = i
    · subst hx
      simp only [if_true, requestOps, List.map_map]
      rfl
    · simp [hx]

/-- The `apply` events of the timed cluster for the operations a request lets through (all at time `τ`). -/
def timedApplyEvents (τ i src : Nat) (ops : List Op) : List (Nat × C08b.Ev) := ops.map (fun o => (τ, .apply i src o))

theorem run_timedApply (F : Nat) (a : C08b.Cl) (τ i src : Nat) (ops : List Op) (x : Nat) :
    (C08b.run F a (timedApplyEvents τ i src ops) x).s =
      if x = i then applyAll F (a i).s (ops.map (fun o => ⟨src, o⟩)) else (a x).s := by
  induction ops generalizing a with
  | nil =>
    simp only [timedApplyEvents, C08b.run, applyAll, List.map_nil, List.foldl_nil]
    split
    · rename_i h; rw [h]
    · rfl
  | cons o rest ih =>
    have hrun : C08b.run F a (timedApplyEvents τ i src (o :: rest)) =
        C08b.run F (C08b.step F a (.apply i src o)) (timedApplyEvents τ i src rest) := rfl
    rw [hrun, ih]
    simp only [C08b.step, C08b.upd, applyAll, List.map_cons, List.foldl_cons]
    by_cases hx : x = i
    · simp [hx]
    · simp [hx]

/-- **request_sets_timed**: a request handled at node `i` of the executable model has the effect of the
`apply` events of the operations its handler lets through, in the order it applies them (the timing
conditions of those events are the premise of the property). -/
theorem request_sets_timed (c : Cluster) (a : C08b.Cl) (hs : ∀ x, (a x).s = absSet c x) (τ i src : Nat)
    (iss : Issued) (hl : i < c.nodes.length) (hf : (getNode c i).failNext = false) (x : Nat) :
    (C08b.run Cluster.F a (timedApplyEvents τ i src (requestOps (absSet c i) iss)) x).s = absSet (applyAt c i src iss).1 x := by
  rw [run_timedApply, applyAt_sets_eq c i src iss hl hf x]
  by_cases hx : x = i
  · subst hx; simp only [if_true]; rw [hs x]
  · simp only [if_neg hx]; exact hs x

end Datacake.C08c
