/-
C05 (second part, gap-free alternative) — one exchange repairs, also when the history spans more
than a forgiveness period.

Precondition (the property's "gap-free" alternative): the replica has applied a gap-free prefix of
every origin's operations (`DownClosed`).  The difference is applied through ONE source `src`
(the store uses the repair source), in any order of its items, and the set has at least one other
source `j` (the store has two): what `j` has seen of an origin is then older than every item of that
origin, so the cut-off — the minimum over the sources — stays below every item while the exchange
runs, and no item is refused.  (With a single source the statement is false: applying the newest
item first moves the only per-source maximum, hence the cut-off, past the older items.)

`SafeExact` (cut-offs are exactly the forgiveness of the per-source minima) holds for every state
built by insert / delete / purge / diff application (`safeExact_applyOp`, `safeExact_purge`), which
is every state of a keyspace actor.
-/
import Datacake.Lemmas.SafeExact
import Datacake.Lemmas.Exchange
import Datacake.Props.C05b

namespace Datacake.C05
open Datacake.Lww Datacake.OrSwot Datacake.Ts Datacake.Map

theorem modifyNth_getElem?_ne (l : List Map) (i j : Nat) (f : Map → Map) (h : j ≠ i) :
    (modifyNth l i f)[j]? = l[j]? := by
  induction l generalizing i j with
  | nil => rfl
  | cons x xs ih =>
    cases i with
    | zero =>
      cases j with
      | zero => exact absurd rfl h
      | succ j => simp [modifyNth]
    | succ i =>
      cases j with
      | zero => simp [modifyNth]
      | succ j => simp only [modifyNth, List.getElem?_cons_succ]; exact ih i j (by omega)

/-- A source other than the one an operation arrives on keeps what it has seen. -/
theorem applyOp_maxs_other (F : Nat) (s : OrSwot) (o : SrcOp) (j : Nat) (hj : j ≠ o.src) :
    (applyOp F s o).1.maxs[j]? = s.maxs[j]? := by
  cases hb : isBefore s.safe o.op.ts with
  | true => rw [applyOp_refused F s o hb]
  | false =>
    obtain ⟨maxs', safe', hu, h1, _⟩ := applyOp_versions F s o hb
    rw [h1, (tryUpdateMax_eq F s o.src o.op.ts maxs' safe' hu).1]
    exact modifyNth_getElem?_ne _ _ _ _ hj

/-- A stamp that is at least what some source has seen of its origin is not before the cut-off. -/
theorem notBefore_quiet (F : Nat) (s : OrSwot) (j t : Nat) (he : SafeExact F s) (hg : GoodMaxs s)
    (m : Map) (hm : s.maxs[j]? = some m) (hq : ∀ v, Map.get m (node t) = some v → v ≤ t) :
    isBefore s.safe t = false := by
  unfold isBefore
  cases hs : Map.get s.safe (node t) with
  | none => rfl
  | some v =>
    simp only [decide_eq_false_iff_not]
    obtain ⟨x, xs, e1, e2⟩ := he.some_ _ v hs
    have hmem : m ∈ s.maxs := List.mem_of_getElem? hm
    have hval : (Map.get m (node t)).getD (pack 0 0 (node t)) ∈ x :: xs := by
      rw [← e1]; exact List.mem_map.2 ⟨m, hmem, rfl⟩
    have hmin := minList_le x xs _ hval
    have hmn := minList_mem x xs
    rw [← e1] at hmn
    obtain ⟨h1, h2, _⟩ := srcVals_good s hg (node t) (node_lt t) _ hmn
    have hfl := forgive_le F (minList x xs) h1 h2
    have hle : (Map.get m (node t)).getD (pack 0 0 (node t)) ≤ t := by
      cases hgm : Map.get m (node t) with
      | some w => simp only [Option.getD_some]; exact hq w hgm
      | none =>
        simp only [Option.getD_none]
        have hp : pack 0 0 (node t) = node t := by
          have := node_lt t; unfold pack durSecs durFrac; omega
        rw [hp]; unfold node; omega
    rw [e2]; omega

/-- Operations arriving on sources other than a quiet source `j` — one that has seen nothing newer
than any of them from their origins — are all accepted, in any order. -/
theorem accepted_quiet (F : Nat) (j : Nat) : ∀ (ops : List SrcOp) (s : OrSwot) (m : Map),
    SafeExact F s → GoodMaxs s → s.maxs[j]? = some m →
    (∀ o ∈ ops, o.src ≠ j ∧ ValidStamp o.op.ts ∧ ∀ v, Map.get m (node o.op.ts) = some v → v ≤ o.op.ts) →
    C04.Accepted F s ops := by
  intro ops
  induction ops with
  | nil => intro _ _ _ _ _ _; trivial
  | cons o rest ih =>
    intro s m he hg hm hall
    obtain ⟨hsrc, hv, hq⟩ := hall o List.mem_cons_self
    refine ⟨notBefore_quiet F s j o.op.ts he hg m hm hq, ?_⟩
    obtain ⟨he', hg'⟩ := safeExact_applyOp F s o he hg hv
    refine ih _ m he' hg' ?_ (fun o' ho' => hall o' (List.mem_cons_of_mem _ ho'))
    rw [applyOp_maxs_other F s o j (fun h => hsrc h.symm)]; exact hm

/-- Applying accepted operations to a state that represents `A` yields the LWW view of `A`
extended by them. -/
theorem view_applyAll_accepted (F : Nat) (s : OrSwot) (A : List Op) (ops : List SrcOp)
    (hview : ∀ k, view s k = lww A k) (hd : Disj s) (ha : C04.Accepted F s ops) :
    (∀ k, view (applyAll F s ops) k = lww (A ++ ops.map (·.op)) k) ∧ Disj (applyAll F s ops) := by
  obtain ⟨h1, h2⟩ := C04.apply_ops_lww_from F ops s hd ha
  refine ⟨fun k => ?_, h2⟩
  rw [h1 k, hview k]
  unfold C04.lwwFrom lww
  rw [List.foldl_append]

theorem goodMaxs_of_rep (F : Nat) (H : List Op) (hg : GoodHist H) (a : OrSwot) (A : List Op)
    (ra : Rep F a A) (hA : ∀ o ∈ A, o ∈ H) : GoodMaxs a := by
  intro m hm X v hv
  obtain ⟨⟨o, ho, hts⟩, hn⟩ := ra.vers.maxs m hm X v hv
  have := hg.valid o (hA o ho)
  rw [hts] at this
  exact ⟨hn, this.1, this.2⟩

/-- **apply_diff_closes_gapfree**: for a replica that has applied a gap-free prefix of every
origin's operations, applying the difference against a peer through one source — in ANY order of
its items — on a set with at least one other source leaves nothing further to fetch from that peer.
No bound on how far apart in time the operations are. -/
theorem apply_diff_closes_gapfree (F : Nat) (H : List Op) (hg : GoodHist H)
    (a b : OrSwot) (A B : List Op) (ra : Rep F a A) (rb : Rep F b B)
    (hA : ∀ o ∈ A, o ∈ H) (hB : ∀ o ∈ B, o ∈ H) (hdc : DownClosed A H) (he : SafeExact F a)
    (src j : Nat) (hj : j ≠ src) (hjN : j < a.maxs.length)
    (order : List SrcOp) (hsrc : ∀ so ∈ order, so.src = src)
    (hsub : ∀ so ∈ order, so.op ∈ diffOps a b)
    (hall : ∀ o ∈ diffOps a b, ∃ so ∈ order, so.op = o) :
    diff (applyAll F a order) b = ([], []) := by
  have hgm := goodMaxs_of_rep F H hg a A ra hA
  have hsound := sound_of_downClosed F a A H hg hA hdc ra.vers
  obtain ⟨m, hm⟩ : ∃ m, a.maxs[j]? = some m := ⟨a.maxs[j], List.getElem?_eq_getElem hjN⟩
  -- every item is an operation of the peer that the replica has not applied
  have hitem : ∀ so ∈ order, so.op ∈ H ∧ so.op ∉ A := by
    intro so hso
    obtain ⟨hr, hl⟩ := (mem_diffOps a b so.op).1 (hsub so hso)
    have hinB := op_of_rec F b B rb _ _ _ hr
    refine ⟨hB _ hinB, ?_⟩
    intro hinA
    obtain ⟨y, hy, hle⟩ := lww_ge A so.op.key so.op hinA rfl
    rw [lacks_iff_view a ra.disj] at hl
    rw [ra.view] at hl
    have := hl.1 y hy
    unfold recTs at this
    unfold rank liveRec deadRec at hle
    split at hle <;> omega
  -- hence newer than everything any source has seen of its origin
  have hquiet : ∀ so ∈ order, so.src ≠ j ∧ ValidStamp so.op.ts ∧
      ∀ v, Map.get m (node so.op.ts) = some v → v ≤ so.op.ts := by
    intro so hso
    obtain ⟨hH, hnA⟩ := hitem so hso
    refine ⟨by rw [hsrc so hso]; exact fun h => hj h.symm, hg.valid _ hH, ?_⟩
    intro v hv
    obtain ⟨⟨o', ho', hts⟩, hn⟩ := ra.vers.maxs m (List.mem_of_getElem? hm) _ v hv
    by_cases hle : so.op.ts ≤ o'.ts
    · exact absurd (hdc o' ho' so.op hH (by rw [hts, hn]) hle) hnA
    · omega
  have hacc := accepted_quiet F j order a m he hgm hm hquiet
  obtain ⟨hview, hdisj⟩ := view_applyAll_accepted F a A order ra.view ra.disj hacc
  have key : ∀ k t isDel, HasRec b k t isDel → ¬ Lacks (applyAll F a order) k t := by
    intro k t isDel hrec
    rw [lacks_iff_view _ hdisj, hview]
    have hobB := op_of_rec F b B rb k t isDel hrec
    by_cases hin : (⟨k, t, isDel⟩ : Op) ∈ diffOps a b
    · -- an item: it has been applied
      obtain ⟨so, hso, heq⟩ := hall _ hin
      have hmem : (⟨k, t, isDel⟩ : Op) ∈ A ++ order.map (·.op) :=
        List.mem_append_right _ (List.mem_map.2 ⟨so, hso, heq⟩)
      obtain ⟨y, hy, hle⟩ := lww_ge _ k ⟨k, t, isDel⟩ hmem rfl
      intro ⟨h1, _⟩
      have := h1 y hy
      unfold recTs at this
      unfold rank liveRec deadRec at hle
      simp only at hle
      split at hle <;> omega
    · -- not an item: the replica did not lack it before, and has lost nothing
      have hnl : ¬ Lacks a k t := fun hl => hin ((mem_diffOps a b ⟨k, t, isDel⟩).2 ⟨hrec, hl⟩)
      rw [lacks_iff_view a ra.disj, ra.view] at hnl
      intro ⟨h1, _⟩
      apply hnl
      constructor
      · intro r hr
        have hge : AtLeast (lww (A ++ order.map (·.op)) k) r := by
          rw [lww_append, hr]
          cases hl2 : lww (order.map (·.op)) k with
          | none => exact ⟨r, rfl, Nat.le_refl _⟩
          | some z => exact ⟨max r z, rfl, Nat.le_max_left _ _⟩
        obtain ⟨y, hy, hle⟩ := hge
        have := h1 y hy
        unfold recTs at this ⊢
        omega
      · intro hnone
        -- nothing held and "already observed": then it had been applied (gap-free), contradiction
        cases hbf : isBefore a.safe t with
        | false => rfl
        | true =>
          have hinA := hsound ⟨k, t, isDel⟩ (hB _ hobB) hbf
          obtain ⟨y, hy, _⟩ := lww_ge A k ⟨k, t, isDel⟩ hinA rfl
          rw [hnone] at hy; cases hy
  have e1 : (diff (applyAll F a order) b).1 = [] := by
    apply List.eq_nil_iff_forall_not_mem.2
    intro p hp
    obtain ⟨h1, h2⟩ := (diff_exact _ b p.1 p.2).1.1 hp
    exact key p.1 p.2 false (by simpa [HasRec] using h1) h2
  have e2 : (diff (applyAll F a order) b).2 = [] := by
    apply List.eq_nil_iff_forall_not_mem.2
    intro p hp
    obtain ⟨h1, h2⟩ := (diff_exact _ b p.1 p.2).2.1 hp
    exact key p.1 p.2 true (by simpa [HasRec] using h1) h2
  exact Prod.ext e1 e2

/-- After the exchange the replica's record of every key is the newer of its own and the peer's. -/
theorem exchange_dominates_gapfree (F : Nat) (H : List Op) (hg : GoodHist H) (hd : KeyStampDistinct H)
    (a b : OrSwot) (A B : List Op) (ra : Rep F a A) (rb : Rep F b B)
    (hA : ∀ o ∈ A, o ∈ H) (hB : ∀ o ∈ B, o ∈ H) (hdc : DownClosed A H) (he : SafeExact F a)
    (src j : Nat) (hj : j ≠ src) (hjN : j < a.maxs.length)
    (order : List SrcOp) (hsrc : ∀ so ∈ order, so.src = src)
    (hsub : ∀ so ∈ order, so.op ∈ diffOps a b)
    (hall : ∀ o ∈ diffOps a b, ∃ so ∈ order, so.op = o) (k : Nat) :
    view (applyAll F a order) k = omax (view a k) (view b k) := by
  have hgm := goodMaxs_of_rep F H hg a A ra hA
  have hsound := sound_of_downClosed F a A H hg hA hdc ra.vers
  obtain ⟨m, hm⟩ : ∃ m, a.maxs[j]? = some m := ⟨a.maxs[j], List.getElem?_eq_getElem hjN⟩
  have hitem : ∀ so ∈ order, so.op ∈ H ∧ so.op ∉ A := by
    intro so hso
    obtain ⟨hr, hl⟩ := (mem_diffOps a b so.op).1 (hsub so hso)
    have hinB := op_of_rec F b B rb _ _ _ hr
    refine ⟨hB _ hinB, ?_⟩
    intro hinA
    obtain ⟨y, hy, hle⟩ := lww_ge A so.op.key so.op hinA rfl
    rw [lacks_iff_view a ra.disj] at hl
    rw [ra.view] at hl
    have := hl.1 y hy
    unfold recTs at this
    unfold rank liveRec deadRec at hle
    split at hle <;> omega
  have hquiet : ∀ so ∈ order, so.src ≠ j ∧ ValidStamp so.op.ts ∧
      ∀ v, Map.get m (node so.op.ts) = some v → v ≤ so.op.ts := by
    intro so hso
    obtain ⟨hH, hnA⟩ := hitem so hso
    refine ⟨by rw [hsrc so hso]; exact fun h => hj h.symm, hg.valid _ hH, ?_⟩
    intro v hv
    obtain ⟨⟨o', ho', hts⟩, hn⟩ := ra.vers.maxs m (List.mem_of_getElem? hm) _ v hv
    by_cases hle : so.op.ts ≤ o'.ts
    · exact absurd (hdc o' ho' so.op hH (by rw [hts, hn]) hle) hnA
    · omega
  have hacc := accepted_quiet F j order a m he hgm hm hquiet
  obtain ⟨hview, _⟩ := view_applyAll_accepted F a A order ra.view ra.disj hacc
  rw [hview, lww_append, ← ra.view]
  -- every item on key `k` is the peer's record of `k`
  have hrecb : ∀ so ∈ order, so.op.key = k → view b k = some (rank so.op) := by
    intro so hso hk
    obtain ⟨hr, _⟩ := (mem_diffOps a b so.op).1 (hsub so hso)
    unfold HasRec at hr
    rw [← hk, view_of_gets]
    cases hdel : so.op.isDel with
    | true =>
      rw [hdel] at hr; simp only [if_true] at hr
      have hne : Map.get b.entries so.op.key = none := by
        rcases rb.disj so.op.key with h | h
        · exact h
        · rw [hr] at h; cases h
      rw [hne, hr]; unfold rank; rw [hdel]; rfl
    | false =>
      rw [hdel] at hr; simp only [Bool.false_eq_true, if_false] at hr
      rw [hr]; unfold rank; rw [hdel]; rfl
  cases hl : lww (order.map (·.op)) k with
  | some y =>
    -- some item on `k`: it is the peer's record
    obtain ⟨o, ho, hk, hrk⟩ := lww_mem _ k y hl
    obtain ⟨so, hso, rfl⟩ := List.mem_map.1 ho
    rw [hrecb so hso hk, hrk]
  | none =>
    -- no item on `k`: the replica's record already dominates the peer's (or the peer has none)
    cases hvb : view b k with
    | none => rfl
    | some rbk =>
      -- the peer's record as an operation
      have hob : ∃ t isDel, HasRec b k t isDel ∧ rank ⟨k, t, isDel⟩ = rbk := by
        rw [view_of_gets] at hvb
        cases hbe : Map.get b.entries k with
        | some e =>
          rw [hbe] at hvb; injection hvb with hvb
          exact ⟨e, false, by simp [HasRec, hbe], by unfold rank; simpa using hvb⟩
        | none =>
          rw [hbe] at hvb
          cases hbd : Map.get b.dead k with
          | none => rw [hbd] at hvb; cases hvb
          | some d =>
            rw [hbd] at hvb; injection hvb with hvb
            exact ⟨d, true, by simp [HasRec, hbd], by unfold rank; simpa using hvb⟩
      obtain ⟨t, isDel, hrec, hrank⟩ := hob
      have hobB := op_of_rec F b B rb k t isDel hrec
      have hnotitem : (⟨k, t, isDel⟩ : Op) ∉ diffOps a b := by
        intro hin
        obtain ⟨so, hso, heq⟩ := hall _ hin
        obtain ⟨y, hy, _⟩ := lww_ge (order.map (·.op)) k ⟨k, t, isDel⟩ (List.mem_map.2 ⟨so, hso, heq⟩) rfl
        rw [hl] at hy; cases hy
      have hnl : ¬ Lacks a k t := fun hl' => hnotitem ((mem_diffOps a b ⟨k, t, isDel⟩).2 ⟨hrec, hl'⟩)
      rw [lacks_iff_view a ra.disj] at hnl
      cases hva : view a k with
      | none =>
        exfalso; apply hnl
        refine ⟨fun r hr => (by rw [hva] at hr; cases hr), fun _ => ?_⟩
        cases hbf : isBefore a.safe t with
        | false => rfl
        | true =>
          have hinA := hsound ⟨k, t, isDel⟩ (hB _ hobB) hbf
          obtain ⟨y, hy, _⟩ := lww_ge A k ⟨k, t, isDel⟩ hinA rfl
          rw [← ra.view, hva] at hy; cases hy
      | some r =>
        have hge : t ≤ recTs r := by
          by_cases hc : recTs r < t
          · exfalso; apply hnl
            exact ⟨fun r' hr' => (by rw [hva] at hr'; cases hr'; exact hc), fun h => (by rw [hva] at h; cases h)⟩
          · omega
        -- r ≥ 2t; equality with a live peer record at the same stamp is excluded by distinctness
        have hr2 : rbk ≤ r := by
          unfold recTs at hge
          rw [← hrank]; unfold rank liveRec deadRec; simp only
          cases isDel with
          | true => simp only [if_true]; omega
          | false =>
            simp only [Bool.false_eq_true, if_false]
            by_cases hodd : r = 2 * t
            · exfalso
              -- the replica holds a tombstone stamped t: a delete of the history with the stamp of the peer's insert
              rw [ra.view] at hva
              obtain ⟨o', ho', hk', hrk'⟩ := lww_mem A k r hva
              have : o'.isDel = true ∧ o'.ts = t := by
                unfold rank liveRec deadRec at hrk'
                cases hd' : o'.isDel with
                | true => rw [hd'] at hrk'; simp at hrk'; exact ⟨rfl, by omega⟩
                | false => rw [hd'] at hrk'; simp at hrk'; omega
              have heq := hd o' (hA o' ho') ⟨k, t, false⟩ (hB _ hobB) hk' this.2
              rw [heq] at this; simp at this
            · omega
        simp only [omax]
        congr 1
        omega

/-- **exchange_converges_gapfree**: two replicas that have each applied gap-free prefixes and each
apply their difference against the other (any item order, one source, a second source present)
expose identical records — same live ids, same stamps. -/
theorem exchange_converges_gapfree (F : Nat) (H : List Op) (hg : GoodHist H) (hd : KeyStampDistinct H)
    (a b : OrSwot) (A B : List Op) (ra : Rep F a A) (rb : Rep F b B)
    (hA : ∀ o ∈ A, o ∈ H) (hB : ∀ o ∈ B, o ∈ H) (hdcA : DownClosed A H) (hdcB : DownClosed B H)
    (hea : SafeExact F a) (heb : SafeExact F b)
    (src j : Nat) (hj : j ≠ src) (hja : j < a.maxs.length) (hjb : j < b.maxs.length)
    (oa ob : List SrcOp) (hsa : ∀ so ∈ oa, so.src = src) (hsb : ∀ so ∈ ob, so.src = src)
    (ha1 : ∀ o ∈ oa, o.op ∈ diffOps a b) (ha2 : ∀ o ∈ diffOps a b, ∃ so ∈ oa, so.op = o)
    (hb1 : ∀ o ∈ ob, o.op ∈ diffOps b a) (hb2 : ∀ o ∈ diffOps b a, ∃ so ∈ ob, so.op = o) (k : Nat) :
    view (applyAll F a oa) k = view (applyAll F b ob) k := by
  rw [exchange_dominates_gapfree F H hg hd a b A B ra rb hA hB hdcA hea src j hj hja oa hsa ha1 ha2 k,
      exchange_dominates_gapfree F H hg hd b a B A rb ra hB hA hdcB heb src j hj hjb ob hsb hb1 hb2 k]
  cases view a k <;> cases view b k <;> simp [omax, Nat.max_comm]

/-- Why a second source is needed: with a single source, applying the newest item first moves the
cut-off past the older item, which is then refused — and, being "already observed", is not even
listed by the next difference: the replica never learns document 1. -/
theorem single_source_counterexample :
    let t1 := pack 5000000 0 1
    let t2 := pack 9000000 0 1
    let b := (insertWithSource 3600000 (insertWithSource 3600000 (OrSwot.empty 1) 0 1 t1).1 0 2 t2).1
    let a := OrSwot.empty 1
    let a' := (insertWithSource 3600000 (insertWithSource 3600000 a 0 2 t2).1 0 1 t1).1
    diff a b = ([(2, t2), (1, t1)], []) ∧ OrSwot.get a' 1 = none ∧ OrSwot.get b 1 = some t1 ∧
    -- ... and the difference is empty afterwards: document 1 is never fetched again
    diff a' b = ([], []) ∧
    -- with two sources the same order closes the difference
    (let b2 := (insertWithSource 3600000 (insertWithSource 3600000 (OrSwot.empty 2) 0 1 t1).1 0 2 t2).1
     let a2 := (insertWithSource 3600000 (insertWithSource 3600000 (OrSwot.empty 2) 1 2 t2).1 1 1 t1).1
     diff a2 b2 = ([], [])) := by
  decide

end Datacake.C05
