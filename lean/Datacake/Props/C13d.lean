/-
C13 at the wire: the registry theorems (Props/C13b: `served_iff_registered_general`, for any history
of registrations and removals, several service types under one name included) composed with the
exchange theorems (Props/C12b) and the path function (Props/C13c: the handler key IS the request
path).  The server's handler table is the registry the history produced; a request names its
service and message by the PATH it carries:

* `wire_unknown_refused`: if no registration containing the path has happened since the last removal
  of its service name, the client is told `ServiceUnavailable: Unknown service <path>` and no
  handler ran - whatever else is registered;
* `wire_registered_served`: otherwise the request is dispatched to the instance of the most recent
  such registration, which observes exactly the framed body, and the client gets exactly its reply
  (or its error: `wire_registered_error`);
* `wire_remove_then_refused` / `wire_remove_keeps_others`: removing a service makes every path of
  that service refused at the wire and changes the answer for no path of another service.
-/
import Datacake.Props.C12b
import Datacake.Props.C13b
import Datacake.Props.C13c

namespace Datacake.C13d
open Datacake.Rpc Datacake.Exchange Datacake.C12b Datacake.C13b Datacake.C13c

/-- The handler table a server with registry `reg` serves from: the path is the key (D26); `H inst`
is what the registered instance `inst` does with a message body. -/
def tableOf (reg : Registry) (H : Nat → Handler) : List Nat → Option Handler :=
  fun path => (getHandler reg (pathKey path)).map H

theorem tableOf_run (owner : Nat → Nat) (evs : List Ev) (hw : ∀ e ∈ evs, WellOwned owner e)
    (H : Nat → Handler) (path : List Nat) :
    tableOf (run evs) H path = (served owner evs (pathKey path)).map H := by
  unfold tableOf
  rw [served_iff_registered_general owner evs hw]

/-- **wire_unknown_refused** -/
theorem wire_unknown_refused (owner : Nat → Nat) (evs : List Ev) (hw : ∀ e ∈ evs, WellOwned owner e)
    (H : Nat → Handler) (path : List Nat) (rf ra : Nat) (frame : List Nat) (reqCuts respCuts : List Nat)
    (hnone : served owner evs (pathKey path) = none) (hp : path.length + 24 ≤ 2147483648) :
    exchange (tableOf (run evs) H) path rf ra frame reqCuts respCuts
      = (.status SERVICE_UNAVAILABLE (unknownPrefix ++ path), []) :=
  exchange_unknown _ path rf ra frame reqCuts respCuts
    (by rw [tableOf_run owner evs hw, hnone]; rfl) hp

/-- **wire_registered_served** -/
theorem wire_registered_served (owner : Nat → Nat) (evs : List Ev) (hw : ∀ e ∈ evs, WellOwned owner e)
    (H : Nat → Handler) (path : List Nat) (inst : Nat) (rf ra : Nat) (b r : List Nat) (reqCuts respCuts : List Nat)
    (hsome : served owner evs (pathKey path) = some inst)
    (hb : (H inst).fixed ≤ b.length) (hba : (b.length - (H inst).fixed) % (H inst).align = 0)
    (hrun : (H inst).run b = .ok r) (hr : rf ≤ r.length) (hra : (r.length - rf) % ra = 0) :
    exchange (tableOf (run evs) H) path rf ra (mkFrame b) reqCuts respCuts = (.reply r, [b]) :=
  exchange_reply _ path (H inst) rf ra b r reqCuts respCuts
    (by rw [tableOf_run owner evs hw, hsome]; rfl) hb hba hrun hr hra

/-- **wire_registered_error** -/
theorem wire_registered_error (owner : Nat → Nat) (evs : List Ev) (hw : ∀ e ∈ evs, WellOwned owner e)
    (H : Nat → Handler) (path : List Nat) (inst : Nat) (rf ra : Nat) (b : List Nat) (c : Nat) (m : List Nat)
    (reqCuts respCuts : List Nat)
    (hsome : served owner evs (pathKey path) = some inst)
    (hb : (H inst).fixed ≤ b.length) (hba : (b.length - (H inst).fixed) % (H inst).align = 0)
    (hrun : (H inst).run b = .error (c, m)) (hs : StatusOk c m) :
    exchange (tableOf (run evs) H) path rf ra (mkFrame b) reqCuts respCuts = (.status c m, [b]) :=
  exchange_error _ path (H inst) rf ra b c m reqCuts respCuts
    (by rw [tableOf_run owner evs hw, hsome]; rfl) hb hba hrun hs

theorem wellOwned_snoc (owner : Nat → Nat) (evs : List Ev) (hw : ∀ e ∈ evs, WellOwned owner e) (n : Nat) :
    ∀ e ∈ evs ++ [Ev.remove n], WellOwned owner e := by
  intro e he
  rcases List.mem_append.1 he with h | h
  · exact hw e h
  · simp only [List.mem_singleton] at h; subst h; trivial

/-- **wire_remove_then_refused**: after `remove_service` every path of that service is refused at the
wire, whatever was registered under the name before (several types, several times). -/
theorem wire_remove_then_refused (owner : Nat → Nat) (evs : List Ev) (hw : ∀ e ∈ evs, WellOwned owner e)
    (H : Nat → Handler) (n : Nat) (path : List Nat) (rf ra : Nat) (frame : List Nat) (reqCuts respCuts : List Nat)
    (hown : owner (pathKey path) = n) (hp : path.length + 24 ≤ 2147483648) :
    exchange (tableOf (run (evs ++ [Ev.remove n])) H) path rf ra frame reqCuts respCuts
      = (.status SERVICE_UNAVAILABLE (unknownPrefix ++ path), []) := by
  apply exchange_unknown _ path rf ra frame reqCuts respCuts _ hp
  unfold tableOf
  rw [remove_leaves_nothing_behind_general owner evs hw n _ hown]; rfl

/-- **wire_remove_keeps_others**: and the answer to every request for a path of ANOTHER service is
what it was. -/
theorem wire_remove_keeps_others (owner : Nat → Nat) (evs : List Ev) (hw : ∀ e ∈ evs, WellOwned owner e)
    (H : Nat → Handler) (n : Nat) (path : List Nat) (rf ra : Nat) (frame : List Nat) (reqCuts respCuts : List Nat)
    (hown : owner (pathKey path) ≠ n) :
    exchange (tableOf (run (evs ++ [Ev.remove n])) H) path rf ra frame reqCuts respCuts
      = exchange (tableOf (run evs) H) path rf ra frame reqCuts respCuts := by
  have : tableOf (run (evs ++ [Ev.remove n])) H path = tableOf (run evs) H path := by
    unfold tableOf
    rw [remove_does_not_disable_others_general owner evs hw n _ hown]
  unfold exchange server
  rw [this]

/-! ### non-vacuity -/

/-- two services: name 3 owns the path `[47, 97]` ("/a"), name 4 owns `[47, 98]` ("/b") -/
def exOwner (k : Nat) : Nat := if k = pathKey [47, 97] then 3 else 4
def exEvs : List Ev := [Ev.add 3 [pathKey [47, 97]] 100, Ev.add 4 [pathKey [47, 98]] 200]
def exH (inst : Nat) : Handler := ⟨4, 4, fun b => .ok (b ++ [inst % 256, 0, 0, 0])⟩

example : (∀ e ∈ exEvs, WellOwned exOwner e) ∧ served exOwner exEvs (pathKey [47, 97]) = some 100
    ∧ served exOwner (exEvs ++ [Ev.remove 3]) (pathKey [47, 97]) = none
    ∧ served exOwner (exEvs ++ [Ev.remove 3]) (pathKey [47, 98]) = some 200 := by
  refine ⟨?_, by decide, by decide, by decide⟩
  intro e he
  simp only [exEvs, List.mem_cons, List.mem_nil_iff, or_false] at he
  rcases he with rfl | rfl
  · intro k hk; simp only [List.mem_singleton] at hk; subst hk; decide
  · intro k hk; simp only [List.mem_singleton] at hk; subst hk; decide

end Datacake.C13d
