/-
C10 — Timestamp encoding is lossless and order-preserving; parsing never panics.

Model: `Datacake/Model/Timestamp.lean` (`pack`, accessors, `archive`, `display`, `fromStr`).
`fromStr` is the parser of the current tree (after the `fix:` commit for defect D2);
`fromStrLegacy` is the pinned parser, kept only for the negation witnesses at the end.
-/
import Datacake.Lemmas.TimestampText

namespace Datacake.C10
open Datacake.Ts

/-- A valid (time, counter, node) triple: what `HLCTimestamp::new` accepts and `duration_to_parts`
can produce. -/
structure ValidFields (secs frac ctr nd : Nat) : Prop where
  secs : secs < 4294967296
  frac : frac < 250
  ctr : ctr < 65536
  nd : nd < 256

/-- A packed value that is a valid timestamp. -/
def ValidTs (t : Nat) : Prop := t < 18446744073709551616 ∧ fractional t < 250

/-- **fields_roundtrip**: the accessors return exactly the fields that were packed, `new`
accepts them, and the result is a valid `u64`. -/
theorem fields_roundtrip (secs frac ctr nd : Nat) (h : ValidFields secs frac ctr nd) :
    new? (partsAsDuration secs frac) ctr nd = some (pack (partsAsDuration secs frac) ctr nd) ∧
    seconds (pack (partsAsDuration secs frac) ctr nd) = secs ∧
    fractional (pack (partsAsDuration secs frac) ctr nd) = frac ∧
    counter (pack (partsAsDuration secs frac) ctr nd) = ctr ∧
    node (pack (partsAsDuration secs frac) ctr nd) = nd ∧
    dts (pack (partsAsDuration secs frac) ctr nd) = partsAsDuration secs frac ∧
    ValidTs (pack (partsAsDuration secs frac) ctr nd) := by
  obtain ⟨h1, h2, h3, h4⟩ := h
  have hs : partsAsDuration secs frac / 1000 < 4294967296 := by unfold partsAsDuration; omega
  obtain ⟨f1, f2, f3, f4⟩ := pack_fields _ ctr nd hs h3 h4
  have e1 : partsAsDuration secs frac / 1000 = secs := by unfold partsAsDuration; omega
  have e2 : partsAsDuration secs frac % 1000 / 4 = frac := by unfold partsAsDuration; omega
  refine ⟨?_, by omega, by omega, f3, f4, ?_, ?_, by omega⟩
  · unfold new? durSecs; rw [if_pos (by omega)]
  · unfold dts; rw [f1, f2, e1, e2]
  · rw [pack_eq _ _ _ hs]; omega

/-- Every valid packed value is the packing of its own fields (`from_u64 ∘ as_u64` is the identity
by definition; this is the converse direction: accessors lose nothing). -/
theorem repack (t : Nat) (h : ValidTs t) :
    pack (dts t) (counter t) (node t) = t := by
  obtain ⟨h1, h2⟩ := h
  have hs := seconds_lt t h1
  have hd := decomp t
  have hdts : dts t / 1000 = seconds t ∧ dts t % 1000 / 4 = fractional t := by
    unfold dts partsAsDuration; omega
  rw [pack_eq _ _ _ (by omega), hdts.1, hdts.2]
  omega

/-- **archive_roundtrip**: the archived form (8 little-endian bytes) casts back to the same value. -/
theorem archive_roundtrip (t : Nat) (h : t < 18446744073709551616) :
    unarchive (archive t) = t ∧ (archive t).length = 8 ∧ ∀ b ∈ archive t, b < 256 := by
  refine ⟨?_, by simp [archive], ?_⟩
  · simp [archive, unarchive, List.range, List.range.loop]
    omega
  · intro b hb
    simp [archive] at hb
    obtain ⟨i, _, rfl⟩ := hb
    omega

/-- **ts_order_lex**: comparing packed values is comparing (seconds, fractional) — i.e. time at
4 ms resolution —, then counter, then node id, lexicographically.  For all `u64`s. -/
theorem ts_order_lex (a b : Nat) :
    a < b ↔ seconds a < seconds b ∨ (seconds a = seconds b ∧ (fractional a < fractional b ∨
      (fractional a = fractional b ∧ (counter a < counter b ∨
        (counter a = counter b ∧ node a < node b))))) :=
  lt_iff_lex a b

/-- The same for timestamps built from valid fields, in terms of the time in milliseconds. -/
theorem ts_order_time (a b : Nat) (ha : ValidTs a) (hb : ValidTs b) :
    a < b ↔ dts a < dts b ∨ (dts a = dts b ∧ (counter a < counter b ∨
      (counter a = counter b ∧ node a < node b))) := by
  rw [lt_iff_lex]
  have := ha.2; have := hb.2
  unfold dts partsAsDuration
  omega

/-- **display_parse_all**: printing then parsing is the identity on EVERY 64-bit value - also on
a stamp whose fractional byte is outside its canonical range (fix D25: the fields go back exactly
where `Display` took them from; a storage backend that keeps stamps as text returns them unchanged). -/
theorem display_parse_all (t : Nat) (h64 : t < 18446744073709551616) : fromStr (display t) = .ok t := by
  have hs := seconds_lt t h64
  have hk := counter_lt t
  have hn := node_lt t
  have hf := fractional_lt t
  have hsplit := splitn_four (showNat 10 (seconds t)) (pad4 (showNat 10 (fractional t)))
    (pad4 (showNat 16 (counter t))) (pad4 (showNat 10 (node t)))
    (no_dash_show 10 _ (by omega)).1 (no_dash_show 10 _ (by omega)).2 (no_dash_show 16 _ (by omega)).2
  have p1 := (parse_show 10 (18446744073709551616 - 1) (seconds t) (by omega) (by omega) (by omega)).1
  have p2 := (parse_show 10 255 (fractional t) (by omega) (by omega) (by omega)).2
  have p3 := (parse_show 16 65535 (counter t) (by omega) (by omega) (by omega)).2
  have p4 := (parse_show 10 255 (node t) (by omega) (by omega) (by omega)).2
  unfold fromStr display
  rw [hsplit]
  simp only [p1, p2, p3, p4]
  rw [if_neg (by omega)]
  congr 1
  exact (decomp t).symm

/-- **display_parse**: printing then parsing is the identity on valid timestamps. -/
theorem display_parse (t : Nat) (h : ValidTs t) : fromStr (display t) = .ok t :=
  display_parse_all t h.1

/-- **parse_total**: on every text whatsoever the parser returns a timestamp or `InvalidFormat`;
no `assert!`, no `Duration` arithmetic is left on the path. -/
theorem parse_total (s : List Char) : fromStr s ≠ .panic := by
  unfold fromStr
  repeat' split
  all_goals (intro h; cases h)

/-- What the parser accepts is a 64-bit value whose four fields are the four parsed numbers. -/
theorem parse_u64 (s : List Char) (t : Nat) (h : fromStr s = .ok t) : t < 18446744073709551616 := by
  unfold fromStr at h
  split at h
  · split at h
    · split at h
      · cases h
      · rename_i secs frac ctr nd _ hb hc hd hle
        injection h with h; subst h
        have hfrac := parseUnsigned_le _ _ _ _ hb
        have hctr := parseUnsigned_le _ _ _ _ hc
        have hnd := parseUnsigned_le _ _ _ _ hd
        omega
    · cases h
  · cases h

/-! ### Witnesses -/

/-- Defect D2 of the pinned tree: out-of-range seconds reach the `assert!` in `HLCTimestamp::new`
(`"4294967296-0000-0000-0000"`), also through normalisation of a fractional ≥ 250
(`"4294967295-0250-0000-0000"`).  The repaired parser reports `InvalidFormat` for both. -/
theorem legacy_parse_panics :
    fromStrLegacy ['4', '2', '9', '4', '9', '6', '7', '2', '9', '6', '-', '0', '0', '0', '0', '-', '0', '0', '0', '0', '-', '0', '0', '0', '0'] = .panic ∧
    fromStrLegacy ['4', '2', '9', '4', '9', '6', '7', '2', '9', '5', '-', '0', '2', '5', '0', '-', '0', '0', '0', '0', '-', '0', '0', '0', '0'] = .panic ∧
    fromStr ['4', '2', '9', '4', '9', '6', '7', '2', '9', '6', '-', '0', '0', '0', '0', '-', '0', '0', '0', '0', '-', '0', '0', '0', '0'] = .invalid ∧
    fromStr ['4', '2', '9', '4', '9', '6', '7', '2', '9', '5', '-', '0', '2', '5', '0', '-', '0', '0', '0', '0', '-', '0', '0', '0', '0'] = .ok 18446744073608888320 := by
  refine ⟨by decide, by decide, by decide, by decide⟩

/-- Defect D25 (the parser between the fixes for D2 and D25): the text of a stamp whose fractional
byte is 250 did not read back as written - `5-0250-0007-0003` came back as `6-0000-0007-0003` - and
at the top of the seconds range it did not read back at all.  The current parser is exact. -/
theorem legacy_parse_normalises :
    fromStrNormalising (display 25669142275) = .ok 25769805571 ∧ fromStr (display 25669142275) = .ok 25669142275 ∧
    fromStrNormalising (display 18446744073608888320) = .invalid ∧
    fromStr (display 18446744073608888320) = .ok 18446744073608888320 := by
  refine ⟨by decide, by decide, by decide, by decide⟩

/-- Non-vacuity: a concrete valid timestamp, its text and its bytes. -/
example : ValidTs (pack 1002953500 48647 2) ∧
    display (pack 1002953500 48647 2) = ['1', '0', '0', '2', '9', '5', '3', '-', '0', '1', '2', '5', '-', 'B', 'E', '0', '7', '-', '0', '0', '0', '2'] ∧
    archive (pack 1002953500 48647 2) = [2, 7, 190, 125, 201, 77, 15, 0] := by
  refine ⟨⟨by decide, by decide⟩, by decide, by decide⟩

/-- The parser accepts a leading `+`, lower-case hex and un-normalised fractions, like Rust. -/
example : fromStr ['1', '-', '0', '2', '5', '5', '-', 'f', 'f', '-', '+', '1'] = .ok (1 * 4294967296 + 255 * 16777216 + 255 * 256 + 1) := by decide

end Datacake.C10
