/-
C15 — Replica selection yields enough distinct live peers or reports too few.

Model: `Model/Selector.lean` (`NodeCycler`, `select_n_nodes`, `DCAwareSelector::select_nodes`, the
selector actor).  All statements are for every layout (any number of data centres and nodes,
distinct names, unique addresses), every cursor state — i.e. every history of earlier selections —
every local node position and every outcome of the random `choose_multiple`.
-/
import Datacake.Lemmas.Selector
import Datacake.Lemmas.SelectorSweep

namespace Datacake.C15
open Datacake.Selector

/-- What the random `choose_multiple(&mut rng, n)` can return when more than `n` data centres are
eligible: `n` distinct data centres of the layout. -/
structure GoodChoice (dcs : Dcs) (n : Nat) (choice : List Nat) : Prop where
  nodup : choice.Nodup
  len : choice.length = n
  present : ∀ d ∈ choice, ∃ c, getDc dcs d = some c

theorem fold_inv (local_ n : Nat) (dcs0 : Dcs) (wf : WF dcs0) :
    ∀ (ds : List Nat) (st : LoopSt) (P : List Nat), LoopInv local_ n dcs0 st P ds →
      ∃ P', LoopInv local_ n dcs0 (ds.foldl (loopStep local_) st) P' [] := by
  intro ds
  induction ds with
  | nil => intro st P h; exact ⟨P, h⟩
  | cons d ds ih =>
    intro st P h
    exact ih _ _ (loopStep_inv local_ n dcs0 wf st P d ds h)

theorem getDc_of_mem (dcs : Dcs) (d : Nat) (c : Cycler) (h : (d, c) ∈ dcs) : ∃ c', getDc dcs d = some c' := by
  induction dcs with
  | nil => cases h
  | cons p ps ih =>
    obtain ⟨d0, c0⟩ := p
    unfold getDc
    by_cases e : d0 = d
    · exact ⟨c0, by rw [if_pos e]⟩
    · rw [if_neg e]
      rcases List.mem_cons.1 h with h | h
      · injection h with h1 _; exact absurd h1.symm e
      · exact ih h

/-- Length of the eligible list: the local data centre is removed exactly once when it may be
skipped. -/
theorem filtered_length (dcs : Dcs) (hids : (dcs.map (·.1)).Nodup) (localDc : Nat) (skip : Bool)
    (hl : ∃ c, getDc dcs localDc = some c) :
    ((dcs.filter (fun p => !(skip && p.1 == localDc))).map (·.1)).length =
      if skip then dcs.length - 1 else dcs.length := by
  cases skip with
  | false => simp
  | true =>
    simp only [Bool.true_and, List.length_map, if_true]
    obtain ⟨c, hc⟩ := hl
    induction dcs with
    | nil => simp [getDc] at hc
    | cons p ps ih =>
      obtain ⟨d0, c0⟩ := p
      simp only [List.map_cons, List.nodup_cons] at hids
      unfold getDc at hc
      by_cases e : d0 = localDc
      · subst e
        have hall : ps.filter (fun p => !(p.1 == d0)) = ps := by
          apply List.filter_eq_self.2
          intro q hq
          have : q.1 ≠ d0 := fun e => hids.1 (List.mem_map.2 ⟨q, hq, e⟩)
          simp [this]
        simp [List.filter_cons, hall]
      · rw [if_neg e] at hc
        have := ih hids.2 hc
        have hpos : 0 < ps.length := by
          cases ps with
          | nil => simp [getDc] at hc
          | cons _ _ => simp
        simp [List.filter_cons, e, this]; omega

/-- **selectN_sound**: whatever the cursors are (whatever was selected before) and whatever the
random choice, `select_n_nodes` keeps the layout, never panics, and an `Ok` result consists of
exactly `n` pairwise distinct nodes of the layout, none of them the local node. -/
theorem selectN_sound (local_ localDc n total : Nat) (dcs : Dcs) (choice : List Nat) (wf : WF dcs)
    (hl : ∃ c, getDc dcs localDc = some c)
    (hchoice : GoodChoice dcs n choice) :
    layoutOf (selectN local_ localDc n total dcs choice).2 = layoutOf dcs ∧
    (∀ ns, (selectN local_ localDc n total dcs choice).1 = .ok ns →
      ns.Nodup ∧ local_ ∉ ns ∧ (∀ x ∈ ns, x ∈ allNodes dcs) ∧ ns.length = n) ∧
    (selectN local_ localDc n total dcs choice).1 ≠ .panic ∧
    (∀ live req, (selectN local_ localDc n total dcs choice).1 = .notEnough live req →
      req = n ∧ ((allNodes dcs).filter (· ≠ local_)).length < n) := by
  unfold selectN
  simp only
  generalize hskip : decide (total - (match getDc dcs localDc with
      | some c => c.nodes.length | none => 0) ≥ n) = skip
  have hne : dcs.length ≠ 0 := by
    obtain ⟨c, hc⟩ := hl
    cases dcs with
    | nil => simp [getDc] at hc
    | cons _ _ => simp
  rw [if_neg (by simp [hne])]
  have hflen := filtered_length dcs wf.ids localDc skip hl
  -- the data centres the loop runs over, and the initial invariant
  generalize hsel : (if (if skip = true then dcs.length - 1 else dcs.length) ≤ n then
      (n - (if skip = true then dcs.length - 1 else dcs.length),
        (dcs.filter (fun p => !(skip && p.1 == localDc))).map (·.1))
    else (0, choice)) = init
  obtain ⟨extra0, sdcs⟩ := init
  have hinit : sdcs.Nodup ∧ (∀ d ∈ sdcs, ∃ c, getDc dcs d = some c) ∧ extra0 + sdcs.length = n := by
    by_cases hle : (if skip = true then dcs.length - 1 else dcs.length) ≤ n
    · rw [if_pos hle] at hsel
      injection hsel with h1 h2
      subst h1; subst h2
      refine ⟨?_, ?_, by rw [hflen]; omega⟩
      · exact List.Nodup.sublist (List.Sublist.map _ List.filter_sublist) wf.ids
      · intro d hd
        obtain ⟨p, hp, rfl⟩ := List.mem_map.1 hd
        exact getDc_of_mem dcs p.1 p.2 (List.mem_filter.1 hp).1
    · rw [if_neg hle] at hsel
      injection hsel with h1 h2
      subst h1; subst h2
      exact ⟨hchoice.nodup, hchoice.present, by rw [hchoice.len]; omega⟩
  simp only
  have inv0 : LoopInv local_ n dcs
      { dcs := dcs, selected := [], extra := extra0, dcCount := sdcs.length } [] sdcs :=
    ⟨rfl, rfl, (by simp), List.nodup_nil, fun x hx => (by cases hx), hinit.1,
     fun d hd => ⟨(by simp), hinit.2.1 d hd⟩, Nat.le_refl _, (by simpa using hinit.2.2)⟩
  obtain ⟨P', inv⟩ := fold_inv local_ n dcs wf sdcs _ [] inv0
  generalize sdcs.foldl (loopStep local_) { dcs := dcs, selected := [], extra := extra0, dcCount := sdcs.length } = st at inv
  rw [if_neg (by simp [inv.alive])]
  have hsum := inv.sum
  simp only [List.length_nil, Nat.add_zero] at hsum
  have hselAll : ∀ x ∈ st.selected, x ∈ allNodes dcs := by
    intro x hx
    obtain ⟨d, _, c, hc, hxc⟩ := inv.fromP x hx
    exact (mem_allNodes dcs x).2 ⟨(d, c), getDc_mem dcs d c hc, hxc⟩
  have hall : allNodes st.dcs = allNodes dcs := allNodes_of_layout _ _ inv.layout
  obtain ⟨s1, s2, s3, s4, s5, s6⟩ := sweep_spec local_ n st.dcs st.selected inv.nodup inv.noLocal
  refine ⟨?_, ?_, ?_, ?_⟩
  · split
    · exact inv.layout
    · split <;> exact s1.trans inv.layout
  · intro ns hns
    split at hns
    · rename_i hge
      injection hns with hns; subst hns
      exact ⟨inv.nodup, inv.noLocal, hselAll, by omega⟩
    · rename_i hlt
      split at hns
      · rename_i hge
        injection hns with hns; subst hns
        refine ⟨s2, s3, ?_, ?_⟩
        · intro x hx
          rcases s4 x hx with h | h
          · exact hselAll x h
          · rw [← hall]; exact h
        · have := s6 (by omega); omega
      · cases hns
  · split
    · intro h; cases h
    · split <;> (intro h; cases h)
  · intro live req hne
    split at hne
    · cases hne
    · split at hne
      · cases hne
      · rename_i hlt hshort
        injection hne with h1 h2
        refine ⟨h2.symm, ?_⟩
        have hcov := sweep_covers local_ n st.dcs st.selected inv.nodup inv.noLocal (by omega)
        have hsub : ∀ x ∈ (allNodes dcs).filter (· ≠ local_), x ∈ (sweep local_ n st.dcs st.selected).2 := by
          intro x hx
          obtain ⟨hx1, hx2⟩ := List.mem_filter.1 hx
          exact hcov x (by rw [hall]; exact hx1) (by simpa using hx2)
        have := nodup_subset_length _ _ (List.Nodup.sublist List.filter_sublist wf.addrs) hsub
        omega

/-- **selectN_complete**: `select_n_nodes` reports `NotEnoughNodes` only when the layout really
holds fewer than `n` nodes other than the local one — whatever the cursors and the random choice. -/
theorem selectN_complete (local_ localDc n total : Nat) (dcs : Dcs) (choice : List Nat) (wf : WF dcs)
    (hl : ∃ c, getDc dcs localDc = some c) (hchoice : GoodChoice dcs n choice) (live req : Nat)
    (h : (selectN local_ localDc n total dcs choice).1 = .notEnough live req) :
    req = n ∧ ((allNodes dcs).filter (· ≠ local_)).length < n :=
  (selectN_sound local_ localDc n total dcs choice wf hl hchoice).2.2.2 live req h

/-- Contrapositive, in the property's words: with at least `n` other live nodes the selection
succeeds (and by `selectN_sound` returns exactly `n` distinct live peers). -/
theorem selectN_enough (local_ localDc n total : Nat) (dcs : Dcs) (choice : List Nat) (wf : WF dcs)
    (hl : ∃ c, getDc dcs localDc = some c) (hchoice : GoodChoice dcs n choice)
    (henough : n ≤ ((allNodes dcs).filter (· ≠ local_)).length) :
    ∃ ns, (selectN local_ localDc n total dcs choice).1 = .ok ns := by
  cases hr : (selectN local_ localDc n total dcs choice).1 with
  | ok ns => exact ⟨ns, rfl⟩
  | notEnough live req =>
    have := (selectN_complete local_ localDc n total dcs choice wf hl hchoice live req hr).2
    omega
  | panic => exact absurd hr (selectN_sound local_ localDc n total dcs choice wf hl hchoice).2.2.1

/-! ### The other consistency levels -/

theorem heads_tails_perm (its : List (List Nat)) :
    (its.filterMap List.head? ++ (its.map List.tail).flatten).Perm its.flatten := by
  induction its with
  | nil => exact List.Perm.refl _
  | cons l ls ih =>
    cases l with
    | nil =>
      simp only [List.filterMap_cons, List.head?_nil, List.map_cons, List.tail_nil, List.flatten_cons,
        List.nil_append]
      exact ih
    | cons x xs =>
      simp only [List.filterMap_cons, List.head?_cons, List.map_cons, List.tail_cons,
        List.flatten_cons, List.cons_append]
      refine List.Perm.cons x ?_
      -- heads ++ (xs ++ tails)  ~  xs ++ (heads ++ tails)
      have h1 : (ls.filterMap List.head? ++ (xs ++ (ls.map List.tail).flatten)).Perm
          (xs ++ (ls.filterMap List.head? ++ (ls.map List.tail).flatten)) := by
        rw [← List.append_assoc, ← List.append_assoc]
        exact List.Perm.append_right _ List.perm_append_comm
      exact h1.trans (List.Perm.append_left xs ih)

/-- The `Quorum` round-robin only ever moves nodes from the per-data-centre lists to the result. -/
theorem quorumLoop_perm : ∀ (fuel : Nat) (its : List (List Nat)) (sel : List Nat) (majority : Nat) (ns : List Nat),
    quorumLoop fuel its sel majority = .ok ns →
      ns.length ≥ majority ∧ ∃ rest, (ns ++ rest).Perm (sel ++ its.flatten) := by
  intro fuel
  induction fuel with
  | zero => intro its sel m ns h; simp [quorumLoop] at h
  | succ fuel ih =>
    intro its sel m ns h
    unfold quorumLoop at h
    split at h
    · rename_i hge
      injection h with h; subst h
      exact ⟨hge, its.flatten, List.Perm.refl _⟩
    · simp only at h
      split at h
      · cases h
      · obtain ⟨h1, rest, h2⟩ := ih _ _ _ _ h
        refine ⟨h1, rest, h2.trans ?_⟩
        rw [List.append_assoc]
        exact List.Perm.append_left sel (heads_tails_perm its)

theorem filter_ne_sublist_flatten (dcs : Dcs) (local_ : Nat) :
    ((dcs.map (fun p => p.2.nodes.filter (· ≠ local_))).flatten).Sublist (allNodes dcs) := by
  unfold allNodes
  induction dcs with
  | nil => exact List.Sublist.refl _
  | cons p ps ih =>
    simp only [List.map_cons, List.flatten_cons]
    exact List.Sublist.append List.filter_sublist ih

theorem take_filter_sublist_flatten (dcs : Dcs) (local_ : Nat) (f : Nat × Cycler → Nat) :
    ((dcs.map (fun p => (p.2.nodes.filter (· ≠ local_)).take (f p))).flatten).Sublist (allNodes dcs) := by
  unfold allNodes
  induction dcs with
  | nil => exact List.Sublist.refl _
  | cons p ps ih =>
    simp only [List.map_cons, List.flatten_cons]
    exact List.Sublist.append ((List.take_sublist _ _).trans List.filter_sublist) ih

theorem not_mem_filter_flatten (dcs : Dcs) (local_ : Nat) (f : Nat × Cycler → Nat) :
    local_ ∉ (dcs.map (fun p => (p.2.nodes.filter (· ≠ local_)).take (f p))).flatten := by
  intro h
  obtain ⟨l, hl, hx⟩ := List.mem_flatten.1 h
  obtain ⟨p, _, rfl⟩ := List.mem_map.1 hl
  have := List.mem_of_mem_take hx
  simp at this

/-- Number of nodes the level requires (other than the issuing node): `n` for One/Two/Three,
`total / 2` for Quorum (a majority counting the issuer), half of the local data centre for
LocalQuorum, every other member for All; EachQuorum is per data centre (see `each_quorum_sound`). -/
def required (lvl : Level) (local_ localDc total : Nat) (dcs : Dcs) : Nat :=
  match lvl with
  | .none => 0
  | .one => 1 | .two => 2 | .three => 3
  | .quorum => total / 2
  | .localQuorum => match getDc dcs localDc with | some c => c.nodes.length / 2 | none => 0
  | .all => ((allNodes dcs).filter (· ≠ local_)).length
  | .eachQuorum => 0

theorem filter_ne_length (l : List Nat) (a : Nat) (h : l.Nodup) : (l.filter (· ≠ a)).length + 1 ≥ l.length := by
  induction l with
  | nil => simp
  | cons x xs ih =>
    simp only [List.nodup_cons] at h
    by_cases e : x = a
    · subst e
      have hall : xs.filter (· ≠ x) = xs := by
        apply List.filter_eq_self.2
        intro y hy
        have : y ≠ x := fun e => h.1 (e ▸ hy)
        simp [this]
      have hx : decide (x ≠ x) = false := by simp
      rw [List.filter_cons, hx]
      simp only [Bool.false_eq_true, if_false]
      rw [hall]; simp
    · have := ih h.2
      have hx : decide (x ≠ a) = true := by simp [e]
      rw [List.filter_cons, hx]
      simp only [if_true, List.length_cons]; omega

theorem quorumLoop_ne_panic : ∀ (fuel : Nat) (its : List (List Nat)) (sel : List Nat) (m : Nat),
    quorumLoop fuel its sel m ≠ .panic := by
  intro fuel
  induction fuel with
  | zero => intro its sel m h; simp [quorumLoop] at h
  | succ fuel ih =>
    intro its sel m h
    unfold quorumLoop at h
    split at h
    · cases h
    · simp only at h
      split at h
      · cases h
      · exact ih _ _ _ h

/-- **select_sound**: for every layout, local position, level, cursor state and random choice, a
successful selection has no duplicates, does not contain the local node, contains only nodes of
the installed layout, and is at least as large as the level requires (exactly `n` for
One/Two/Three); the layout itself is never changed by a selection. -/
theorem select_sound (local_ localDc total : Nat) (dcs : Dcs) (lvl : Level) (choice : List Nat)
    (wf : WF dcs) (hl : ∃ c, getDc dcs localDc = some c)
    (hchoice : ∀ n, (lvl = .one → n = 1) → (lvl = .two → n = 2) → (lvl = .three → n = 3) →
      (lvl = .one ∨ lvl = .two ∨ lvl = .three) → GoodChoice dcs n choice) :
    layoutOf (selectNodes local_ localDc total dcs lvl choice).2 = layoutOf dcs ∧
    (selectNodes local_ localDc total dcs lvl choice).1 ≠ .panic ∧
    ∀ ns, (selectNodes local_ localDc total dcs lvl choice).1 = .ok ns →
      ns.Nodup ∧ local_ ∉ ns ∧ (∀ x ∈ ns, x ∈ allNodes dcs) ∧
      ns.length ≥ required lvl local_ localDc total dcs ∧
      ((lvl = .one ∨ lvl = .two ∨ lvl = .three) → ns.length = required lvl local_ localDc total dcs) := by
  have hnodupAll := wf.addrs
  cases lvl with
  | one =>
    obtain ⟨h1, h2, h3, _⟩ := selectN_sound local_ localDc 1 total dcs choice wf hl
      (hchoice 1 (fun _ => rfl) (fun h => by cases h) (fun h => by cases h) (Or.inl rfl))
    exact ⟨h1, h3, fun ns hns => by
      obtain ⟨a, b, c, d⟩ := h2 ns hns
      exact ⟨a, b, c, by simp [required, d], fun _ => by simp [required, d]⟩⟩
  | two =>
    obtain ⟨h1, h2, h3, _⟩ := selectN_sound local_ localDc 2 total dcs choice wf hl
      (hchoice 2 (fun h => by cases h) (fun _ => rfl) (fun h => by cases h) (Or.inr (Or.inl rfl)))
    exact ⟨h1, h3, fun ns hns => by
      obtain ⟨a, b, c, d⟩ := h2 ns hns
      exact ⟨a, b, c, by simp [required, d], fun _ => by simp [required, d]⟩⟩
  | three =>
    obtain ⟨h1, h2, h3, _⟩ := selectN_sound local_ localDc 3 total dcs choice wf hl
      (hchoice 3 (fun h => by cases h) (fun h => by cases h) (fun _ => rfl) (Or.inr (Or.inr rfl)))
    exact ⟨h1, h3, fun ns hns => by
      obtain ⟨a, b, c, d⟩ := h2 ns hns
      exact ⟨a, b, c, by simp [required, d], fun _ => by simp [required, d]⟩⟩
  | none =>
    refine ⟨rfl, by simp [selectNodes], ?_⟩
    intro ns hns
    simp only [selectNodes] at hns
    injection hns with hns; subst hns
    exact ⟨List.nodup_nil, by simp, by simp, by simp [required], fun h => by simp at h⟩
  | quorum =>
    refine ⟨rfl, ?_, ?_⟩
    · simp only [selectNodes]
      exact quorumLoop_ne_panic _ _ _ _
    · intro ns hns
      simp only [selectNodes] at hns
      obtain ⟨hlen, rest, hperm⟩ := quorumLoop_perm _ _ _ _ _ hns
      simp only [List.nil_append] at hperm
      have hsub := filter_ne_sublist_flatten dcs local_
      have hnd : (ns ++ rest).Nodup := hperm.nodup_iff.2 (List.Nodup.sublist hsub hnodupAll)
      have hmem : ∀ x ∈ ns, x ∈ (dcs.map (fun p => p.2.nodes.filter (· ≠ local_))).flatten :=
        fun x hx => hperm.mem_iff.1 (List.mem_append_left _ hx)
      refine ⟨(List.nodup_append.1 hnd).1, ?_, fun x hx => hsub.subset (hmem x hx), by simpa [required] using hlen,
        fun h => by simp at h⟩
      intro hloc
      obtain ⟨l, hl', hx⟩ := List.mem_flatten.1 (hmem _ hloc)
      obtain ⟨p, _, rfl⟩ := List.mem_map.1 hl'
      simp at hx
  | localQuorum =>
    refine ⟨by simp only [selectNodes]; split <;> rfl, by simp only [selectNodes]; split <;> simp, ?_⟩
    intro ns hns
    simp only [selectNodes] at hns
    obtain ⟨c, hc⟩ := hl
    rw [hc] at hns
    injection hns with hns; subst hns
    have hcn := nodup_of_dc dcs wf localDc c hc
    have hsub : ((c.nodes.filter (· ≠ local_)).take (c.nodes.length / 2)).Sublist c.nodes :=
      (List.take_sublist _ _).trans List.filter_sublist
    refine ⟨List.Nodup.sublist hsub hcn, ?_, ?_, ?_, fun h => by simp at h⟩
    · intro h; have := List.mem_of_mem_take h; simp at this
    · intro x hx
      exact (mem_allNodes dcs x).2 ⟨(localDc, c), getDc_mem dcs localDc c hc, hsub.subset hx⟩
    · simp only [required, hc, List.length_take]
      have := filter_ne_length c.nodes local_ hcn
      omega
  | all =>
    refine ⟨rfl, by simp [selectNodes], ?_⟩
    intro ns hns
    simp only [selectNodes] at hns
    injection hns with hns; subst hns
    refine ⟨List.Nodup.sublist List.filter_sublist hnodupAll,
      fun h => by have := (List.mem_filter.1 h).2; simp at this, ?_, by simp [required, allNodes],
      fun h => by simp at h⟩
    intro x hx
    exact (List.mem_filter.1 hx).1
  | eachQuorum =>
    refine ⟨rfl, by simp [selectNodes], ?_⟩
    intro ns hns
    simp only [selectNodes] at hns
    injection hns with hns; subst hns
    have hsub := take_filter_sublist_flatten dcs local_
      (fun p => if p.1 = localDc then p.2.nodes.length / 2 else p.2.nodes.length / 2 + 1)
    exact ⟨List.Nodup.sublist hsub hnodupAll, not_mem_filter_flatten dcs local_ _,
      fun x hx => hsub.subset hx, by simp [required], fun h => by simp at h⟩

/-! ### Membership updates: nodes and data centres that left are never selected again -/

theorem wf_of_layout (a b : Dcs) (h : layoutOf a = layoutOf b) (wf : WF b) : WF a :=
  ⟨by rw [ids_of_layout a b h]; exact wf.ids, by rw [allNodes_of_layout a b h]; exact wf.addrs⟩

theorem goodChoice_of_layout (a b : Dcs) (h : layoutOf a = layoutOf b) (n : Nat) (ch : List Nat)
    (g : GoodChoice b n ch) : GoodChoice a n ch :=
  ⟨g.nodup, g.len, fun d hd => by
    obtain ⟨c, hc⟩ := g.present d hd
    obtain ⟨c', hc', _⟩ := getDc_of_layout b a h.symm d c hc
    exact ⟨c', hc'⟩⟩

/-- A request to the actor: level, whether a cached answer younger than 2 s may be used, and the
outcome of the random choice. -/
structure Get where
  lvl : Level
  fresh : Bool
  choice : List Nat

def ChoiceOk (dcs : Dcs) (g : Get) : Prop :=
  ∀ n, (g.lvl = .one → n = 1) → (g.lvl = .two → n = 2) → (g.lvl = .three → n = 3) →
    (g.lvl = .one ∨ g.lvl = .two ∨ g.lvl = .three) → GoodChoice dcs n g.choice

/-- Answers of the actor to a list of requests. -/
def runGets (a : Actor) : List Get → List Res
  | [] => []
  | g :: gs => (getNodes a g.lvl g.fresh g.choice).1 :: runGets (getNodes a g.lvl g.fresh g.choice).2 gs

/-- Actor invariant between two membership updates. -/
structure ActorInv (a : Actor) (dcs0 : Dcs) : Prop where
  layout : layoutOf a.dcs = layoutOf dcs0
  cache : ∀ lvl ns, cacheGet a.cache lvl = some ns → ∀ x ∈ ns, x ∈ allNodes dcs0

theorem cacheGet_filter_ne (cache : List (Level × List Nat)) (l l' : Level) (h : l ≠ l') :
    cacheGet (cache.filter (fun p => p.1 ≠ l)) l' = cacheGet cache l' := by
  induction cache with
  | nil => rfl
  | cons p ps ih =>
    obtain ⟨l0, n0⟩ := p
    by_cases e : l0 = l
    · subst e
      have hd : decide (l0 ≠ l0) = false := by simp
      rw [List.filter_cons]
      simp only [hd, Bool.false_eq_true, if_false]
      rw [ih]
      simp only [cacheGet, if_neg h]
    · have hd : decide (l0 ≠ l) = true := by simp [e]
      rw [List.filter_cons]
      simp only [hd, if_true, cacheGet, ih]

theorem cacheGet_cons_filter (cache : List (Level × List Nat)) (l l' : Level) (ns : List Nat) :
    cacheGet ((l, ns) :: cache.filter (fun p => p.1 ≠ l)) l' =
      if l = l' then some ns else cacheGet cache l' := by
  by_cases h : l = l'
  · simp [cacheGet, h]
  · simp only [cacheGet, if_neg h]
    exact cacheGet_filter_ne cache l l' h

/-- **after_update_only_current**: after a membership update installed the layout `dcs0`, every
later answer of the actor — freshly computed or served from its cache, whatever was selected in
between — consists of nodes of `dcs0` only: nodes, and whole data centres, that left are never
selected again (`setNodes` rebuilds the map, so `dcs0` contains exactly the updated layout). -/
theorem after_update_only_current (a : Actor) (dcs0 : Dcs) (wf : WF dcs0)
    (hl : ∃ c, getDc dcs0 a.localDc = some c) (inv : ActorInv a dcs0)
    (gets : List Get) (hch : ∀ g ∈ gets, ChoiceOk dcs0 g) :
    ∀ r ∈ runGets a gets, ∀ ns, r = .ok ns → ∀ x ∈ ns, x ∈ allNodes dcs0 := by
  induction gets generalizing a with
  | nil => intro r hr; cases hr
  | cons g gs ih =>
    intro r hr ns hns x hx
    have hwf := wf_of_layout a.dcs dcs0 inv.layout wf
    have hl' : ∃ c, getDc a.dcs a.localDc = some c := by
      obtain ⟨c, hc⟩ := hl
      obtain ⟨c', hc', _⟩ := getDc_of_layout dcs0 a.dcs inv.layout.symm _ c hc
      exact ⟨c', hc'⟩
    have hgc : ChoiceOk a.dcs g := fun n h1 h2 h3 h4 =>
      goodChoice_of_layout a.dcs dcs0 inv.layout n g.choice (hch g List.mem_cons_self n h1 h2 h3 h4)
    obtain ⟨s1, _, s3⟩ := select_sound a.local_ a.localDc a.total a.dcs g.lvl g.choice hwf hl' hgc
    -- one request: its answer and the invariant afterwards
    have step : (∀ ns, (getNodes a g.lvl g.fresh g.choice).1 = .ok ns → ∀ x ∈ ns, x ∈ allNodes dcs0) ∧
        ActorInv (getNodes a g.lvl g.fresh g.choice).2 dcs0 ∧
        (getNodes a g.lvl g.fresh g.choice).2.localDc = a.localDc := by
      unfold getNodes
      cases hc : (if g.fresh = true then cacheGet a.cache g.lvl else none) with
      | some cached =>
        simp only
        refine ⟨?_, inv, by first | rfl | trivial⟩
        intro ns hns
        injection hns with hns; subst hns
        by_cases hf : g.fresh = true
        · rw [if_pos hf] at hc; exact inv.cache g.lvl _ hc
        · rw [if_neg hf] at hc; cases hc
      | none =>
        simp only
        cases hsel : selectNodes a.local_ a.localDc a.total a.dcs g.lvl g.choice with
        | mk res dcs' =>
          have hlay : layoutOf dcs' = layoutOf a.dcs := by rw [hsel] at s1; exact s1
          have hsub : ∀ ns, res = .ok ns → ∀ x ∈ ns, x ∈ allNodes dcs0 := by
            intro ns hns x hx
            have := (s3 ns (by rw [hsel]; exact hns)).2.2.1 x hx
            rw [allNodes_of_layout a.dcs dcs0 inv.layout] at this; exact this
          cases res with
          | ok ns0 =>
            simp only
            refine ⟨fun ns hns => hsub ns hns, ⟨hlay.trans inv.layout, ?_⟩, by first | rfl | trivial⟩
            intro lvl ns hget
            rw [cacheGet_cons_filter] at hget
            split at hget
            · injection hget with hget; subst hget; exact hsub _ rfl
            · exact inv.cache lvl ns hget
          | notEnough l r =>
            simp only
            exact ⟨fun ns hns => (by cases hns), ⟨hlay.trans inv.layout, inv.cache⟩, by first | rfl | trivial⟩
          | panic =>
            simp only
            exact ⟨fun ns hns => (by cases hns), ⟨hlay.trans inv.layout, inv.cache⟩, by first | rfl | trivial⟩
    simp only [runGets, List.mem_cons] at hr
    rcases hr with rfl | hr
    · exact step.1 ns hns x hx
    · exact ih _ (by rw [step.2.2]; exact hl) step.2.1 (fun g' hg' => hch g' (List.mem_cons_of_mem _ hg')) r hr ns hns x hx

/-- The state right after `SetNodes` satisfies the actor invariant (empty cache). -/
theorem setNodes_inv (a : Actor) (layout : List (Nat × List Nat)) :
    ActorInv (setNodes a layout) (setNodes a layout).dcs :=
  ⟨rfl, fun lvl ns h => by simp [setNodes, cacheGet] at h⟩

/-! ### Witnesses -/

/-- Defect D11 of the pinned tree (fixed): on a single data centre `{local, 11, 12}`, `One` followed
by `Two` failed with `NotEnoughNodes {live: 1, required: 2}` although two other live nodes exist:
the extra-node loop skips a candidate (local or already selected) without trying the next one.
`selectNLegacy` is the pinned function (no fallback sweep); the current one finds both. -/
theorem extra_skip_counterexample :
    let dcs : Dcs := [(0, ⟨0, [1, 11, 12]⟩)]
    let r1 := selectNLegacy 1 0 1 3 dcs []
    let r2 := selectNLegacy 1 0 2 3 r1.2 []
    r1.1 = .ok [11] ∧ r2.1 = .notEnough 1 2 ∧
    (selectN 1 0 2 3 (selectN 1 0 1 3 dcs []).2 []).1 = .ok [12, 11] := by
  decide

/-- Defect D10 of the pinned tree: a data centre that left the membership stays in the map and is
still selected (`All` after an update that dropped data centre 1); the current `setNodes` rebuilds
the map. -/
theorem legacy_dc_leak :
    let a0 := setNodesLegacy { local_ := 1, localDc := 0 } [(0, [1, 10]), (1, [11])]
    let a1 := setNodesLegacy a0 [(0, [1, 10])]
    let b1 := setNodes (setNodes { local_ := 1, localDc := 0 } [(0, [1, 10]), (1, [11])]) [(0, [1, 10])]
    (getNodes a1 .all false []).1 = .ok [10, 11] ∧ (getNodes b1 .all false []).1 = .ok [10] := by
  decide

/-- Non-vacuity: a concrete well-formed two-data-centre layout with rotated cursors. -/
example : WF [(0, ⟨2, [1, 10, 11]⟩), (1, ⟨1, [20, 21]⟩)] ∧
    GoodChoice [(0, ⟨2, [1, 10, 11]⟩), (1, ⟨1, [20, 21]⟩)] 1 [1] := by
  refine ⟨⟨by decide, by decide⟩, ⟨by decide, rfl, ?_⟩⟩
  intro d hd
  simp only [List.mem_singleton] at hd
  subst hd; exact ⟨_, rfl⟩

end Datacake.C15
