/-
C07 — A restarted node rebuilds exactly what storage holds; acked writes survive.

Model: `Keyspace.loadFromStorage` (`KeyspaceGroup::load_states_from_storage`: metadata rows sorted
by stamp, replayed with `insert` / `delete` on source 0 into an empty two-source set).
A crash is modelled on the *process state*: whatever the store holds at that moment — after a
request, or between the storage write and the set update inside one — the restarted node's set is
`loadFromStorage store`.
-/
import Datacake.Props.C02

namespace Datacake.C07
open Datacake.Lww Datacake.OrSwot Datacake.Storage Datacake.Keyspace Datacake.Ts

/-- While only source 0 has been used, the safe cut-off of every origin is the smallest stamp of
that origin: nothing is ever "before the last observed event". -/
structure OnlySrc0 (s : OrSwot) : Prop where
  shape : ∃ m0, s.maxs = [m0, []]
  nodes : ∀ n v, (s.maxs.headD []).get n = some v → node v = n
  safe : ∀ n v, Map.get s.safe n = some v → v = n ∧ n < 256

theorem onlySrc0_empty : OnlySrc0 (OrSwot.empty 2) :=
  ⟨⟨[], rfl⟩, fun n v h => by simp [OrSwot.empty] at h, fun n v h => by simp [OrSwot.empty] at h⟩

theorem notBefore_of_onlySrc0 (s : OrSwot) (h : OnlySrc0 s) (t : Nat) : isBefore s.safe t = false := by
  unfold isBefore
  cases hg : Map.get s.safe (node t) with
  | none => rfl
  | some v =>
    obtain ⟨hv, _⟩ := h.safe _ _ hg
    simp only [decide_eq_false_iff_not]
    rw [hv]; unfold node; omega

theorem forgive_node (F n : Nat) (hn : n < 256) : forgive F n = n := by
  unfold forgive
  have h1 : dts n = 0 := by unfold dts partsAsDuration seconds fractional; omega
  have h2 : counter n = 0 := by unfold counter; omega
  have h3 : node n = n := by unfold node; omega
  rw [h1, h2, h3]
  split <;> (unfold pack durSecs durFrac; omega)

/-- Acceptance on source 0 keeps `OnlySrc0`. -/
theorem onlySrc0_tryUpdate (F : Nat) (s : OrSwot) (ts : Nat) (h : OnlySrc0 s) (maxs' : List Map) (safe' : Map)
    (hu : tryUpdateMax F s 0 ts = some (maxs', safe')) :
    OnlySrc0 { s with maxs := maxs', safe := safe' } := by
  obtain ⟨m0, hm⟩ := h.shape
  unfold tryUpdateMax at hu
  rw [notBefore_of_onlySrc0 s h ts] at hu
  simp only [Bool.false_eq_true, if_false, Option.some.injEq, Prod.mk.injEq] at hu
  obtain ⟨h1, h2⟩ := hu
  rw [hm] at h1 h2
  simp only [modifyNth] at h1 h2
  have hnodes0 : ∀ n v, Map.get m0 n = some v → node v = n := by
    intro n v hv; have := h.nodes n v; rw [hm] at this; exact this hv
  obtain ⟨M, rfl⟩ : ∃ M, maxs' = [M, []] := ⟨_, h1.symm⟩
  have hMeq := (List.cons.inj h1).1
  rw [hMeq] at h2
  have hnodesM : ∀ n v, Map.get M n = some v → node v = n := by
    intro n v hv
    rw [← hMeq] at hv
    split at hv
    · split at hv
      · rw [Map.get_set] at hv
        split at hv
        · rename_i e; injection hv with hv; rw [← hv, e]
        · exact hnodes0 n v hv
      · exact hnodes0 n v hv
    · rw [Map.get_set] at hv
      split at hv
      · rename_i e; injection hv with hv; rw [← hv, e]
      · exact hnodes0 n v hv
  refine ⟨⟨M, rfl⟩, fun n v hv => hnodesM n v hv, ?_⟩
  intro n v hv
  simp only at hv
  rw [← h2] at hv
  unfold computeSafe at hv
  simp only [List.map_cons, List.map_nil, Map.get_nil, Option.getD_none] at hv
  rw [Map.get_set] at hv
  have hnt := node_lt ts
  split at hv
  · rename_i e
    injection hv with hv
    have hp : pack 0 0 (node ts) = node ts := by unfold pack durSecs durFrac; omega
    have hmin : minList ((Map.get M (node ts)).getD (pack 0 0 (node ts))) [pack 0 0 (node ts)] = node ts := by
      simp only [minList, List.foldl_cons, List.foldl_nil, hp]
      cases hg : Map.get M (node ts) with
      | none => simp
      | some w =>
        have := hnodesM _ _ hg
        simp only [Option.getD_some]
        unfold node at this ⊢; omega
    rw [hmin, forgive_node F _ hnt] at hv
    exact ⟨by rw [← hv, e], by rw [e]; exact hnt⟩
  · exact h.safe n v hv

theorem onlySrc0_applyOp (F : Nat) (s : OrSwot) (o : Op) (h : OnlySrc0 s) :
    OnlySrc0 (applyOp F s ⟨0, o⟩).1 := by
  have hnb := notBefore_of_onlySrc0 s h o.ts
  cases htv : tryUpdateMax F s 0 o.ts with
  | none => unfold tryUpdateMax at htv; simp [hnb] at htv
  | some p =>
    obtain ⟨maxs', safe'⟩ := p
    have h' := onlySrc0_tryUpdate F s o.ts h maxs' safe' htv
    unfold applyOp insertWithSource deleteWithSource
    simp only [htv]
    split
    · obtain ⟨e1, e2⟩ := deleteCore_versions { s with maxs := maxs', safe := safe' } o.key o.ts
      exact ⟨by rw [e1]; exact h'.shape, by rw [e1]; exact h'.nodes, by rw [e2]; exact h'.safe⟩
    · obtain ⟨e1, e2⟩ := insertCore_versions { s with maxs := maxs', safe := safe' } o.key o.ts
      exact ⟨by rw [e1]; exact h'.shape, by rw [e1]; exact h'.nodes, by rw [e2]; exact h'.safe⟩

/-- Every replay on source 0 from an empty set is accepted, in any order. -/
theorem accepted_src0 (F : Nat) (ops : List Op) (s : OrSwot) (h : OnlySrc0 s) :
    C04.Accepted F s (ops.map (fun o => ⟨0, o⟩)) := by
  induction ops generalizing s with
  | nil => trivial
  | cons o os ih =>
    exact ⟨notBefore_of_onlySrc0 s h o.ts, ih _ (onlySrc0_applyOp F s o h)⟩

/-- The metadata rows of a keyspace as operations. -/
def rowOps (rows : List (Nat × (Nat × Bool))) : List Op := rows.map (fun p => ⟨p.1, p.2.1, p.2.2⟩)

/-- What the reload computes, for any order of the rows (`sorted` is a permutation of the rows). -/
theorem load_view (F : Nat) (ops : List Op) (hnd : (ops.map (·.key)).Nodup) (k : Nat) :
    (∀ o ∈ ops, o.key = k → view (applyAll F (OrSwot.empty 2) (ops.map (fun o => ⟨0, o⟩))) k = some (rank o)) ∧
    ((∀ o ∈ ops, o.key ≠ k) → view (applyAll F (OrSwot.empty 2) (ops.map (fun o => ⟨0, o⟩))) k = none) ∧
    Disj (applyAll F (OrSwot.empty 2) (ops.map (fun o => ⟨0, o⟩))) := by
  obtain ⟨hv, hdj⟩ := C04.apply_ops_lww_from F _ (OrSwot.empty 2) (C04.disj_empty 2)
    (accepted_src0 F ops _ onlySrc0_empty)
  have hmap : (ops.map (fun o => (⟨0, o⟩ : SrcOp))).map (·.op) = ops := by
    rw [List.map_map]; exact List.map_id'' (fun _ => rfl) ops
  rw [hmap] at hv
  obtain ⟨h1, h2⟩ := C02.lwwFrom_nodup (view (OrSwot.empty 2) k) ops k hnd
  have hve : view (OrSwot.empty 2) k = none := rfl
  refine ⟨?_, ?_, hdj⟩
  · intro o ho hk; rw [hv k, h1 o ho hk, hve]; rfl
  · intro hno; rw [hv k, h2 hno, hve]

theorem ins_perm (x : Nat × Nat × Bool) (l : List (Nat × Nat × Bool)) :
    (loadFromStorage.ins x l).Perm (x :: l) := by
  induction l with
  | nil => exact List.Perm.refl _
  | cons y ys ih =>
    unfold loadFromStorage.ins
    split
    · exact List.Perm.refl _
    · exact (List.Perm.cons y ih).trans (List.Perm.swap x y ys)

theorem sorted_perm (l : List (Nat × Nat × Bool)) :
    (l.foldr (fun x acc => loadFromStorage.ins x acc) []).Perm l := by
  induction l with
  | nil => exact List.Perm.refl _
  | cons x xs ih =>
    simp only [List.foldr_cons]
    exact (ins_perm x _).trans (List.Perm.cons x ih)

theorem aget_of_mem {α : Type} (m : List (Nat × α)) (hnd : (m.map (·.1)).Nodup) (k : Nat) (v : α)
    (h : (k, v) ∈ m) : aget m k = some v := by
  induction m with
  | nil => cases h
  | cons p ps ih =>
    obtain ⟨a, b⟩ := p
    simp only [List.map_cons, List.nodup_cons] at hnd
    unfold aget
    rcases List.mem_cons.1 h with e | e
    · injection e with e1 e2; subst e1; subst e2; simp
    · have : a ≠ k := fun e' => hnd.1 (List.mem_map.2 ⟨(k, v), e, e'.symm⟩)
      rw [if_neg this]; exact ih hnd.2 e

theorem mem_of_aget {α : Type} (m : List (Nat × α)) (k : Nat) (v : α) (h : aget m k = some v) : (k, v) ∈ m := by
  induction m with
  | nil => simp [aget] at h
  | cons p ps ih =>
    obtain ⟨a, b⟩ := p
    unfold aget at h
    split at h
    · rename_i e; injection h with h; subst e; subst h; exact List.mem_cons_self
    · exact List.mem_cons_of_mem _ (ih h)

/-- The metadata rows have pairwise distinct ids (a map). -/
def RowsNodup (ks : Storage.Keyspace) : Prop := (ks.rows.map (·.1)).Nodup

/-- **load_exact**: the set rebuilt by `load_states_from_storage` contains exactly the live ids
and tombstones, with the same stamps, that storage holds — nothing else. -/
theorem load_exact (F : Nat) (ks : Storage.Keyspace) (hnd : RowsNodup ks) :
    (∀ k, view (loadFromStorage F ks) k = storeView ks k) ∧ Disj (loadFromStorage F ks) := by
  unfold loadFromStorage
  simp only
  generalize hent : ks.rows.map (fun p => (p.1, p.2.1, p.2.2)) = entries
  have hperm := sorted_perm entries
  generalize entries.foldr (fun x acc => loadFromStorage.ins x acc) [] = sorted at hperm
  -- the fold is `applyAll` of the rows as source-0 operations
  have hfold : sorted.foldl (fun s e =>
      if e.2.2 then (deleteWithSource F s 0 e.1 e.2.1).1 else (insertWithSource F s 0 e.1 e.2.1).1)
      (OrSwot.empty 2) =
      applyAll F (OrSwot.empty 2) ((sorted.map (fun e => (⟨e.1, e.2.1, e.2.2⟩ : Op))).map (fun o => ⟨0, o⟩)) := by
    unfold applyAll
    rw [List.foldl_map, List.foldl_map]
    congr 1
    funext s e
    unfold applyOp
    simp only
    split <;> rfl
  rw [hfold]
  have hkeys : ((sorted.map (fun e => (⟨e.1, e.2.1, e.2.2⟩ : Op))).map (·.key)).Nodup := by
    rw [List.map_map]
    have h1 : (sorted.map ((·.key) ∘ fun e => (⟨e.1, e.2.1, e.2.2⟩ : Op))) = sorted.map (·.1) := rfl
    rw [h1, (hperm.map _).nodup_iff, ← hent, List.map_map]
    exact hnd
  have hmem : ∀ o : Op, o ∈ sorted.map (fun e => (⟨e.1, e.2.1, e.2.2⟩ : Op)) ↔ (o.key, (o.ts, o.isDel)) ∈ ks.rows := by
    intro o
    rw [List.mem_map]
    constructor
    · rintro ⟨e, he, rfl⟩
      have := hperm.mem_iff.1 he
      rw [← hent, List.mem_map] at this
      obtain ⟨p, hp, rfl⟩ := this
      exact hp
    · intro ho
      refine ⟨(o.key, o.ts, o.isDel), hperm.mem_iff.2 ?_, rfl⟩
      rw [← hent, List.mem_map]
      exact ⟨_, ho, rfl⟩
  refine ⟨?_, (load_view F _ hkeys 0).2.2⟩
  intro k
  obtain ⟨v1, v2, _⟩ := load_view F _ hkeys k
  unfold storeView
  cases hg : aget ks.rows k with
  | none =>
    simp only
    apply v2
    intro o ho hk
    have := aget_of_mem ks.rows hnd o.key _ ((hmem o).1 ho)
    rw [hk, hg] at this; cases this
  | some v =>
    obtain ⟨ts, tb⟩ := v
    have hin : (⟨k, ts, tb⟩ : Op) ∈ sorted.map (fun e => (⟨e.1, e.2.1, e.2.2⟩ : Op)) :=
      (hmem ⟨k, ts, tb⟩).2 (mem_of_aget ks.rows k (ts, tb) hg)
    rw [v1 _ hin rfl]
    cases tb <;> rfl

/-- A store that can arise at a crash point: rows form a map and bytes exist exactly for the live
rows.  (Both are kept by every storage write of every handler, complete or partial:
`storeWf_put`, `storeWf_tomb`.) -/
def StoreWf (ks : Storage.Keyspace) : Prop := RowsNodup ks ∧ DataOk ks

theorem nodup_aset {α : Type} (m : List (Nat × α)) (k : Nat) (v : α) (h : (m.map (·.1)).Nodup) :
    ((aset m k v).map (·.1)).Nodup := by
  unfold aset aerase
  simp only [List.map_cons, List.nodup_cons]
  refine ⟨?_, List.Nodup.sublist (List.Sublist.map _ List.filter_sublist) h⟩
  intro hmem
  obtain ⟨p, hp, hk⟩ := List.mem_map.1 hmem
  have := (List.mem_filter.1 hp).2
  simp at this
  exact this hk

theorem storeWf_put (ks : Storage.Keyspace) (d : Doc) (h : StoreWf ks) : StoreWf (storePut ks d) :=
  ⟨nodup_aset _ _ _ h.1, dataOk_put ks d h.2⟩

theorem storeWf_tomb (ks : Storage.Keyspace) (id ts : Nat) (h : StoreWf ks) : StoreWf (storeTomb ks id ts) :=
  ⟨nodup_aset _ _ _ h.1, dataOk_tomb ks id ts h.2⟩

/-- **crash_anywhere**: stop the node at any point — after a request, or between the storage
write and the in-memory update inside one (so the store may be *ahead* of the old set) — and start
it again on the same storage: the rebuilt set agrees with the store as it is. -/
theorem crash_anywhere (F : Nat) (ks : Storage.Keyspace) (h : StoreWf ks) :
    Agree { set := loadFromStorage F ks, store := ks } :=
  ⟨(load_exact F ks h.1).1, (load_exact F ks h.1).2, h.2⟩

/-- **acked_survives**: a `Set` whose handler returned `Ok` has been written to storage (or was
refused because something newer is already recorded), so after a crash at any later moment the
restarted node sees that document or a newer record for its id — as long as later requests keep
the store's record of that id at least as new (which `C02.agree_reachable` + LWW give). -/
theorem acked_survives (F : Nat) (n : Node) (src : Nat) (d : Doc) (h : Agree n)
    (hok : (onSet F n src d false).2 = .ok) (hwf : StoreWf (onSet F n src d false).1.store) :
    ∃ r, view (loadFromStorage F (onSet F n src d false).1.store) d.1 = some r ∧ liveRec d.2.1 ≤ r ∨
      willApply n.set d.1 d.2.1 = false := by
  cases hw : willApply n.set d.1 d.2.1 with
  | false => exact ⟨0, Or.inr rfl⟩
  | true =>
    refine ⟨liveRec d.2.1, Or.inl ⟨?_, Nat.le_refl _⟩⟩
    rw [(load_exact F _ hwf.1).1]
    unfold onSet
    simp only [hw, Bool.not_true, Bool.false_eq_true, if_false]
    rw [storeView_put]; simp

/-- Non-vacuity: reload of a concrete store with a live document and a tombstone. -/
example :
    let ks := storeTomb (storePut (storePut {} (1, Ts.pack 5000000 0 1, [9])) (2, Ts.pack 4000000 0 1, []))
      1 (Ts.pack 6000000 0 2)
    StoreWf ks ∧ OrSwot.get (loadFromStorage 3600000 ks) 2 = some (Ts.pack 4000000 0 1) ∧
    OrSwot.get (loadFromStorage 3600000 ks) 1 = none ∧
    Map.get (loadFromStorage 3600000 ks).dead 1 = some (Ts.pack 6000000 0 2) := by
  refine ⟨?_, by decide, by decide, by decide⟩
  exact storeWf_tomb _ _ _ (storeWf_put _ _ (storeWf_put _ _ ⟨List.nodup_nil, fun _ => ⟨fun h => (by cases h), fun ⟨_, h⟩ => (by cases h)⟩⟩))

end Datacake.C07
