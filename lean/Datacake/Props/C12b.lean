/-
C12, the whole exchange: `Model/Exchange.lean` composes the receive loop (`to_aligned`), the frame
check (`DataView::using`), the handler table, the error path (`create_bad_request`, the archive of
`Status`, the client's reading of it) into one function; the theorems below say that for EVERY
message body, EVERY way the two bodies are cut into chunks on the wire and EVERY announced length

* the handler observes exactly the bytes the client framed, the client observes exactly the reply
  the handler produced (`exchange_reply`);
* a handler error reaches the client with the same code and the same message, byte for byte
  (`exchange_error`, from `readRoot_archive`: the archive layout of `Status` reads back);
* a request frame that `DataView::using` refuses (damaged, short, misplaced root) is answered with
  `InvalidPayload` and NO handler ran (`exchange_refused`);
* a path nobody registered is answered with `ServiceUnavailable` naming the path (`exchange_unknown`);
* the buffer reserved on the word of the peer is bounded (`toAligned_capacity`; D33 witness
  `legacy_capacity_unbounded`).

Property theorems, their non-vacuity examples, and the few list lemmas they need (byteAt_append_right, drop_append_right, foldl_append_flatten, readRoot_inline, readRoot_outline).
-/
import Datacake.Model.Exchange
import Datacake.Props.C12

namespace Datacake.C12b
open Datacake.Rpc Datacake.Exchange Datacake.C12

/-! ### the receive loop -/

theorem foldl_append_flatten (rest : List (List Nat)) (acc : List Nat) :
    rest.foldl (fun vec buf => vec ++ buf) acc = acc ++ rest.flatten := by
  induction rest generalizing acc with
  | nil => simp
  | cons x xs ih => simp [List.foldl_cons, ih, List.append_assoc]

/-- **toAligned_bytes**: whatever the chunks and whatever was announced, the buffer holds exactly the
bytes that arrived, in order. -/
theorem toAligned_bytes (chunks : List (List Nat)) (hint : Nat) :
    (toAligned chunks hint).1 = chunks.flatten := by
  match chunks with
  | [] => rfl
  | [a] => simp [toAligned]
  | a :: b :: rest => simp [toAligned, foldl_append_flatten, List.append_assoc]

/-- **toAligned_capacity** (D33): what is reserved before the data has arrived never exceeds the two
chunks in hand plus 1 MiB, whatever the peer announced. -/
theorem toAligned_capacity (chunks : List (List Nat)) (hint : Nat) :
    (toAligned chunks hint).2 ≤ (chunks.flatten).length + 1048576 := by
  match chunks with
  | [] => simp [toAligned]
  | [a] => simp [toAligned]
  | a :: b :: rest =>
    simp only [toAligned, MAX_PREALLOC, List.flatten_cons, List.length_append]
    omega

/-- D33 witness: before the fix a two byte body under an announced length `n` reserved `n` bytes. -/
theorem legacy_capacity_unbounded (n : Nat) : n ≤ (toAlignedLegacy [[0], [0]] n).2 := by
  simp [toAlignedLegacy]

/-- **cut_flatten**: `cut` (how the cases choose chunk boundaries) only cuts. -/
theorem cut_flatten (sizes : List Nat) (bytes : List Nat) : (cut sizes bytes).flatten = bytes := by
  induction sizes generalizing bytes with
  | nil =>
    unfold cut
    cases bytes <;> simp
  | cons n rest ih =>
    unfold cut
    cases hb : bytes.isEmpty
    · simp only [Bool.false_eq_true, if_false, List.flatten_cons, ih, List.take_append_drop]
    · simp only [if_true, List.flatten_nil]
      cases bytes with
      | nil => rfl
      | cons _ _ => simp at hb

/-! ### the archive of `Status` -/

theorem byteAt_append_right (pre root : List Nat) (i : Nat) :
    byteAt (pre ++ root) (pre.length + i) = byteAt root i := by
  unfold byteAt
  induction pre with
  | nil => simp
  | cons x xs ih =>
    simp only [List.cons_append, List.length_cons]
    rw [show xs.length + 1 + i = (xs.length + i) + 1 by omega, List.getD_cons_succ]
    exact ih

theorem drop_append_right (pre root : List Nat) (k : Nat) :
    (pre ++ root).drop (pre.length + k) = root.drop k := by
  induction pre with
  | nil => simp
  | cons x xs ih =>
    simp only [List.cons_append, List.length_cons]
    rw [show xs.length + 1 + k = (xs.length + k) + 1 by omega, List.drop_succ_cons]
    exact ih

theorem pad4_lt (n : Nat) : pad4 n < 4 := by unfold pad4; omega
theorem pad4_aligned (n : Nat) : (n + pad4 n) % 4 = 0 := by unfold pad4; omega

/-- The archive has room for the root, and the root is aligned (so `DataView::using` accepts the frame). -/
theorem archive_shape (c : Nat) (m : List Nat) :
    STATUS_FIXED ≤ (archive c m).length ∧ ((archive c m).length - STATUS_FIXED) % STATUS_ALIGN = 0 := by
  unfold archive STATUS_FIXED STATUS_ALIGN INLINE_CAP
  split
  · rename_i h
    simp only [zeros, List.length_append, List.length_cons, List.length_nil, List.length_replicate]
    omega
  · have := pad4_aligned m.length
    simp only [zeros, le32, List.length_append, List.length_cons, List.length_nil, List.length_replicate]
    omega

theorem readRoot_inline (c : Nat) (m : List Nat) (hc : c < 5) (hm : m.length ≤ 7) :
    readRoot (archive c m) = some (c, m) := by
  have hlen : (archive c m).length = 12 := by
    unfold archive INLINE_CAP
    rw [if_pos hm]
    simp only [zeros, List.length_append, List.length_cons, List.length_nil, List.length_replicate]
    omega
  have hform : archive c m = [c, 0, 0, 0] ++ (m ++ zeros (7 - m.length) ++ [m.length]) := by
    unfold archive INLINE_CAP; rw [if_pos hm]
  unfold readRoot STATUS_FIXED INLINE_CAP
  rw [hlen]
  simp only [Nat.lt_irrefl, if_false, Nat.sub_self, Nat.zero_add]
  have h0 : byteAt (archive c m) 0 = c := by rw [hform]; simp [byteAt]
  have h11 : byteAt (archive c m) 11 = m.length := by
    rw [hform]
    have : ([c, 0, 0, 0] ++ (m ++ zeros (7 - m.length) ++ [m.length]))
        = ([c, 0, 0, 0] ++ m ++ zeros (7 - m.length)) ++ [m.length] := by simp [List.append_assoc]
    rw [this]
    have hl : ([c, 0, 0, 0] ++ m ++ zeros (7 - m.length)).length = 11 := by
      simp only [zeros, List.length_append, List.length_cons, List.length_nil, List.length_replicate]; omega
    have := byteAt_append_right ([c, 0, 0, 0] ++ m ++ zeros (7 - m.length)) [m.length] 0
    rw [hl] at this
    rw [this]; simp [byteAt]
  have hdrop : (archive c m).drop 4 = m ++ zeros (7 - m.length) ++ [m.length] := by
    rw [hform]; rfl
  rw [h0, h11, hdrop]
  rw [if_neg (by omega), if_pos (by omega), if_pos hm]
  simp [List.append_assoc]

theorem readRoot_outline (c : Nat) (m : List Nat) (hc : c < 5) (hm : 7 < m.length)
    (hl : m.length + 8 ≤ 2147483648) : readRoot (archive c m) = some (c, m) := by
  have hp := pad4_lt m.length
  let pre := m ++ zeros (pad4 m.length)
  let K := m.length + pad4 m.length + 4
  let root := [c, 0, 0, 0] ++ (le32 m.length ++ le32 (4294967296 - K))
  have hform : archive c m = pre ++ root := by
    unfold archive INLINE_CAP; rw [if_neg (by omega)]
  have hpre : pre.length = m.length + pad4 m.length := by
    simp [pre, zeros]
  have hlen : (archive c m).length = pre.length + 12 := by
    rw [hform]; simp [root, le32]
  unfold readRoot STATUS_FIXED INLINE_CAP
  rw [hlen]
  rw [if_neg (by omega)]
  simp only [Nat.add_sub_cancel]
  have h0 : byteAt (archive c m) pre.length = c := by
    rw [hform]; have := byteAt_append_right pre root 0; simp only [Nat.add_zero] at this; rw [this]; simp [byteAt, root]
  have h11 : byteAt (archive c m) (pre.length + 11) = (4294967296 - K) / 16777216 % 256 := by
    rw [hform, byteAt_append_right]; simp [byteAt, root, le32]
  have hd4 : ((archive c m).drop (pre.length + 4)).take 4 = le32 m.length := by
    rw [hform, drop_append_right]; simp [root, le32]
  have hd8 : ((archive c m).drop (pre.length + 8)).take 4 = le32 (4294967296 - K) := by
    rw [hform, drop_append_right]; simp [root, le32]
  rw [h0, h11, hd4, hd8]
  rw [if_neg (by omega)]
  have hK : K = m.length + pad4 m.length + 4 := rfl
  rw [if_neg (by omega)]
  rw [fromLe32_le32 _ (by omega), fromLe32_le32 _ (by omega)]
  have hback : 4294967296 - (4294967296 - K) = K := by omega
  rw [hback]
  rw [if_pos (by omega)]
  have hz : pre.length + 4 - K = 0 := by omega
  rw [hz, hform]
  simp only [List.drop_zero]
  have : pre ++ root = m ++ (zeros (pad4 m.length) ++ root) := by simp [pre, List.append_assoc]
  rw [this, List.take_left']
  rfl

/-- **readRoot_archive**: the bytes rkyv writes for `Status { code, message }` read back as the same
code and the same message - for each of the five codes and every message below 2 GiB, inline or not. -/
theorem readRoot_archive (c : Nat) (m : List Nat) (hc : c < 5) (hl : m.length + 8 ≤ 2147483648) :
    readRoot (archive c m) = some (c, m) := by
  by_cases hm : m.length ≤ 7
  · exact readRoot_inline c m hc hm
  · exact readRoot_outline c m hc (by omega) hl

/-- Two different errors never share a frame body. -/
theorem archive_injective (c c' : Nat) (m m' : List Nat) (hc : c < 5) (hc' : c' < 5)
    (hl : m.length + 8 ≤ 2147483648) (hl' : m'.length + 8 ≤ 2147483648)
    (h : archive c m = archive c' m') : c = c' ∧ m = m' := by
  have h1 := readRoot_archive c m hc hl
  have h2 := readRoot_archive c' m' hc' hl'
  rw [h] at h1; rw [h1] at h2
  injection h2 with h2; injection h2 with ha hb
  exact ⟨ha, hb⟩

/-- **status_reaches_client**: the frame `create_bad_request` sends, cut into chunks in any way and
under any announced length, is read by the client as the status the server meant. -/
theorem status_reaches_client (fixed align c : Nat) (m : List Nat) (hc : c < 5) (hl : m.length + 8 ≤ 2147483648)
    (chunks : List (List Nat)) (hint : Nat) (hch : chunks.flatten = statusFrame c m) :
    client fixed align 400 chunks hint = .status c m := by
  unfold client
  simp only [toAligned_bytes, hch, statusFrame]
  rw [if_neg (by decide)]
  have hs := archive_shape c m
  rw [frame_roundtripA STATUS_FIXED STATUS_ALIGN (archive c m) hs.1 hs.2]
  simp only [readRoot_archive c m hc hl]

/-! ### the whole exchange -/

/-- Well-formedness of what a handler may answer: one of the five codes, a message below 2 GiB. -/
def StatusOk (c : Nat) (m : List Nat) : Prop := c < 5 ∧ m.length + 8 ≤ 2147483648

/-- **exchange_reply**: the handler ran once, on exactly the body the client framed, and the client
got exactly the reply archive the handler produced - for every chunking of both directions. -/
theorem exchange_reply (table : List Nat → Option Handler) (path : List Nat) (h : Handler)
    (rf ra : Nat) (b r : List Nat) (reqCuts respCuts : List Nat)
    (ht : table path = some h) (hb : h.fixed ≤ b.length) (hba : (b.length - h.fixed) % h.align = 0)
    (hrun : h.run b = .ok r) (hr : rf ≤ r.length) (hra : (r.length - rf) % ra = 0) :
    exchange table path rf ra (mkFrame b) reqCuts respCuts = (.reply r, [b]) := by
  unfold exchange server
  simp only [ht, toAligned_bytes, cut_flatten, frame_roundtripA h.fixed h.align b hb hba, hrun]
  unfold client
  simp only [toAligned_bytes, cut_flatten, if_true, frame_roundtripA rf ra r hr hra]

/-- **exchange_error**: a handler error reaches the client with the same code and message. -/
theorem exchange_error (table : List Nat → Option Handler) (path : List Nat) (h : Handler)
    (rf ra : Nat) (b : List Nat) (c : Nat) (m : List Nat) (reqCuts respCuts : List Nat)
    (ht : table path = some h) (hb : h.fixed ≤ b.length) (hba : (b.length - h.fixed) % h.align = 0)
    (hrun : h.run b = .error (c, m)) (hs : StatusOk c m) :
    exchange table path rf ra (mkFrame b) reqCuts respCuts = (.status c m, [b]) := by
  unfold exchange server
  simp only [ht, toAligned_bytes, cut_flatten, frame_roundtripA h.fixed h.align b hb hba, hrun, badRequest]
  rw [status_reaches_client rf ra c m hs.1 hs.2 _ _ (cut_flatten _ _)]

theorem invalid_status_ok : StatusOk INVALID_PAYLOAD invalidMsg := by
  unfold StatusOk INVALID_PAYLOAD invalidMsg; decide

/-- **exchange_refused**: whatever bytes arrive as a request - a frame with a flipped bit, a truncated
one, one whose root is misplaced (every case of `single_bit_flip_rejectedA`, `short_frame_rejectedA`,
`misplaced_root_rejected`) - if `DataView::using` refuses them, NO handler runs and the client is told
`InvalidPayload`. -/
theorem exchange_refused (table : List Nat → Option Handler) (path : List Nat) (h : Handler)
    (rf ra : Nat) (frame : List Nat) (reqCuts respCuts : List Nat)
    (ht : table path = some h) (hbad : checkFrameA h.fixed h.align frame = none) :
    exchange table path rf ra frame reqCuts respCuts = (.status INVALID_PAYLOAD invalidMsg, []) := by
  unfold exchange server
  simp only [ht, toAligned_bytes, cut_flatten, hbad, badRequest]
  rw [status_reaches_client rf ra _ _ invalid_status_ok.1 invalid_status_ok.2 _ _ (cut_flatten _ _)]

/-- **exchange_unknown**: a path nobody registered: `ServiceUnavailable`, naming the path; nothing ran. -/
theorem exchange_unknown (table : List Nat → Option Handler) (path : List Nat)
    (rf ra : Nat) (frame : List Nat) (reqCuts respCuts : List Nat)
    (ht : table path = none) (hp : path.length + 24 ≤ 2147483648) :
    exchange table path rf ra frame reqCuts respCuts = (.status SERVICE_UNAVAILABLE (unknownPrefix ++ path), []) := by
  unfold exchange server
  simp only [ht, badRequest]
  rw [status_reaches_client rf ra _ _ (by decide) (by simp [unknownPrefix]; omega) _ _ (cut_flatten _ _)]

/-- A single flipped bit anywhere in a request frame: refused end to end, no handler ran
(`single_bit_flip_rejectedA` carried through the exchange). -/
theorem exchange_bit_flip (table : List Nat → Option Handler) (path : List Nat) (h : Handler)
    (rf ra : Nat) (b : List Nat) (j i : Nat) (reqCuts respCuts : List Nat)
    (ht : table path = some h) (hj : j < (mkFrame b).length) (hi : i < 8) :
    exchange table path rf ra (flipBit (mkFrame b) j i) reqCuts respCuts = (.status INVALID_PAYLOAD invalidMsg, []) :=
  exchange_refused table path h rf ra _ reqCuts respCuts ht
    (single_bit_flip_rejectedA h.fixed h.align b j i hj hi)

/-! ### non-vacuity: concrete exchanges that meet the hypotheses -/

/-- an echo handler for a 4 byte root, a failing one that answers with a 13 byte message -/
def echoH : Handler := ⟨4, 4, fun b => .ok b⟩
def failH : Handler := ⟨4, 4, fun b => .error (3, b ++ b ++ b ++ [33])⟩

example : exchange (fun _ => some echoH) [1] 4 4 (mkFrame [1, 2, 3, 4, 5, 6, 7, 8]) [0, 2] [3]
    = (.reply [1, 2, 3, 4, 5, 6, 7, 8], [[1, 2, 3, 4, 5, 6, 7, 8]]) :=
  exchange_reply _ _ echoH 4 4 _ _ _ _ rfl (by decide) (by decide) rfl (by decide) (by decide)

example : exchange (fun _ => some failH) [1] 4 4 (mkFrame [1, 2, 3, 4]) [1] [0, 0, 5]
    = (.status 3 [1, 2, 3, 4, 1, 2, 3, 4, 1, 2, 3, 4, 33], [[1, 2, 3, 4]]) :=
  exchange_error _ _ failH 4 4 _ _ _ _ _ rfl (by decide) (by decide) rfl (by unfold StatusOk; decide)

example : StatusOk 1 [] ∧ StatusOk 4 [97, 98, 99, 100, 101, 102, 103] ∧ StatusOk 0 [97, 98, 99, 100, 101, 102, 103, 104] := by
  unfold StatusOk; decide

end Datacake.C12b

namespace Datacake.C12b
open Datacake.Rpc Datacake.Exchange Datacake.C12

/-! ### `cutAt` (how the `rawframe` cases cut a frame at given positions) only cuts -/

theorem cutAt_fold_inv (bytes : List Nat) (ps : List Nat) (acc : List (List Nat) × Nat)
    (hacc : acc.1.flatten = bytes.take acc.2 ∧ acc.2 ≤ bytes.length) (hps : ∀ p ∈ ps, p ≤ bytes.length) :
    let r := ps.foldl (fun (acc : List (List Nat) × Nat) p =>
      if acc.2 < p then (acc.1 ++ [(bytes.drop acc.2).take (p - acc.2)], p) else acc) acc
    r.1.flatten = bytes.take r.2 ∧ r.2 ≤ bytes.length ∧ acc.2 ≤ r.2 ∧ ∀ p ∈ ps, p ≤ r.2 := by
  induction ps generalizing acc with
  | nil => exact ⟨hacc.1, hacc.2, Nat.le_refl _, fun _ h => by cases h⟩
  | cons p rest ih =>
    simp only [List.foldl_cons]
    have hp := hps p (List.mem_cons_self ..)
    have hrest : ∀ q ∈ rest, q ≤ bytes.length := fun q hq => hps q (List.mem_cons_of_mem _ hq)
    by_cases hlt : acc.2 < p
    · rw [if_pos hlt]
      have hnew : (acc.1 ++ [(bytes.drop acc.2).take (p - acc.2)]).flatten = bytes.take p := by
        rw [List.flatten_append, hacc.1]
        simp only [List.flatten_cons, List.flatten_nil, List.append_nil]
        have : bytes.take p = bytes.take acc.2 ++ (bytes.drop acc.2).take (p - acc.2) := by
          have h := List.take_add (l := bytes) (i := acc.2) (j := p - acc.2)
          rw [show acc.2 + (p - acc.2) = p by omega] at h
          exact h
        rw [this]
      have := ih (acc.1 ++ [(bytes.drop acc.2).take (p - acc.2)], p) ⟨hnew, hp⟩ hrest
      refine ⟨this.1, this.2.1, by have := this.2.2.1; simp only at this; omega, ?_⟩
      intro q hq
      rcases List.mem_cons.mp hq with rfl | hq
      · exact this.2.2.1
      · exact this.2.2.2 q hq
    · rw [if_neg hlt]
      have := ih acc hacc hrest
      refine ⟨this.1, this.2.1, this.2.2.1, ?_⟩
      intro q hq
      rcases List.mem_cons.mp hq with rfl | hq
      · have := this.2.2.1; omega
      · exact this.2.2.2 q hq

/-- **cutAt_flatten**: the chunks `cutAt` makes, put together again, are the bytes. -/
theorem cutAt_flatten (positions : List Nat) (bytes : List Nat) : (cutAt positions bytes).flatten = bytes := by
  unfold cutAt
  have h := cutAt_fold_inv bytes ((positions.map (fun p => min p bytes.length)) ++ [bytes.length]) ([], 0)
    ⟨by simp, Nat.zero_le _⟩
    (by
      intro p hp
      rcases List.mem_append.mp hp with hp | hp
      · rcases List.mem_map.mp hp with ⟨q, _, rfl⟩; exact Nat.min_le_right ..
      · simp at hp; omega)
  simp only at h
  have hlast := h.2.2.2 bytes.length (by simp)
  have heq : (List.foldl (fun (acc : List (List Nat) × Nat) p =>
      if acc.2 < p then (acc.1 ++ [(bytes.drop acc.2).take (p - acc.2)], p) else acc) ([], 0)
      ((positions.map (fun p => min p bytes.length)) ++ [bytes.length])).2 = bytes.length :=
    Nat.le_antisymm h.2.1 hlast
  rw [h.1, heq, List.take_length]

/-- A request frame cut short below the fixed part plus the trailer - any bytes at all of that length -
is refused end to end, no handler ran (`short_frame_rejectedA` carried through the exchange). -/
theorem exchange_short (table : List Nat → Option Handler) (path : List Nat) (h : Handler)
    (rf ra : Nat) (frame : List Nat) (reqCuts respCuts : List Nat)
    (ht : table path = some h) (hshort : frame.length < h.fixed + 4) :
    exchange table path rf ra frame reqCuts respCuts = (.status INVALID_PAYLOAD invalidMsg, []) :=
  exchange_refused table path h rf ra frame reqCuts respCuts ht (short_frame_rejectedA h.fixed h.align frame hshort)

/-- **reply_damaged_refused**: the REPLY direction.  Whatever arrives as the body of a 200 answer, if
`DataView::using` refuses it for the reply type, the client reports `InvalidPayload` - it never hands
out a reply view over such bytes … -/
theorem reply_damaged_refused (rf ra : Nat) (chunks : List (List Nat)) (hint : Nat)
    (hbad : checkFrameA rf ra chunks.flatten = none) :
    client rf ra 200 chunks hint = .status INVALID_PAYLOAD invalidMsg := by
  unfold client
  simp only [toAligned_bytes, if_true, hbad]

/-- … in particular a reply frame with one bit flipped anywhere (body or trailer), in any chunking. -/
theorem reply_bit_flip_refused (rf ra : Nat) (r : List Nat) (j i : Nat) (chunks : List (List Nat)) (hint : Nat)
    (hj : j < (mkFrame r).length) (hi : i < 8) (hch : chunks.flatten = flipBit (mkFrame r) j i) :
    client rf ra 200 chunks hint = .status INVALID_PAYLOAD invalidMsg :=
  reply_damaged_refused rf ra chunks hint (by rw [hch]; exact single_bit_flip_rejectedA rf ra r j i hj hi)

/-- A reply the client hands out is the body of a frame that passed the check: its bytes are exactly
the bytes in front of a matching trailer (no reply is ever made up). -/
theorem reply_only_from_valid_frame (rf ra http : Nat) (chunks : List (List Nat)) (hint : Nat) (body : List Nat)
    (h : client rf ra http chunks hint = .reply body) :
    http = 200 ∧ checkFrameA rf ra chunks.flatten = some body := by
  unfold client at h
  simp only [toAligned_bytes] at h
  by_cases h200 : http = 200
  · simp only [h200, if_true] at h
    cases hc : checkFrameA rf ra chunks.flatten with
    | none => rw [hc] at h; cases h
    | some b => rw [hc] at h; simp only [Outcome.reply.injEq] at h; exact ⟨h200, by rw [h]⟩
  · simp only [h200, if_false] at h
    cases hc : checkFrameA STATUS_FIXED STATUS_ALIGN chunks.flatten with
    | none => rw [hc] at h; cases h
    | some b =>
      rw [hc] at h
      simp only at h
      cases hr : readRoot b with
      | none => rw [hr] at h; cases h
      | some p => obtain ⟨c, m⟩ := p; rw [hr] at h; cases h

/-- **server_any_chunks**: what the server does depends on the bytes that arrived, not on how they
were cut or what was announced (so the exchange theorems hold for the chunks of `cutAt` and of the
real transport alike). -/
theorem server_any_chunks (table : List Nat → Option Handler) (path : List Nat)
    (chunks chunks' : List (List Nat)) (hint hint' : Nat) (h : chunks.flatten = chunks'.flatten) :
    server table path chunks hint = server table path chunks' hint' := by
  unfold server
  simp only [toAligned_bytes, h]

/-- What the client makes of a response depends on the bytes that arrived, not on how they were cut
or what was announced. -/
theorem client_any_chunks (rf ra http : Nat) (chunks chunks' : List (List Nat)) (hint hint' : Nat)
    (h : chunks.flatten = chunks'.flatten) :
    client rf ra http chunks hint = client rf ra http chunks' hint' := by
  unfold client
  simp only [toAligned_bytes, h]

/-- **exchange_any_cuts**: the outcome of an exchange - what the handler ran on, what the client got -
is the same for EVERY way of cutting the two bodies on the wire: chunk boundaries (HTTP/2 DATA
frames, TCP segments, a slow peer) carry no meaning. -/
theorem exchange_any_cuts (table : List Nat → Option Handler) (path : List Nat) (rf ra : Nat) (frame : List Nat)
    (c1 c2 c1' c2' : List Nat) :
    exchange table path rf ra frame c1 c2 = exchange table path rf ra frame c1' c2' := by
  unfold exchange
  rw [server_any_chunks table path (cut c1 frame) (cut c1' frame) frame.length frame.length (by rw [cut_flatten, cut_flatten])]
  simp only
  rw [client_any_chunks rf ra _ (cut c2 _) (cut c2' _) _ _ (by rw [cut_flatten, cut_flatten])]

end Datacake.C12b
