/-
C18 — A keyspace has one state, even when first used by many tasks at once.

Model: `Model/Group.lean` — the small-step machine of `get_or_create_keyspace`; a schedule is any
list of task ids (every interleaving that respects each task's program order).
-/
import Datacake.Model.Group

namespace Datacake.C18
open Datacake.Group

/-- Invariant of the current tree: whatever mailbox a task obtained is the one in the map, and
every mutation a task has sent is in the set of the actor in the map. -/
structure Inv (g : G) : Prop where
  held : ∀ t a, g.held t = some a → g.map = some a
  ready : ∀ t, 3 ≤ g.pc t → ∃ a, g.held t = some a
  sent : ∀ t, g.pc t = 4 → ∃ a, g.map = some a ∧ t ∈ g.sets a
  onlySent : ∀ a t, t ∈ g.sets a → g.pc t = 4

theorem inv_step (g : G) (t : Nat) (h : Inv g) : Inv (step false g t) := by
  obtain ⟨h1, h2, h3, h4⟩ := h
  unfold step
  split
  · cases hm : g.map <;> constructor <;> simp only [upd] <;> grind
  · constructor <;> simp only [upd] <;> grind
  · cases hm : g.map <;> constructor <;> simp only [upd, Bool.false_eq_true, if_false] <;>
      first
        | grind
        | (intro t' hp
           by_cases e : t' = t
           · exact ⟨g.created t, by simp [e]⟩
           · simp only [e, if_false] at hp ⊢; exact h2 t' hp)
  · cases hh : g.held t <;> constructor <;> simp only [upd] <;> grind
  · exact ⟨h1, h2, h3, h4⟩

theorem inv_run (schedule : List Nat) : Inv (run false schedule) := by
  unfold run
  have h0 : Inv ({} : G) :=
    ⟨fun _ _ h => (by cases h), fun _ h => (by simp at h), fun _ h => (by simp at h), fun _ _ h => (by cases h)⟩
  generalize ({} : G) = g at h0
  induction schedule generalizing g with
  | nil => exact h0
  | cons t ts ih => exact ih _ (inv_step g t h0)

/-- **one_state**: for every number of tasks and every schedule, (1) every task that obtained a
mailbox obtained the one registered in the map — there is one instance —, and (2) every mutation
whose send completed is in the set of that instance: no accepted operation is missing from the set
peers later synchronise against. -/
theorem one_state (schedule : List Nat) :
    (∀ t a, (run false schedule).held t = some a → (run false schedule).map = some a) ∧
    (∀ t, (run false schedule).pc t = 4 → t ∈ visible (run false schedule)) := by
  have h := inv_run schedule
  refine ⟨h.held, ?_⟩
  intro t hp
  obtain ⟨a, ha, hm⟩ := h.sent t hp
  unfold visible; rw [ha]; exact hm

/-- Two tasks never hold different instances. -/
theorem same_instance (schedule : List Nat) (t t' a a' : Nat)
    (h : (run false schedule).held t = some a) (h' : (run false schedule).held t' = some a') : a = a' := by
  have e1 := (one_state schedule).1 t a h
  have e2 := (one_state schedule).1 t' a' h'
  rw [e1] at e2; injection e2

/-- Defect D7 of the pinned tree: two tasks both look up before either inserts; the second insert
overwrites the first; task 0's acknowledged mutation is missing from the visible set. -/
theorem legacy_race :
    let g := run true [0, 1, 0, 1, 0, 1, 0, 1]
    g.pc 0 = 4 ∧ g.pc 1 = 4 ∧ visible g = [1] ∧ g.held 0 = some 0 ∧ g.held 1 = some 1 ∧
    visible (run false [0, 1, 0, 1, 0, 1, 0, 1]) = [1, 0] := by decide

end Datacake.C18
