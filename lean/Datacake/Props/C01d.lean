/-
C01, the chain — the executable cluster model refines the abstract cluster of the convergence theorems.

`Props/C01.lean` / `Props/C01c.lean` prove convergence for an ABSTRACT cluster (per node: the
replicated set and the list of operations it has applied; events `apply` and `exchange(NA)`).
What is run against the real code is the EXECUTABLE model `Model/Cluster.lean` (keyspace handlers
with `will_apply` filters, stores, bulk requests sorted by stamp, the two halves of an exchange,
documents fetched from the peer's store, trackers, change stamps).  This file proves that every
step of the executable model that changes a replicated set is matched by admissible events of the
abstract cluster with the SAME effect on every node's set:

* `applyAt_refines` — a request handled at a node (client write or delivered replication message,
  single or bulk) = `apply` events, one per operation the handler lets through, in its order;
* `repair_refines` — one anti-entropy exchange = ONE admissible `exchangeNA` event of `Props/C01c.lean`
  (the three admissibility conditions are proved from the executable definitions: only operations
  the peer has applied are applied; every current record of the peer that `j` does not already know
  IS applied — it is listed by the difference, fetched from the peer's store, and passes the
  `will_apply` filter of its half, also the one evaluated after the other half has been applied).

* `xrun_refines` — every admissible RUN of the executable model is matched by an admissible run of
  the abstract cluster with equal sets at every node.

So the conclusion of `convergence_na` transfers to the executable model: the sets it computes are
the sets of an admissible abstract run.  Hypotheses: storage works at the acting node (a failing
storage call leaves the set untouched: a stutter, `Props/C02.lean`), and the peer's store agrees
with its set (`Agree`, the invariant of C02).  Lemmas: `Lemmas/ClusterSets.lean`.
-/
import Datacake.Lemmas.ClusterSets

namespace Datacake.C01d
open Datacake.Lww Datacake.OrSwot Datacake.Keyspace Datacake.Storage Datacake.Cluster Datacake.C01 Datacake.C05

/-- A replica that represents what it applied either accepts an operation of the history or already
has a record at least as new: `will_apply = false` means "known". -/
theorem knows_of_not_willApply (F : Nat) (H : List Op) (hh : Hist F H) (r : Replica)
    (rep : Rep F r.s r.A) (hsub : ∀ o ∈ r.A, o ∈ H) (o : Op) (ho : o ∈ H)
    (hw : willApply r.s o.key o.ts = false) : Knows r o := by
  unfold Knows
  have snd := sound_of_window F hh.f4 r.s r.A H hh.good hsub hh.window rep.vers
  by_cases hb : isBefore r.s.safe o.ts = true
  · rw [rep.view]; exact lww_ge _ o.key o (snd o ho hb) rfl
  · have hb' : isBefore r.s.safe o.ts = false := by simpa using hb
    unfold willApply at hw
    rw [hb'] at hw
    simp only [Bool.false_eq_true, if_false] at hw
    rw [view_of_gets]
    cases he : Map.get r.s.entries o.key with
    | some e =>
      rw [he] at hw
      simp only [decide_eq_false_iff_not, Nat.not_lt] at hw
      refine ⟨liveRec e, rfl, ?_⟩
      unfold rank liveRec deadRec; split <;> omega
    | none =>
      rw [he] at hw
      cases hd : Map.get r.s.dead o.key with
      | none => rw [hd] at hw; simp at hw
      | some d =>
        rw [hd] at hw
        simp only [decide_eq_false_iff_not, Nat.not_lt] at hw
        refine ⟨deadRec d, rfl, ?_⟩
        by_cases hdel : o.isDel = true
        · unfold rank deadRec; rw [if_pos hdel]; omega
        · -- an insert refused because of a tombstone: the tombstone is strictly newer (stamps on a key are distinct)
          have hne : d ≠ o.ts := by
            intro e
            obtain ⟨o', ho', hk', hts', hr'⟩ := rep_dead_op F r.s r.A rep o.key d hd
            have : o' = o := hh.distinct o' (hsub o' ho') o ho hk' (by rw [hts', e])
            subst this
            unfold rank deadRec liveRec at hr'
            simp only [hdel, Bool.false_eq_true, if_false] at hr'
            omega
          unfold rank liveRec deadRec; split <;> omega

theorem mem_sortByTs (l : List (Nat × Nat)) (x : Nat × Nat) : x ∈ sortByTs l ↔ x ∈ l :=
  (C02.sortByTs_perm l).mem_iff

theorem of_mem_removalOps (s : OrSwot) (removed : List (Nat × Nat)) (so : SrcOp) (h : so ∈ removalOps s removed) :
    ∃ p ∈ removed, willApply s p.1 p.2 = true ∧ so = delOp 1 p := by
  unfold removalOps validDels at h
  rw [List.mem_map] at h
  obtain ⟨p, hp, rfl⟩ := h
  rw [mem_sortByTs, List.mem_filter] at hp
  exact ⟨p, newest_mem _ _ _ hp.1, hp.2, rfl⟩

theorem mem_removalOps (s : OrSwot) (removed : List (Nat × Nat)) (hnd : C02.NoDupIds removed) (so : SrcOp) :
    so ∈ removalOps s removed ↔ ∃ p ∈ removed, willApply s p.1 p.2 = true ∧ so = delOp 1 p := by
  constructor
  · exact of_mem_removalOps s removed so
  · rintro ⟨p, hp, hw, rfl⟩
    unfold removalOps validDels
    rw [newest_of_nodup _ _ hnd, List.mem_map]
    exact ⟨p, by rw [mem_sortByTs, List.mem_filter]; exact ⟨hp, hw⟩, rfl⟩

theorem of_mem_modificationOps (s : OrSwot) (docs : List Doc) (so : SrcOp) (h : so ∈ modificationOps s docs) :
    ∃ d ∈ docs, willApply s d.1 d.2.1 = true ∧ so = putOp 1 (d.1, d.2.1) := by
  unfold modificationOps validPuts at h
  rw [List.mem_map] at h
  obtain ⟨p, hp, rfl⟩ := h
  rw [mem_sortByTs, List.mem_map] at hp
  obtain ⟨d, hd, rfl⟩ := hp
  rw [List.mem_filter] at hd
  exact ⟨d, newest_mem _ _ _ hd.1, hd.2, rfl⟩

theorem mem_modificationOps (s : OrSwot) (docs : List Doc) (hnd : C02.NoDupIds docs) (so : SrcOp) :
    so ∈ modificationOps s docs ↔ ∃ d ∈ docs, willApply s d.1 d.2.1 = true ∧ so = putOp 1 (d.1, d.2.1) := by
  constructor
  · exact of_mem_modificationOps s docs so
  · rintro ⟨d, hd, hw, rfl⟩
    unfold modificationOps validPuts
    rw [newest_of_nodup _ _ hnd, List.mem_map]
    exact ⟨(d.1, d.2.1), by rw [mem_sortByTs, List.mem_map]; exact ⟨d, by rw [List.mem_filter]; exact ⟨hd, hw⟩, rfl⟩, rfl⟩

/-- A fetched document is the live record the peer's store (hence, by `Agree`, its set) holds now. -/
theorem fetched_rec (n : Node) (ha : Agree n) (modified : List (Nat × Nat)) (d : Doc)
    (hd : d ∈ fetched n.store modified) : Map.get n.set.entries d.1 = some d.2.1 := by
  unfold fetched at hd
  rw [List.mem_filterMap] at hd
  obtain ⟨m, _, hm⟩ := hd
  cases hdat : aget n.store.data m.1 with
  | none => rw [hdat] at hm; simp at hm
  | some bytes =>
    cases hrow : aget n.store.rows m.1 with
    | none => rw [hdat, hrow] at hm; simp at hm
    | some row =>
      obtain ⟨ts, tomb⟩ := row
      rw [hdat, hrow] at hm
      simp only [Option.some.injEq] at hm
      subst hm
      simp only
      obtain ⟨ts', hts'⟩ := (ha.data m.1).1 (by rw [hdat]; rfl)
      rw [hrow] at hts'
      simp only [Option.some.injEq, Prod.mk.injEq] at hts'
      obtain ⟨rfl, rfl⟩ := hts'
      have hv := ha.same m.1
      unfold storeView at hv
      rw [hrow] at hv
      simp only at hv
      rw [view_of_gets] at hv
      cases he : Map.get n.set.entries m.1 with
      | some e => rw [he] at hv; simp only [Option.some.injEq, liveRec] at hv; congr 1; omega
      | none =>
        rw [he] at hv
        cases hdd : Map.get n.set.dead m.1 with
        | none => rw [hdd] at hv; cases hv
        | some dd => rw [hdd] at hv; simp only [Option.some.injEq, liveRec, deadRec] at hv; omega

/-- The current live record of the peer is fetched when its id is listed. -/
theorem fetched_of_rec (n : Node) (ha : Agree n) (modified : List (Nat × Nat)) (k t : Nat)
    (hm : (k, t) ∈ modified) (he : Map.get n.set.entries k = some t) :
    ∃ bytes, (k, t, bytes) ∈ fetched n.store modified := by
  have hv := ha.same k
  rw [view_of_gets, he] at hv
  unfold storeView at hv
  cases hrow : aget n.store.rows k with
  | none => rw [hrow] at hv; cases hv
  | some row =>
    obtain ⟨ts, tomb⟩ := row
    rw [hrow] at hv
    cases tomb with
    | true => simp only [Option.some.injEq, liveRec, deadRec] at hv; omega
    | false =>
      simp only [Option.some.injEq, liveRec] at hv
      have hts : ts = t := by omega
      subst hts
      have hdat := (ha.data k).2 ⟨ts, hrow⟩
      cases hd : aget n.store.data k with
      | none => rw [hd] at hdat; cases hdat
      | some bytes =>
        refine ⟨bytes, ?_⟩
        unfold fetched
        rw [List.mem_filterMap]
        exact ⟨(k, ts), hm, by simp [hd, hrow]⟩


theorem lacks_of_willApply (s : OrSwot) (k t : Nat) (h : willApply s k t = true) : Lacks s k t := by
  rw [← lacks_iff]
  unfold willApply at h
  unfold lacks
  cases hb : isBefore s.safe t with
  | true => rw [hb] at h; simp at h
  | false =>
    rw [hb] at h
    simp only [Bool.false_eq_true, if_false] at h
    cases he : Map.get s.entries k with
    | some e => rw [he] at h; exact h
    | none =>
      rw [he] at h
      cases hd : Map.get s.dead k with
      | some d => rw [hd] at h; exact h
      | none => simp

/-- The set of node `j` half-way through an exchange still represents what `j` had applied plus the
items of the first half. -/
theorem half_rep (H : List Op) (hh : Hist Cluster.F H) (r : Replica) (rep : Rep Cluster.F r.s r.A)
    (hsub : ∀ o ∈ r.A, o ∈ H) (ops : List SrcOp) (hops : ∀ so ∈ ops, so.op ∈ H) :
    Rep Cluster.F (applyAll Cluster.F r.s ops) ((ops.map (·.op)).reverse ++ r.A) ∧
    ∀ o ∈ (ops.map (·.op)).reverse ++ r.A, o ∈ H := by
  refine ⟨applyAll_rep Cluster.F hh.f4 H hh.good hh.window ops hops r.s r.A rep hsub, ?_⟩
  intro o ho
  rcases List.mem_append.1 ho with h | h
  · rw [List.mem_reverse, List.mem_map] at h
    obtain ⟨so, hso, rfl⟩ := h
    exact hops so hso
  · exact hsub o h

/-- If, half-way, `j` "knows" `o` only through the items of the first half, one of them is on `o`'s key. -/
theorem knows_half (H : List Op) (hh : Hist Cluster.F H) (r : Replica) (rep : Rep Cluster.F r.s r.A)
    (hsub : ∀ o ∈ r.A, o ∈ H) (ops : List SrcOp) (hops : ∀ so ∈ ops, so.op ∈ H) (o : Op)
    (hk : Knows ⟨applyAll Cluster.F r.s ops, (ops.map (·.op)).reverse ++ r.A⟩ o) :
    Knows r o ∨ ∃ so ∈ ops, so.op.key = o.key := by
  obtain ⟨rep', _⟩ := half_rep H hh r rep hsub ops hops
  unfold Knows at hk
  obtain ⟨y, hy, hle⟩ := hk
  rw [rep'.view] at hy
  obtain ⟨o2, ho2, hk2, hr2⟩ := lww_mem _ _ _ hy
  rcases List.mem_append.1 ho2 with h | h
  · rw [List.mem_reverse, List.mem_map] at h
    obtain ⟨so, hso, rfl⟩ := h
    exact Or.inr ⟨so, hso, hk2⟩
  · left
    unfold Knows
    rw [rep.view]
    obtain ⟨z, hz, hle2⟩ := lww_ge r.A o.key o2 h hk2
    exact ⟨z, hz, by omega⟩

/-- **repair_refines**: one exchange of the executable cluster model IS an admissible (non-atomic)
exchange event of the abstract cluster of `Props/C01c.lean`, with the same effect on every node's set.

`a` is the abstract cluster (sets + what each node has applied), related to the executable cluster
`c` by equality of the sets; the peer's store agrees with its set (C02). -/
theorem repair_refines (H : List Op) (hh : Hist Cluster.F H) (c : Cluster) (a : Cl) (hg : Good Cluster.F H a)
    (hs : ∀ x, (a x).s = absSet c x) (j i : Nat) (rf : Bool) (hl : j < c.nodes.length)
    (hf : (getNode c j).failNext = false) (hji : j ≠ i) (hagree : Agree (getNode c i).ks)
    (hex : (getNode c i).exists_ = true)
    (htr : ((getNode c j).tracker.getD i none == some (getNode c i).change) = false) :
    C01c.Valid H a (.exchangeNA j i (a i).A (repairOps c j i rf)) ∧
    ∀ x, (C01c.step Cluster.F a (.exchangeNA j i (a i).A (repairOps c j i rf)) x).s = absSet (repair c j i rf).1 x := by
  obtain ⟨repj, hsubj⟩ := hg j
  obtain ⟨repi, hsubi⟩ := hg i
  have hsj : (a j).s = absSet c j := hs j
  have hsi : (a i).s = absSet c i := hs i
  have hpeerset : (getNode c i).ks.set = absSet c i := rfl
  have repj' : Rep Cluster.F (absSet c j) (a j).A := hsj ▸ repj
  have hkj : ∀ o, Knows ⟨absSet c j, (a j).A⟩ o → Knows (a j) o := by
    intro o h; unfold Knows at *; rw [hsj]; exact h
  -- the shape of what is applied
  have hops : repairOps c j i rf =
      if rf then
        removalOps (absSet c j) (diff (absSet c j) (absSet c i)).2 ++
          modificationOps (applyAll Cluster.F (absSet c j) (removalOps (absSet c j) (diff (absSet c j) (absSet c i)).2))
            (fetched (getNode c i).ks.store (diff (absSet c j) (absSet c i)).1)
      else
        modificationOps (absSet c j) (fetched (getNode c i).ks.store (diff (absSet c j) (absSet c i)).1) ++
          removalOps (applyAll Cluster.F (absSet c j) (modificationOps (absSet c j) (fetched (getNode c i).ks.store (diff (absSet c j) (absSet c i)).1)))
            (diff (absSet c j) (absSet c i)).2 := by
    unfold repairOps
    simp only [hex, htr, Bool.not_true, Bool.false_eq_true, if_false]
  have hndiff := C05.diff_nodup (absSet c j) (absSet c i)
  -- every removal item / fetched document is an operation the peer has applied
  have hrem : ∀ s' so, so ∈ removalOps s' (diff (absSet c j) (absSet c i)).2 → so.op ∈ (a i).A ∧ so.op.isDel = true := by
    intro s' so hso
    obtain ⟨p, hp, _, rfl⟩ := of_mem_removalOps _ _ _ hso
    have := ((diff_exact (absSet c j) (absSet c i) p.1 p.2).2.1 hp).1
    refine ⟨?_, rfl⟩
    have hrec : HasRec (a i).s p.1 p.2 true := by unfold HasRec; rw [hsi]; simpa using this
    exact op_of_rec Cluster.F (a i).s (a i).A repi p.1 p.2 true hrec
  have hmod : ∀ s' so, so ∈ modificationOps s' (fetched (getNode c i).ks.store (diff (absSet c j) (absSet c i)).1) →
      so.op ∈ (a i).A ∧ so.op.isDel = false ∧ Map.get (absSet c i).entries so.op.key = some so.op.ts := by
    intro s' so hso
    obtain ⟨d, hd, _, rfl⟩ := of_mem_modificationOps _ _ _ hso
    have hrec0 := fetched_rec (getNode c i).ks hagree _ d hd
    rw [hpeerset] at hrec0
    refine ⟨?_, rfl, hrec0⟩
    have hrec : HasRec (a i).s d.1 d.2.1 false := by unfold HasRec; rw [hsi]; simpa using hrec0
    exact op_of_rec Cluster.F (a i).s (a i).A repi d.1 d.2.1 false hrec
  have hdisj_i : Disj (absSet c i) := by rw [← hsi]; exact repi.disj
  constructor
  · refine ⟨fun o ho => ho, ?_, ?_⟩
    · -- V2
      intro so hso
      rw [hops] at hso
      cases rf with
      | true =>
        simp only [if_true] at hso
        rcases List.mem_append.1 hso with h | h
        · exact (hrem _ so h).1
        · exact (hmod _ so h).1
      | false =>
        simp only [Bool.false_eq_true, if_false] at hso
        rcases List.mem_append.1 hso with h | h
        · exact (hmod _ so h).1
        · exact (hrem _ so h).1
    · -- V3
      intro o ho hcur
      by_cases hk : Knows (a j) o
      · exact Or.inl hk
      · right
        have hoH : o ∈ H := hsubi o ho
        -- `j` would accept `o` as it is now
        have hwa0 : willApply (absSet c j) o.key o.ts = true := by
          rw [← hsj]
          cases hw : willApply (a j).s o.key o.ts with
          | true => rfl
          | false => exact absurd (knows_of_not_willApply Cluster.F H hh (a j) repj hsubj o hoH hw) hk
        have hlacks := lacks_of_willApply _ _ _ hwa0
        -- the peer's current record of the key is `o`
        unfold C01c.Current at hcur
        rw [hsi, view_of_gets] at hcur
        cases hdel : o.isDel with
        | true =>
          -- a tombstone of the peer: listed as a removal
          have hrank : rank o = deadRec o.ts := by unfold rank; rw [hdel]; rfl
          rw [hrank] at hcur
          have hent : Map.get (absSet c i).entries o.key = none := by
            cases he : Map.get (absSet c i).entries o.key with
            | none => rfl
            | some e => rw [he] at hcur; simp only [Option.some.injEq, liveRec, deadRec] at hcur; omega
          have hdead : Map.get (absSet c i).dead o.key = some o.ts := by
            rw [hent] at hcur
            cases hd : Map.get (absSet c i).dead o.key with
            | none => rw [hd] at hcur; cases hcur
            | some d => rw [hd] at hcur; simp only [Option.some.injEq, deadRec] at hcur; congr 1; omega
          have hlisted : (o.key, o.ts) ∈ (diff (absSet c j) (absSet c i)).2 :=
            (diff_exact _ _ _ _).2.2 ⟨hdead, hlacks⟩
          have hso : delOp 1 (o.key, o.ts) = ⟨1, o⟩ := by
            cases o; simp_all [delOp]
          rw [hops]
          cases rf with
          | true =>
            simp only [if_true]
            exact ⟨⟨1, o⟩, List.mem_append_left _ ((mem_removalOps _ _ hndiff.2 _).2 ⟨(o.key, o.ts), hlisted, hwa0, hso.symm⟩), rfl⟩
          | false =>
            simp only [Bool.false_eq_true, if_false]
            -- after the modification half `j` still accepts it: no fetched document is on this key
            have hmops : ∀ so ∈ modificationOps (absSet c j) (fetched (getNode c i).ks.store (diff (absSet c j) (absSet c i)).1), so.op ∈ H :=
              fun so hso => hsubi _ (hmod _ so hso).1
            have hwa1 : willApply (applyAll Cluster.F (absSet c j) (modificationOps (absSet c j) (fetched (getNode c i).ks.store (diff (absSet c j) (absSet c i)).1))) o.key o.ts = true := by
              cases hw : willApply (applyAll Cluster.F (absSet c j) (modificationOps (absSet c j) (fetched (getNode c i).ks.store (diff (absSet c j) (absSet c i)).1))) o.key o.ts with
              | true => rfl
              | false =>
                exfalso
                obtain ⟨rep1, hsub1⟩ := half_rep H hh ⟨absSet c j, (a j).A⟩ repj' hsubj _ hmops
                have hk1 := knows_of_not_willApply Cluster.F H hh ⟨_, _⟩ rep1 hsub1 o hoH hw
                have := knows_half H hh ⟨absSet c j, (a j).A⟩ repj' hsubj _ hmops o hk1
                rcases this with h | ⟨so, hso, hkey⟩
                · exact hk (hkj o h)
                · have := (hmod _ so hso).2.2
                  rw [hkey, hent] at this; cases this
            exact ⟨⟨1, o⟩, List.mem_append_right _ ((mem_removalOps _ _ hndiff.2 _).2 ⟨(o.key, o.ts), hlisted, hwa1, hso.symm⟩), rfl⟩
        | false =>
          -- a live entry of the peer: listed as a modification, fetched from its store
          have hrank : rank o = liveRec o.ts := by unfold rank; rw [hdel]; rfl
          rw [hrank] at hcur
          have hent : Map.get (absSet c i).entries o.key = some o.ts := by
            cases he : Map.get (absSet c i).entries o.key with
            | some e => rw [he] at hcur; simp only [Option.some.injEq, liveRec] at hcur; congr 1; omega
            | none =>
              rw [he] at hcur
              cases hd : Map.get (absSet c i).dead o.key with
              | none => rw [hd] at hcur; cases hcur
              | some d => rw [hd] at hcur; simp only [Option.some.injEq, liveRec, deadRec] at hcur; omega
          have hlisted : (o.key, o.ts) ∈ (diff (absSet c j) (absSet c i)).1 :=
            (diff_exact _ _ _ _).1.2 ⟨hent, hlacks⟩
          obtain ⟨bytes, hfetched⟩ := fetched_of_rec (getNode c i).ks hagree _ o.key o.ts hlisted (by rw [hpeerset]; exact hent)
          have hso : putOp 1 (o.key, o.ts) = ⟨1, o⟩ := by
            cases o; simp_all [putOp]
          rw [hops]
          cases rf with
          | false =>
            simp only [Bool.false_eq_true, if_false]
            exact ⟨⟨1, o⟩, List.mem_append_left _ ((mem_modificationOps _ _ (fetched_nodup _ _ hndiff.1) _).2 ⟨(o.key, o.ts, bytes), hfetched, hwa0, hso.symm⟩), rfl⟩
          | true =>
            simp only [if_true]
            have hrops : ∀ so ∈ removalOps (absSet c j) (diff (absSet c j) (absSet c i)).2, so.op ∈ H :=
              fun so hso => hsubi _ (hrem _ so hso).1
            have hwa1 : willApply (applyAll Cluster.F (absSet c j) (removalOps (absSet c j) (diff (absSet c j) (absSet c i)).2)) o.key o.ts = true := by
              cases hw : willApply (applyAll Cluster.F (absSet c j) (removalOps (absSet c j) (diff (absSet c j) (absSet c i)).2)) o.key o.ts with
              | true => rfl
              | false =>
                exfalso
                obtain ⟨rep1, hsub1⟩ := half_rep H hh ⟨absSet c j, (a j).A⟩ repj' hsubj _ hrops
                have hk1 := knows_of_not_willApply Cluster.F H hh ⟨_, _⟩ rep1 hsub1 o hoH hw
                have := knows_half H hh ⟨absSet c j, (a j).A⟩ repj' hsubj _ hrops o hk1
                rcases this with h | ⟨so, hso, hkey⟩
                · exact hk (hkj o h)
                · -- a removal item on a key the peer holds live: impossible
                  obtain ⟨p, hp, _, rfl⟩ := of_mem_removalOps _ _ _ hso
                  have hpd := ((diff_exact (absSet c j) (absSet c i) p.1 p.2).2.1 hp).1
                  simp only [delOp] at hkey
                  rcases hdisj_i o.key with h1 | h1
                  · rw [h1] at hent; cases hent
                  · rw [← hkey, hpd] at h1; cases h1
            exact ⟨⟨1, o⟩, List.mem_append_right _ ((mem_modificationOps _ _ (fetched_nodup _ _ hndiff.1) _).2 ⟨(o.key, o.ts, bytes), hfetched, hwa1, hso.symm⟩), rfl⟩
  · intro x
    rw [repair_sets c j i rf hl hf hji x]
    simp only [C01c.step, upd]
    by_cases hx : x = j
    · subst hx; simp only [if_true]; rw [hs x]
    · simp only [if_neg hx]; exact hs x

/-! ### Requests handled at a node are `apply` events -/

/-- A list of operations applied at node `i` through source `src`, as abstract events. -/
def applyEvents (i src : Nat) (ops : List Op) : List C01c.Ev := ops.map (fun o => .apply i src o)

theorem run_applyEvents (F : Nat) (a : Cl) (i src : Nat) (ops : List Op) (x : Nat) :
    (C01c.run F a (applyEvents i src ops) x).s =
      if x = i then applyAll F (a i).s (ops.map (fun o => ⟨src, o⟩)) else (a x).s := by
  induction ops generalizing a with
  | nil =>
    simp only [applyEvents, C01c.run, applyAll, List.map_nil, List.foldl_nil]
    split
    · rename_i h; rw [h]
    · rfl
  | cons o rest ih =>
    have hrun : C01c.run F a (applyEvents i src (o :: rest)) = C01c.run F (C01c.step F a (.apply i src o)) (applyEvents i src rest) := rfl
    rw [hrun, ih]
    simp only [C01c.step, upd, applyAll, List.map_cons, List.foldl_cons]
    by_cases hx : x = i
    · simp [hx]
    · simp [hx]

theorem validRun_applyEvents (F : Nat) (H : List Op) (a : Cl) (i src : Nat) (ops : List Op) (h : ∀ o ∈ ops, o ∈ H) :
    C01c.ValidRun F H a (applyEvents i src ops) := by
  induction ops generalizing a with
  | nil => trivial
  | cons o rest ih =>
    exact ⟨h o List.mem_cons_self, ih _ (fun o' ho' => h o' (List.mem_cons_of_mem _ ho'))⟩

/-- The operations a request applies at the node that handles it (storage working): the applicable
ones, bulk requests by stamp. -/
def requestOps (s : OrSwot) : Issued → List Op
  | .put d => if willApply s d.1 d.2.1 then [⟨d.1, d.2.1, false⟩] else []
  | .del id ts => if willApply s id ts then [⟨id, ts, true⟩] else []
  | .mput ds => (validPuts s ds).map (fun e => ⟨e.1, e.2, false⟩)
  | .mdel ds => (validDels s ds).map (fun e => ⟨e.1, e.2, true⟩)

/-- The operations a request carries. -/
def carried : Issued → List Op
  | .put d => [⟨d.1, d.2.1, false⟩]
  | .del id ts => [⟨id, ts, true⟩]
  | .mput ds => ds.map (fun d => ⟨d.1, d.2.1, false⟩)
  | .mdel ds => ds.map (fun d => ⟨d.1, d.2, true⟩)

theorem requestOps_sub (s : OrSwot) (iss : Issued) : ∀ o ∈ requestOps s iss, o ∈ carried iss := by
  intro o ho
  cases iss with
  | put d => simp only [requestOps] at ho; split at ho <;> simp_all [carried]
  | del id ts => simp only [requestOps] at ho; split at ho <;> simp_all [carried]
  | mput ds =>
    simp only [requestOps, validPuts, List.mem_map] at ho
    obtain ⟨e, he, rfl⟩ := ho
    rw [mem_sortByTs, List.mem_map] at he
    obtain ⟨d, hd, rfl⟩ := he
    simp only [carried, List.mem_map]
    exact ⟨d, newest_mem _ _ _ (List.mem_filter.1 hd).1, rfl⟩
  | mdel ds =>
    simp only [requestOps, validDels, List.mem_map] at ho
    obtain ⟨e, he, rfl⟩ := ho
    rw [mem_sortByTs] at he
    simp only [carried, List.mem_map]
    exact ⟨e, newest_mem _ _ _ (List.mem_filter.1 he).1, rfl⟩

/-- **applyAt_refines**: a request handled at node `i` of the executable cluster model (a client
write, a delivered replication message, in bulk or not; storage working) is matched by admissible
`apply` events of the abstract cluster — one per operation the handler lets through, in the order
it applies them — with the same effect on every node's set. -/
theorem applyAt_refines (H : List Op) (c : Cluster) (a : Cl) (hs : ∀ x, (a x).s = absSet c x)
    (i src : Nat) (iss : Issued) (hl : i < c.nodes.length) (hf : (getNode c i).failNext = false)
    (hH : ∀ o ∈ carried iss, o ∈ H) :
    C01c.ValidRun Cluster.F H a (applyEvents i src (requestOps (absSet c i) iss)) ∧
    ∀ x, (C01c.run Cluster.F a (applyEvents i src (requestOps (absSet c i) iss)) x).s = absSet (applyAt c i src iss).1 x := by
  refine ⟨validRun_applyEvents _ H a i src _ (fun o ho => hH o (requestOps_sub _ iss o ho)), ?_⟩
  intro x
  rw [run_applyEvents]
  cases iss with
  | put d =>
    rw [applyAt_put_sets c i src d hl hf x]
    by_cases hx : x = i
    · subst hx
      simp only [if_true, requestOps, hs x]
      by_cases hw : willApply (absSet c x) d.1 d.2.1 = true
      · simp [hw, applyAll, putOp]
      · simp [hw, applyAll]
    · simp [hx, hs x]
  | del id ts =>
    rw [applyAt_del_sets c i src id ts hl hf x]
    by_cases hx : x = i
    · subst hx
      simp only [if_true, requestOps, hs x]
      by_cases hw : willApply (absSet c x) id ts = true
      · simp [hw, applyAll, delOp]
      · simp [hw, applyAll]
    · simp [hx, hs x]
  | mput ds =>
    rw [applyAt_mput_sets c i src ds hl hf x]
    by_cases hx : x = i
    · subst hx
      simp only [if_true, requestOps, hs x, List.map_map]
      rfl
    · simp [hx, hs x]
  | mdel ds =>
    rw [applyAt_mdel_sets c i src ds hl hf x]
    by_cases hx : x = i
    · subst hx
      simp only [if_true, requestOps, hs x, List.map_map]
      rfl
    · simp [hx, hs x]


/-! ### Runs -/

/-- A step of the executable cluster model that can change a replicated set. -/
inductive XStep where
  | request (i src : Nat) (iss : Issued)        -- a request handled at node `i` on source `src`
  | exchange (j i : Nat) (removalsFirst : Bool) -- node `j` repairs from node `i`

def xstep (c : Cluster) : XStep → Cluster
  | .request i src iss => (applyAt c i src iss).1
  | .exchange j i rf => (repair c j i rf).1

def xrun (c : Cluster) (steps : List XStep) : Cluster := steps.foldl xstep c

/-- The step happens under the conditions of the refinement theorems: storage works at the acting
node, requests carry operations of the history, the peer of an exchange has a store that agrees with
its set. -/
def Admissible (H : List Op) (c : Cluster) : XStep → Prop
  | .request i _ iss => i < c.nodes.length ∧ (getNode c i).failNext = false ∧ ∀ o ∈ carried iss, o ∈ H
  | .exchange j i _ => j < c.nodes.length ∧ (getNode c j).failNext = false ∧ j ≠ i ∧ Agree (getNode c i).ks

def AdmissibleRun (H : List Op) : Cluster → List XStep → Prop
  | _, [] => True
  | c, s :: rest => Admissible H c s ∧ AdmissibleRun H (xstep c s) rest

/-- The abstract events of one executable step. -/
def eventsOf (c : Cluster) (a : Cl) : XStep → List C01c.Ev
  | .request i src iss => applyEvents i src (requestOps (absSet c i) iss)
  | .exchange j i rf =>
    if (getNode c i).exists_ && !((getNode c j).tracker.getD i none == some (getNode c i).change)
    then [.exchangeNA j i (a i).A (repairOps c j i rf)] else []

theorem repairOps_skipped (c : Cluster) (j i : Nat) (rf : Bool)
    (h : ((getNode c i).exists_ && !((getNode c j).tracker.getD i none == some (getNode c i).change)) = false) :
    repairOps c j i rf = [] := by
  unfold repairOps
  cases hex : (getNode c i).exists_ with
  | false => simp
  | true =>
    rw [hex] at h
    simp only [Bool.true_and, Bool.not_eq_false'] at h
    simp only [Bool.not_true, Bool.false_eq_true, if_false, h, if_true]

/-- **xstep_refines**: one admissible step of the executable cluster = admissible abstract events
with the same sets; the abstract cluster stays good. -/
theorem xstep_refines (H : List Op) (hh : Hist Cluster.F H) (c : Cluster) (a : Cl) (hg : Good Cluster.F H a)
    (hs : ∀ x, (a x).s = absSet c x) (s : XStep) (hadm : Admissible H c s) :
    C01c.ValidRun Cluster.F H a (eventsOf c a s) ∧
    (∀ x, (C01c.run Cluster.F a (eventsOf c a s) x).s = absSet (xstep c s) x) ∧
    Good Cluster.F H (C01c.run Cluster.F a (eventsOf c a s)) := by
  have key : C01c.ValidRun Cluster.F H a (eventsOf c a s) ∧
      (∀ x, (C01c.run Cluster.F a (eventsOf c a s) x).s = absSet (xstep c s) x) := by
    cases s with
    | request i src iss =>
      obtain ⟨hl, hf, hH⟩ := hadm
      exact applyAt_refines H c a hs i src iss hl hf hH
    | exchange j i rf =>
      obtain ⟨hl, hf, hji, hagree⟩ := hadm
      simp only [eventsOf, xstep]
      cases hcond : ((getNode c i).exists_ && !((getNode c j).tracker.getD i none == some (getNode c i).change)) with
      | true =>
        simp only [if_true]
        simp only [Bool.and_eq_true, Bool.not_eq_true'] at hcond
        obtain ⟨hv, hsets⟩ := repair_refines H hh c a hg hs j i rf hl hf hji hagree hcond.1 hcond.2
        exact ⟨⟨hv, trivial⟩, hsets⟩
      | false =>
        simp only [Bool.false_eq_true, if_false]
        refine ⟨trivial, fun x => ?_⟩
        rw [repair_sets c j i rf hl hf hji x, repairOps_skipped c j i rf hcond]
        simp only [C01c.run, List.foldl_nil, applyAll_nil]
        split
        · rename_i hx; rw [hx]; exact hs j
        · exact hs x
  exact ⟨key.1, key.2, C01c.good_run Cluster.F H hh _ a hg key.1⟩

theorem validRun_append (F : Nat) (H : List Op) (a : Cl) (e1 e2 : List C01c.Ev)
    (h1 : C01c.ValidRun F H a e1) (h2 : C01c.ValidRun F H (C01c.run F a e1) e2) : C01c.ValidRun F H a (e1 ++ e2) := by
  induction e1 generalizing a with
  | nil => exact h2
  | cons e rest ih => exact ⟨h1.1, ih _ h1.2 h2⟩

/-- **xrun_refines**: every admissible run of the executable cluster model is matched by an admissible
run of the abstract cluster with equal sets at every node — so whatever `Props/C01.lean` and
`Props/C01c.lean` prove about the sets of admissible abstract runs holds of the sets the
executable model computes. -/
theorem xrun_refines (H : List Op) (hh : Hist Cluster.F H) (steps : List XStep) (c : Cluster) (a : Cl)
    (hg : Good Cluster.F H a) (hs : ∀ x, (a x).s = absSet c x) (hadm : AdmissibleRun H c steps) :
    ∃ evs, C01c.ValidRun Cluster.F H a evs ∧ Good Cluster.F H (C01c.run Cluster.F a evs) ∧
      ∀ x, (C01c.run Cluster.F a evs x).s = absSet (xrun c steps) x := by
  induction steps generalizing c a with
  | nil => exact ⟨[], trivial, hg, hs⟩
  | cons s rest ih =>
    obtain ⟨hv1, hs1, hg1⟩ := xstep_refines H hh c a hg hs s hadm.1
    obtain ⟨evs, hv2, hg2, hs2⟩ := ih (xstep c s) _ hg1 hs1 hadm.2
    refine ⟨eventsOf c a s ++ evs, validRun_append _ H a _ _ hv1 hv2, ?_, ?_⟩
    · simpa [C01c.run, List.foldl_append] using hg2
    · intro x
      have := hs2 x
      simpa [C01c.run, List.foldl_append, xrun] using this

end Datacake.C01d
