/-
C03 — Merging replica states is commutative, associative and idempotent.

Model: `OrSwot.merge` (`Model/Orswot.lean`); spec: per-key LWW over the *union* of what the merged
replicas had applied (`Spec/Lww.lean`).  Replica states are those reachable by insert / delete
(through any source) and merge — no purge, as in the property's quantifier — over a history `H` of
operations with valid stamps, under either alternative of the precondition:
all stamps of one origin within one forgiveness period (`WindowH`), or every replica has applied a
gap-free prefix of every origin's operations (`DownClosed`).  `F` and the number of sources are
arbitrary.
-/
import Datacake.Lemmas.ApplyRep

namespace Datacake.C03
open Datacake.Lww Datacake.OrSwot Datacake.Ts

/-- The precondition of the property for a replica that has applied `A`. -/
def Alt (F : Nat) (H A : List Op) : Prop := WindowH F H ∨ DownClosed A H

/-- Replica states reachable over the history `H`, with the list of operations they have applied
(directly or through merged states). -/
inductive Reach (F n : Nat) (H : List Op) : OrSwot → List Op → Prop
  | empty : Reach F n H (OrSwot.empty n) []
  | op (s : OrSwot) (A : List Op) (so : SrcOp) :
      Reach F n H s A → so.op ∈ H → Alt F H (so.op :: A) → Reach F n H (applyOp F s so).1 (so.op :: A)
  | merge (a : OrSwot) (A : List Op) (b : OrSwot) (B : List Op) :
      Reach F n H a A → Reach F n H b B → Reach F n H (OrSwot.merge F a b) (A ++ B)

theorem downClosed_append (A B H : List Op) (ha : DownClosed A H) (hb : DownClosed B H) :
    DownClosed (A ++ B) H := by
  intro o ho o' ho' hn hle
  rcases List.mem_append.1 ho with h | h
  · exact List.mem_append_left _ (ha o h o' ho' hn hle)
  · exact List.mem_append_right _ (hb o h o' ho' hn hle)

/-- **reach_rep**: every reachable state is the LWW state of the operations it has applied, and
is sound for the history (whatever it would refuse as too old, it has applied). -/
theorem reach_rep (F n : Nat) (hF : F % 4 = 0) (H : List Op) (hg : GoodHist H)
    (s : OrSwot) (A : List Op) (h : Reach F n H s A) :
    Rep F s A ∧ (∀ o ∈ A, o ∈ H) ∧ Alt F H A ∧ Sound s A H := by
  have sound : ∀ s A, Rep F s A → (∀ o ∈ A, o ∈ H) → Alt F H A → Sound s A H := by
    intro s A r hsub halt
    rcases halt with hw | hd
    · exact sound_of_window F hF s A H hg hsub hw r.vers
    · exact sound_of_downClosed F s A H hg hsub hd r.vers
  induction h with
  | empty =>
    have r := rep_empty F n
    have hs : ∀ o ∈ ([] : List Op), o ∈ H := fun _ h => by cases h
    have ha : Alt F H [] := Or.inr (fun _ h => by cases h)
    exact ⟨r, hs, ha, sound _ _ r hs ha⟩
  | op s A so _ hH halt ih =>
    obtain ⟨r, hsub, _, snd⟩ := ih
    have r' := applyOp_rep F s A H so r snd hH
    have hs : ∀ o ∈ so.op :: A, o ∈ H := by
      intro o ho
      rcases List.mem_cons.1 ho with rfl | ho
      · exact hH
      · exact hsub o ho
    exact ⟨r', hs, halt, sound _ _ r' hs halt⟩
  | merge a A b B _ _ iha ihb =>
    obtain ⟨ra, ha, alta, sa⟩ := iha
    obtain ⟨rb, hb, altb, sb⟩ := ihb
    have r' := merge_rep F a b A B H hb ha ra rb sa sb
    have hs : ∀ o ∈ A ++ B, o ∈ H := by
      intro o ho
      rcases List.mem_append.1 ho with h | h
      · exact ha o h
      · exact hb o h
    have halt : Alt F H (A ++ B) := by
      rcases alta with hw | hda
      · exact Or.inl hw
      · rcases altb with hw | hdb
        · exact Or.inl hw
        · exact Or.inr (downClosed_append A B H hda hdb)
    exact ⟨r', hs, halt, sound _ _ r' hs halt⟩

/-- LWW depends only on the *set* of operations. -/
theorem lww_ext (A A' : List Op) (h : ∀ o, o ∈ A ↔ o ∈ A') (k : Nat) : lww A k = lww A' k := by
  have one : ∀ (X Y : List Op), (∀ o, o ∈ X → o ∈ Y) → ∀ r, lww X k = some r → AtLeast (lww Y k) r := by
    intro X Y hXY r hr
    obtain ⟨o, ho, hk, hrk⟩ := lww_mem X k r hr
    rw [← hrk]; exact lww_ge Y k o (hXY o ho) hk
  cases h1 : lww A k with
  | none =>
    cases h2 : lww A' k with
    | none => rfl
    | some r' =>
      obtain ⟨y, hy, _⟩ := one A' A (fun o ho => (h o).2 ho) r' h2
      rw [h1] at hy; cases hy
  | some r =>
    obtain ⟨y, hy, hle⟩ := one A A' (fun o ho => (h o).1 ho) r h1
    obtain ⟨y', hy', hle'⟩ := one A' A (fun o ho => (h o).2 ho) y hy
    rw [h1] at hy'; injection hy' with hy'
    rw [hy]; congr 1; omega

/-- The live lookup is determined by the record. -/
theorem get_of_view (s s' : OrSwot) (k : Nat) (h : view s k = view s' k) :
    OrSwot.get s k = OrSwot.get s' k := by
  unfold OrSwot.get
  rw [view_of_gets, view_of_gets] at h
  unfold liveRec deadRec at h
  cases h1 : Map.get s.entries k <;> cases h2 : Map.get s'.entries k <;>
    cases h3 : Map.get s.dead k <;> cases h4 : Map.get s'.dead k <;>
    simp [h1, h2, h3, h4] at h ⊢ <;> omega

/-- **merged_indistinguishable**: reachable replicas that have (directly or transitively) applied
the same set of operations are indistinguishable by lookups: same live ids, same stamps (and the
same tombstone records). -/
theorem merged_indistinguishable (F n : Nat) (hF : F % 4 = 0) (H : List Op) (hg : GoodHist H)
    (s s' : OrSwot) (A A' : List Op) (h : Reach F n H s A) (h' : Reach F n H s' A')
    (hsame : ∀ o, o ∈ A ↔ o ∈ A') (k : Nat) :
    view s k = view s' k ∧ OrSwot.get s k = OrSwot.get s' k := by
  have hv : view s k = view s' k := by
    rw [(reach_rep F n hF H hg s A h).1.view, (reach_rep F n hF H hg s' A' h').1.view]
    exact lww_ext A A' hsame k
  exact ⟨hv, get_of_view s s' k hv⟩

/-- **merge_comm**: `a.merge(b)` and `b.merge(a)` expose the same records. -/
theorem merge_comm (F n : Nat) (hF : F % 4 = 0) (H : List Op) (hg : GoodHist H)
    (a b : OrSwot) (A B : List Op) (ha : Reach F n H a A) (hb : Reach F n H b B) (k : Nat) :
    view (OrSwot.merge F a b) k = view (OrSwot.merge F b a) k ∧
    OrSwot.get (OrSwot.merge F a b) k = OrSwot.get (OrSwot.merge F b a) k :=
  merged_indistinguishable F n hF H hg _ _ _ _ (Reach.merge a A b B ha hb) (Reach.merge b B a A hb ha)
    (fun o => by simp only [List.mem_append]; exact Or.comm) k

/-- **merge_assoc**: grouping does not matter. -/
theorem merge_assoc (F n : Nat) (hF : F % 4 = 0) (H : List Op) (hg : GoodHist H)
    (a b c : OrSwot) (A B C : List Op) (ha : Reach F n H a A) (hb : Reach F n H b B)
    (hc : Reach F n H c C) (k : Nat) :
    view (OrSwot.merge F (OrSwot.merge F a b) c) k = view (OrSwot.merge F a (OrSwot.merge F b c)) k ∧
    OrSwot.get (OrSwot.merge F (OrSwot.merge F a b) c) k =
      OrSwot.get (OrSwot.merge F a (OrSwot.merge F b c)) k :=
  merged_indistinguishable F n hF H hg _ _ _ _
    (Reach.merge _ _ c C (Reach.merge a A b B ha hb) hc)
    (Reach.merge a A _ _ ha (Reach.merge b B c C hb hc))
    (fun o => by simp only [List.mem_append]; exact or_assoc) k

/-- **merge_idem**: re-merging a state that has already been merged changes nothing. -/
theorem merge_idem (F n : Nat) (hF : F % 4 = 0) (H : List Op) (hg : GoodHist H)
    (a b : OrSwot) (A B : List Op) (ha : Reach F n H a A) (hb : Reach F n H b B) (k : Nat) :
    view (OrSwot.merge F (OrSwot.merge F a b) b) k = view (OrSwot.merge F a b) k ∧
    OrSwot.get (OrSwot.merge F (OrSwot.merge F a b) b) k = OrSwot.get (OrSwot.merge F a b) k ∧
    view (OrSwot.merge F a a) k = view a k :=
  ⟨(merged_indistinguishable F n hF H hg _ _ _ _
      (Reach.merge _ _ b B (Reach.merge a A b B ha hb) hb) (Reach.merge a A b B ha hb)
      (fun o => by simp only [List.mem_append]; constructor
                   · rintro ((h | h) | h) <;> simp [h]
                   · rintro (h | h) <;> simp [h]) k).1,
   (merged_indistinguishable F n hF H hg _ _ _ _
      (Reach.merge _ _ b B (Reach.merge a A b B ha hb) hb) (Reach.merge a A b B ha hb)
      (fun o => by simp only [List.mem_append]; constructor
                   · rintro ((h | h) | h) <;> simp [h]
                   · rintro (h | h) <;> simp [h]) k).2,
   (merged_indistinguishable F n hF H hg _ _ _ _ (Reach.merge a A a A ha ha) ha
      (fun o => by simp only [List.mem_append, or_self]) k).1⟩

/-- Merging a list of replica states into `x`, left to right. -/
def mergeAll (F : Nat) (x : OrSwot) (l : List (OrSwot × List Op)) : OrSwot :=
  l.foldl (fun acc p => OrSwot.merge F acc p.1) x

def appliedAll (X : List Op) (l : List (OrSwot × List Op)) : List Op :=
  l.foldl (fun acc p => acc ++ p.2) X

theorem reach_mergeAll (F n : Nat) (H : List Op) (x : OrSwot) (X : List Op)
    (l : List (OrSwot × List Op)) (hx : Reach F n H x X) (hl : ∀ p ∈ l, Reach F n H p.1 p.2) :
    Reach F n H (mergeAll F x l) (appliedAll X l) := by
  induction l generalizing x X with
  | nil => exact hx
  | cons p ps ih =>
    simp only [mergeAll, appliedAll, List.foldl_cons]
    exact ih _ _ (Reach.merge x X p.1 p.2 hx (hl p List.mem_cons_self))
      (fun q hq => hl q (List.mem_cons_of_mem _ hq))

theorem mem_appliedAll (X : List Op) (l : List (OrSwot × List Op)) (o : Op) :
    o ∈ appliedAll X l ↔ o ∈ X ∨ ∃ p ∈ l, o ∈ p.2 := by
  induction l generalizing X with
  | nil => simp [appliedAll]
  | cons p ps ih =>
    simp only [appliedAll, List.foldl_cons] at ih ⊢
    rw [ih]
    simp only [List.mem_append, List.mem_cons]
    constructor
    · rintro ((h | h) | ⟨q, hq, h⟩)
      · exact Or.inl h
      · exact Or.inr ⟨p, Or.inl rfl, h⟩
      · exact Or.inr ⟨q, Or.inr hq, h⟩
    · rintro (h | ⟨q, hq | hq, h⟩)
      · exact Or.inl (Or.inl h)
      · subst hq; exact Or.inl (Or.inr h)
      · exact Or.inr ⟨q, hq, h⟩

/-- **merge_any_order**: merging other replicas' states in any order, with any repetitions, yields
the same records: two merge sequences that mention the same replicas (as sets) agree on every key. -/
theorem merge_any_order (F n : Nat) (hF : F % 4 = 0) (H : List Op) (hg : GoodHist H)
    (x : OrSwot) (X : List Op) (l₁ l₂ : List (OrSwot × List Op)) (hx : Reach F n H x X)
    (h₁ : ∀ p ∈ l₁, Reach F n H p.1 p.2) (h₂ : ∀ p ∈ l₂, Reach F n H p.1 p.2)
    (hsame : ∀ p, p ∈ l₁ ↔ p ∈ l₂) (k : Nat) :
    view (mergeAll F x l₁) k = view (mergeAll F x l₂) k ∧
    OrSwot.get (mergeAll F x l₁) k = OrSwot.get (mergeAll F x l₂) k :=
  merged_indistinguishable F n hF H hg _ _ _ _ (reach_mergeAll F n H x X l₁ hx h₁)
    (reach_mergeAll F n H x X l₂ hx h₂)
    (fun o => by
      rw [mem_appliedAll, mem_appliedAll]
      constructor
      · rintro (h | ⟨p, hp, h⟩)
        · exact Or.inl h
        · exact Or.inr ⟨p, (hsame p).1 hp, h⟩
      · rintro (h | ⟨p, hp, h⟩)
        · exact Or.inl h
        · exact Or.inr ⟨p, (hsame p).2 hp, h⟩) k

/-- The merged state is the LWW state of the union (the statement the correspondence check
evaluates with `Datacake.Lww.lww` as oracle). -/
theorem merge_is_lww_of_union (F n : Nat) (hF : F % 4 = 0) (H : List Op) (hg : GoodHist H)
    (a b : OrSwot) (A B : List Op) (ha : Reach F n H a A) (hb : Reach F n H b B) (k : Nat) :
    view (OrSwot.merge F a b) k = lww (A ++ B) k :=
  (reach_rep F n hF H hg _ _ (Reach.merge a A b B ha hb)).1.view k

/-! ### Witnesses -/

/-- Outside the precondition merging is *not* commutative (this is why the precondition is there,
not a defect): replica `a` has applied a newer delete of origin 0 but not the older insert of the
same origin, more than `F` apart.  `b.merge(a)` drops key 3, `a.merge(b)` keeps it. -/
theorem outside_precondition_not_commutative :
    let tlo := pack 5000000 0 0
    let thi := pack 9000000 0 0
    let a := (deleteWithSource 3600000 (OrSwot.empty 1) 0 2 thi).1
    let b := (insertWithSource 3600000 (OrSwot.empty 1) 0 3 tlo).1
    OrSwot.get (OrSwot.merge 3600000 b a) 3 = none ∧
    OrSwot.get (OrSwot.merge 3600000 a b) 3 = some tlo := by
  decide

/-- Non-vacuity: a concrete history (two origins, an insert/delete conflict on key 1, an exact
second key) with reachable replicas under the window alternative. -/
example :
    let t1 := pack 5000000 0 0
    let t2 := pack 5000004 0 1
    let t3 := pack 5000004 1 1
    let H : List Op := [⟨1, t1, false⟩, ⟨1, t2, true⟩, ⟨2, t3, false⟩]
    GoodHist H ∧ WindowH 3600000 H ∧
    ∃ s A, Reach 3600000 2 H s A ∧ A.length = 3 := by
  intro t1 t2 t3 H
  have hw : WindowH 3600000 H := by
    intro a ha b hb
    simp only [H, List.mem_cons, List.mem_nil_iff, or_false] at ha hb
    rcases ha with rfl | rfl | rfl <;> rcases hb with rfl | rfl | rfl <;> decide
  refine ⟨⟨?_⟩, hw, ?_⟩
  · intro o ho
    simp only [H, List.mem_cons, List.mem_nil_iff, or_false] at ho
    rcases ho with rfl | rfl | rfl <;> exact ⟨by decide, by decide⟩
  · have r1 := Reach.op (F := 3600000) (n := 2) (H := H) _ _ ⟨0, ⟨1, t1, false⟩⟩ Reach.empty
      (by simp [H]) (Or.inl hw)
    have r2 := Reach.op (F := 3600000) (n := 2) (H := H) _ _ ⟨1, ⟨1, t2, true⟩⟩ Reach.empty
      (by simp [H]) (Or.inl hw)
    have r3 := Reach.op _ _ ⟨0, ⟨2, t3, false⟩⟩ r2 (by simp [H]) (Or.inl hw)
    exact ⟨_, _, Reach.merge _ _ _ _ r1 r3, rfl⟩

end Datacake.C03
