/-
C01, the poller's skip rule — why "the keyspace has not changed since I last synchronised" is safe.

`replication/poller.rs`: node j remembers, per peer and keyspace, the change stamp `L` that came
with the last state it synchronised against (`KeyspaceTracker`), and skips the keyspace while the
peer's polled change stamp equals `L`.  The peer's `GetState` handler reads the change stamp FIRST
(`LastUpdated`) and the set SECOND (`Serialize`), as two separate actor messages; mutations may be
processed in between.

Model.  The peer is a log of mutations; its change stamp is strictly increasing with every state
change (the node clock: C11) — here the number of mutations so far.  "j knows o" abstracts "j's
record of o's key is at least o" (C01 `Knows`), and `applyOk` is the fact proved in C05/C01
(`exchange_transfers`): after applying the difference against a snapshot, j knows everything the
snapshot contained.

`skip_safe`: in every reachable state, if the tracker equals the peer's current change stamp, j
already knows every operation the peer has applied — skipping loses nothing.  `legacy_unsafe`: with
the two reads in the other order (set first, stamp second) a run exists after which the tracker
equals the peer's stamp while j is missing an operation, for ever skipped.
-/
namespace Datacake.C01b

/-- What the poller is doing. -/
inductive Phase where
  | idle
  | gotVer (l : Nat)                    -- the handler has read the change stamp
  | gotSet (s : List Nat)               -- (legacy order only) the handler has read the set
  | gotState (l : Nat) (s : List Nat)   -- the reply (stamp, set) is on its way / being applied
  deriving DecidableEq

structure St where
  log : List Nat := []          -- the peer's applied operations, newest first; change stamp = log.length
  tracker : Option Nat := none  -- j's KeyspaceTracker entry for this peer and keyspace
  known : List Nat := []        -- operations j knows
  phase : Phase := .idle

inductive Step where
  | mutate (o : Nat)      -- the peer applies an operation (its change stamp grows)
  | readVer               -- GetState handler: LastUpdated
  | readSet               -- GetState handler: Serialize
  | applyOk               -- j applied the whole difference: tracker := the stamp of the reply
  | applyFail (learnt : List Nat)   -- a half failed: j learnt part of it, the tracker is untouched
  | learn (o : Nat)       -- j learns an operation some other way (direct replication, another peer)
  deriving DecidableEq

/-- The current handler order: stamp first, set second. -/
def step (s : St) : Step → St
  | .mutate o => { s with log := o :: s.log }
  | .readVer => match s.phase with
    | .idle => { s with phase := .gotVer s.log.length }
    | _ => s
  | .readSet => match s.phase with
    | .gotVer l => { s with phase := .gotState l s.log }
    | _ => s
  | .applyOk => match s.phase with
    | .gotState l set => { s with known := set ++ s.known, tracker := some l, phase := .idle }
    | _ => s
  | .applyFail learnt => match s.phase with
    | .gotState _ set => { s with known := learnt.filter (· ∈ set) ++ s.known, phase := .idle }
    | _ => s
  | .learn o => { s with known := o :: s.known }

/-- The pinned-order variant used by the seeded change: set first, stamp second. -/
def stepLegacy (s : St) : Step → St
  | .readSet => match s.phase with
    | .idle => { s with phase := .gotSet s.log }
    | _ => s
  | .readVer => match s.phase with
    | .gotSet set => { s with phase := .gotState s.log.length set }
    | _ => s
  | st => step s st

def run (steps : List Step) : St := steps.foldl step {}
def runLegacy (steps : List Step) : St := steps.foldl stepLegacy {}

/-- The operations the peer had applied when its change stamp was `l`: the oldest `l` of the log. -/
def atStamp (log : List Nat) (l : Nat) : List Nat := log.drop (log.length - l)

theorem atStamp_cons (log : List Nat) (o l : Nat) (h : l ≤ log.length) :
    atStamp (o :: log) l = atStamp log l := by
  unfold atStamp
  have : (o :: log).length - l = (log.length - l) + 1 := by simp; omega
  rw [this, List.drop_succ_cons]

theorem atStamp_full (log : List Nat) : atStamp log log.length = log := by
  unfold atStamp; simp

structure Inv (s : St) : Prop where
  tr : ∀ l, s.tracker = some l → l ≤ s.log.length ∧ ∀ o ∈ atStamp s.log l, o ∈ s.known
  ver : ∀ l, s.phase = .gotVer l → l ≤ s.log.length
  state : ∀ l set, s.phase = .gotState l set → l ≤ s.log.length ∧ ∀ o ∈ atStamp s.log l, o ∈ set
  noSet : ∀ set, s.phase ≠ .gotSet set

theorem inv_init : Inv {} := by
  constructor
  · intro l h; cases h
  · intro l h; cases h
  · intro l set h; cases h
  · intro set h; cases h

theorem inv_step (s : St) (h : Inv s) (st : Step) : Inv (step s st) := by
  obtain ⟨htr, hver, hstate, hno⟩ := h
  cases st with
  | mutate o =>
    simp only [step]
    constructor
    · intro l hl
      obtain ⟨h1, h2⟩ := htr l hl
      refine ⟨by simp; omega, ?_⟩
      rw [atStamp_cons _ _ _ h1]; exact h2
    · intro l hl; have := hver l hl; simp; omega
    · intro l set hl
      obtain ⟨h1, h2⟩ := hstate l set hl
      refine ⟨by simp; omega, ?_⟩
      rw [atStamp_cons _ _ _ h1]; exact h2
    · exact hno
  | readVer =>
    simp only [step]
    cases hp : s.phase with
    | idle =>
      simp only
      exact ⟨htr, fun l hl => (by cases hl; exact Nat.le_refl _), fun l set hl => (by cases hl), fun set hl => (by cases hl)⟩
    | gotVer l => simp only; exact ⟨htr, hver, hstate, hno⟩
    | gotSet set => exact absurd hp (hno set)
    | gotState l set => simp only; exact ⟨htr, hver, hstate, hno⟩
  | readSet =>
    simp only [step]
    cases hp : s.phase with
    | idle => simp only; exact ⟨htr, hver, hstate, hno⟩
    | gotVer l =>
      simp only
      refine ⟨htr, fun l' hl => (by cases hl), ?_, fun set hl => (by cases hl)⟩
      intro l' set hl
      cases hl
      have hle := hver l hp
      refine ⟨hle, ?_⟩
      intro o ho
      unfold atStamp at ho
      exact List.mem_of_mem_drop ho
    | gotSet set => exact absurd hp (hno set)
    | gotState l set => simp only; exact ⟨htr, hver, hstate, hno⟩
  | applyOk =>
    simp only [step]
    cases hp : s.phase with
    | idle => simp only; exact ⟨htr, hver, hstate, hno⟩
    | gotVer l => simp only; exact ⟨htr, hver, hstate, hno⟩
    | gotSet set => exact absurd hp (hno set)
    | gotState l set =>
      simp only
      obtain ⟨h1, h2⟩ := hstate l set hp
      refine ⟨?_, fun l' hl => (by cases hl), fun l' set' hl => (by cases hl), fun set' hl => (by cases hl)⟩
      intro l' hl
      cases hl
      exact ⟨h1, fun o ho => List.mem_append_left _ (h2 o ho)⟩
  | applyFail learnt =>
    simp only [step]
    cases hp : s.phase with
    | idle => simp only; exact ⟨htr, hver, hstate, hno⟩
    | gotVer l => simp only; exact ⟨htr, hver, hstate, hno⟩
    | gotSet set => exact absurd hp (hno set)
    | gotState l set =>
      simp only
      refine ⟨?_, fun l' hl => (by cases hl), fun l' set' hl => (by cases hl), fun set' hl => (by cases hl)⟩
      intro l' hl
      obtain ⟨h1, h2⟩ := htr l' hl
      exact ⟨h1, fun o ho => List.mem_append_right _ (h2 o ho)⟩
  | learn o =>
    simp only [step]
    refine ⟨?_, hver, hstate, hno⟩
    intro l hl
    obtain ⟨h1, h2⟩ := htr l hl
    exact ⟨h1, fun o' ho' => List.mem_cons_of_mem _ (h2 o' ho')⟩

theorem inv_run (steps : List Step) : Inv (run steps) := by
  unfold run
  have h0 := inv_init
  generalize ({} : St) = s at h0
  induction steps generalizing s with
  | nil => exact h0
  | cons st rest ih => exact ih _ (inv_step s h0 st)

/-- **skip_safe**: after ANY interleaving of peer mutations, handler reads, successful and failed
synchronisations and other learning — whenever the tracker equals the peer's current change stamp
(the condition under which the poller skips the keyspace), j knows every operation the peer has
applied. -/
theorem skip_safe (steps : List Step) (h : (run steps).tracker = some (run steps).log.length) :
    ∀ o ∈ (run steps).log, o ∈ (run steps).known := by
  obtain ⟨_, h2⟩ := (inv_run steps).tr _ h
  rw [atStamp_full] at h2
  exact h2

/-- **legacy_unsafe**: with the set read before the stamp, the handler can return a stamp newer
than its set; the tracker then equals the peer's stamp although j lacks operation 7 — the poller
skips the keyspace from then on. -/
theorem legacy_unsafe :
    let s := runLegacy [.readSet, .mutate 7, .readVer, .applyOk]
    s.tracker = some s.log.length ∧ 7 ∈ s.log ∧ 7 ∉ s.known := by decide

/-- Witness for `skip_safe`: a run with a mutation between the two reads ends with the tracker
BEHIND the peer's stamp (so the next poll does not skip), and a run without one ends equal with
everything known. -/
example :
    let s := run [.mutate 5, .readVer, .mutate 7, .readSet, .applyOk]
    s.tracker = some 1 ∧ s.log.length = 2 ∧ 7 ∈ s.known := by decide
example :
    let s := run [.mutate 5, .mutate 7, .readVer, .readSet, .applyOk]
    s.tracker = some s.log.length ∧ 5 ∈ s.known ∧ 7 ∈ s.known := by decide

end Datacake.C01b
