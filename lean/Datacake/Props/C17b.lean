/-
C17, the reference model as a state machine over call histories.  `Props/C17.lean` has the one-step
facts; this file states what "a simple map-based reference model" means for EVERY sequence of
storage calls the contract allows, so that the thing the three backends are compared with on every
run is itself pinned down:

* `Abs`: the abstract specification - per keyspace and document id: nothing, a tombstone at a stamp,
  or a live document (stamp, bytes).  `absStep` is the obvious function update for every call.
* `refines`: after any history the reference model's observations ARE the abstract map's:
  `get` returns the live document or nothing (`get_abs`), `iter_metadata` lists every id the map
  holds exactly once with its stamp and flag (`iter_abs`, `iter_nodup`), `multi_get` is `get` per id.
* `WF`: what makes that true is an invariant of every reachable store (`run_wf`): one row per id,
  one document per id, a document exactly for the live rows.  The one contract clause that is
  needed is explicit: `remove_tombstones` is given ids that are tombstones (`Legal`) - the code path
  (`purge`) only ever passes such ids; a backend may do anything otherwise.
* bulk calls: any order-respecting fold, ids repeated any number of times (`run` treats them as the
  folds they are).
-/
import Datacake.Props.C17

namespace Datacake.C17b
open Datacake.Storage Datacake.C17

/-! ### the abstract specification -/

inductive Cell where
  | absent
  | dead (ts : Nat)
  | live (ts : Nat) (bytes : List Nat)
deriving DecidableEq, Repr

/-- keyspace → id → cell -/
abbrev Abs := Nat → Nat → Cell

inductive Op where
  | put (k id ts : Nat) (bytes : List Nat)
  | multiPut (k : Nat) (docs : List (Nat × Nat × List Nat))
  | mark (k id ts : Nat)
  | markMany (k : Nat) (docs : List (Nat × Nat))
  | remove (k : Nat) (ids : List Nat)

def upd (a : Abs) (k id : Nat) (c : Cell) : Abs :=
  fun k' id' => if k' = k ∧ id' = id then c else a k' id'

def absStep (a : Abs) : Op → Abs
  | .put k id ts b => upd a k id (.live ts b)
  | .multiPut k docs => docs.foldl (fun a d => upd a k d.1 (.live d.2.1 d.2.2)) a
  | .mark k id ts => upd a k id (.dead ts)
  | .markMany k docs => docs.foldl (fun a d => upd a k d.1 (.dead d.2)) a
  | .remove k ids => ids.foldl (fun a id => upd a k id .absent) a

def step (s : Store) : Op → Store
  | .put k id ts b => put s k id ts b
  | .multiPut k docs => multiPut s k docs
  | .mark k id ts => markTombstone s k id ts
  | .markMany k docs => markManyTombstone s k docs
  | .remove k ids => removeTombstones s k ids

/-- The contract clause: `remove_tombstones` names tombstones (or ids that hold nothing). -/
def Legal (a : Abs) : Op → Prop
  | .remove k ids => ∀ id ∈ ids, ∀ ts b, a k id ≠ .live ts b
  | _ => True

/-- What the reference model holds for (keyspace, id), read off its two association lists. -/
def cell (s : Store) (k id : Nat) : Cell :=
  match aget (s.ks k).rows id with
  | none => .absent
  | some (ts, true) => .dead ts
  | some (ts, false) =>
    match aget (s.ks k).data id with
    | some b => .live ts b
    | none => .absent

/-! ### the invariant -/

def keys {α : Type} (m : List (Nat × α)) : List Nat := m.map (·.1)

/-- a document exactly for the live rows; one entry per id in both lists -/
structure WFks (ks : Keyspace) : Prop where
  rowsNodup : (keys ks.rows).Nodup
  dataNodup : (keys ks.data).Nodup
  docIffLive : ∀ id, (aget ks.data id).isSome = true ↔ ∃ ts, aget ks.rows id = some (ts, false)

def WF (s : Store) : Prop := ∀ k, WFks (s.ks k)

theorem keys_aerase {α : Type} (m : List (Nat × α)) (k : Nat) (h : (keys m).Nodup) :
    (keys (aerase m k)).Nodup ∧ k ∉ keys (aerase m k) := by
  unfold aerase keys
  constructor
  · exact (List.Nodup.sublist (List.Sublist.map _ List.filter_sublist) h)
  · intro hm
    rcases List.mem_map.1 hm with ⟨p, hp, hk⟩
    have := (List.mem_filter.1 hp).2
    simp [hk] at this

theorem keys_aset {α : Type} (m : List (Nat × α)) (k : Nat) (v : α) (h : (keys m).Nodup) :
    (keys (aset m k v)).Nodup := by
  have := keys_aerase m k h
  unfold aset keys at *
  simp only [List.map_cons, List.nodup_cons]
  exact ⟨this.2, this.1⟩

theorem touch_ks (s : Store) (k k' : Nat) : (s.touch k).ks k' = s.ks k' := by
  unfold Store.touch Store.ks; split <;> rfl

theorem wfks_empty : WFks {} := ⟨by simp [keys], by simp [keys], by intro id; simp [aget]⟩

theorem wf_empty : WF {} := by
  intro k; unfold Store.ks; simp [aget]; exact wfks_empty

theorem wf_touch (s : Store) (k : Nat) (h : WF s) : WF (s.touch k) := by
  intro k'; rw [touch_ks]; exact h k'

theorem wf_put (s : Store) (k id ts : Nat) (b : List Nat) (h : WF s) : WF (put s k id ts b) := by
  intro k'
  unfold put
  rw [ks_setKs]
  by_cases hk : k' = k
  · rw [if_pos hk]
    have w := h k
    refine ⟨keys_aset _ _ _ w.rowsNodup, keys_aset _ _ _ w.dataNodup, ?_⟩
    intro id'
    simp only [aget_aset]
    by_cases hid : id' = id
    · simp [hid]
    · simp only [if_neg hid]; exact w.docIffLive id'
  · rw [if_neg hk]; exact h k'

theorem wf_mark (s : Store) (k id ts : Nat) (h : WF s) : WF (markTombstone s k id ts) := by
  intro k'
  unfold markTombstone
  rw [ks_setKs]
  by_cases hk : k' = k
  · rw [if_pos hk]
    have w := h k
    refine ⟨keys_aset _ _ _ w.rowsNodup, (keys_aerase _ _ w.dataNodup).1, ?_⟩
    intro id'
    simp only [aget_aset, aget_aerase]
    by_cases hid : id' = id
    · simp [hid]
    · simp only [if_neg hid]; exact w.docIffLive id'
  · rw [if_neg hk]; exact h k'

theorem wf_foldl {β : Type} (f : Store → β → Store) (hf : ∀ s x, WF s → WF (f s x)) (l : List β) (s : Store)
    (h : WF s) : WF (l.foldl f s) := by
  induction l generalizing s with
  | nil => exact h
  | cons x xs ih => exact ih _ (hf s x h)

/-! ### one call: the model's cells follow the abstract update -/

theorem cell_put (s : Store) (k id ts : Nat) (b : List Nat) (k' id' : Nat) :
    cell (put s k id ts b) k' id' = if k' = k ∧ id' = id then .live ts b else cell s k' id' := by
  unfold cell put
  rw [ks_setKs]
  by_cases hk : k' = k
  · subst hk
    simp only [if_true, aget_aset, true_and]
    by_cases hid : id' = id
    · simp [hid]
    · simp [hid]
  · simp [hk]

theorem cell_mark (s : Store) (k id ts : Nat) (k' id' : Nat) :
    cell (markTombstone s k id ts) k' id' = if k' = k ∧ id' = id then .dead ts else cell s k' id' := by
  unfold cell markTombstone
  rw [ks_setKs]
  by_cases hk : k' = k
  · subst hk
    simp only [if_true, aget_aset, aget_aerase, true_and]
    by_cases hid : id' = id
    · simp [hid]
    · simp [hid]
  · simp [hk]

theorem cell_touch (s : Store) (k k' id' : Nat) : cell (s.touch k) k' id' = cell s k' id' := by
  unfold cell; rw [touch_ks]

/-- rows after erasing a list of ids, one keyspace record -/
theorem rows_foldl_erase (ks : Keyspace) (ids : List Nat) :
    (ids.foldl (fun ks id => { ks with rows := aerase ks.rows id }) ks).data = ks.data ∧
    ∀ id', aget (ids.foldl (fun ks id => { ks with rows := aerase ks.rows id }) ks).rows id' =
      if id' ∈ ids then none else aget ks.rows id' := by
  induction ids generalizing ks with
  | nil => simp
  | cons x xs ih =>
    simp only [List.foldl_cons]
    obtain ⟨h1, h2⟩ := ih { ks with rows := aerase ks.rows x }
    refine ⟨h1, ?_⟩
    intro id'
    rw [h2 id']
    simp only [aget_aerase, List.mem_cons]
    by_cases hx : id' = x
    · simp [hx]
    · by_cases hm : id' ∈ xs <;> simp [hx, hm]

theorem rows_foldl_erase_nodup (ks : Keyspace) (ids : List Nat) (h : (keys ks.rows).Nodup) :
    (keys (ids.foldl (fun ks id => { ks with rows := aerase ks.rows id }) ks).rows).Nodup := by
  induction ids generalizing ks with
  | nil => exact h
  | cons x xs ih => exact ih _ (keys_aerase _ _ h).1

theorem cell_remove (s : Store) (k : Nat) (ids : List Nat) (k' id' : Nat)
    (hlegal : ∀ id ∈ ids, ∀ ts b, cell s k id ≠ .live ts b) (hwf : WF s) :
    cell (removeTombstones s k ids) k' id' = if k' = k ∧ id' ∈ ids then .absent else cell s k' id' := by
  unfold removeTombstones
  simp only
  by_cases hex : (aget s.spaces k).isSome = true
  · rw [if_pos hex]
    unfold cell
    rw [ks_setKs]
    by_cases hk : k' = k
    · subst hk
      obtain ⟨hd, hr⟩ := rows_foldl_erase (s.ks k') ids
      simp only [if_true, hr id', hd, true_and]
      by_cases hm : id' ∈ ids
      · simp [hm]
      · simp [hm]
    · simp [hk]
  · rw [if_neg hex]
    rw [cell_touch]
    by_cases hk : k' = k
    · subst hk
      -- the keyspace does not exist: every cell of it is absent already
      have hks : s.ks k' = {} := by
        unfold Store.ks
        cases h : aget s.spaces k' with
        | none => rfl
        | some v => simp [h] at hex
      have : cell s k' id' = .absent := by unfold cell; rw [hks]; simp [aget]
      simp [this]
    · simp [hk]

theorem wf_remove (s : Store) (k : Nat) (ids : List Nat)
    (hlegal : ∀ id ∈ ids, ∀ ts b, cell s k id ≠ .live ts b) (h : WF s) : WF (removeTombstones s k ids) := by
  intro k'
  unfold removeTombstones
  simp only
  by_cases hex : (aget s.spaces k).isSome = true
  · rw [if_pos hex, ks_setKs]
    by_cases hk : k' = k
    · rw [if_pos hk]
      have w := h k
      obtain ⟨hd, hr⟩ := rows_foldl_erase (s.ks k) ids
      refine ⟨rows_foldl_erase_nodup _ _ w.rowsNodup, by rw [hd]; exact w.dataNodup, ?_⟩
      intro id
      rw [hd, hr id]
      by_cases hm : id ∈ ids
      · simp only [if_pos hm]
        constructor
        · intro hsome
          -- a document for a listed id would make it a live cell: excluded by the contract
          obtain ⟨ts, hts⟩ := (w.docIffLive id).1 hsome
          exfalso
          cases hb : aget (s.ks k).data id with
          | none => simp [hb] at hsome
          | some b =>
            apply hlegal id hm ts b
            unfold cell; simp [hts, hb]
        · intro ⟨ts, hts⟩; cases hts
      · simp only [if_neg hm]; exact w.docIffLive id
    · rw [if_neg hk]; exact h k'
  · rw [if_neg hex]; exact wf_touch s k h k'

/-! ### histories -/

def run (ops : List Op) : Store := ops.foldl step {}
def absRun (ops : List Op) : Abs := ops.foldl absStep (fun _ _ => .absent)

/-- every call of the history respects the contract in the state it is made in -/
def LegalRun : Abs → List Op → Prop
  | _, [] => True
  | a, op :: rest => Legal a op ∧ LegalRun (absStep a op) rest

theorem fold_put_cell (k : Nat) (docs : List (Nat × Nat × List Nat)) (s : Store) (a : Abs)
    (h : ∀ k' id', cell s k' id' = a k' id') :
    ∀ k' id', cell (docs.foldl (fun s d => put s k d.1 d.2.1 d.2.2) s) k' id'
      = (docs.foldl (fun a d => upd a k d.1 (.live d.2.1 d.2.2)) a) k' id' := by
  induction docs generalizing s a with
  | nil => exact h
  | cons d ds ih =>
    simp only [List.foldl_cons]
    apply ih
    intro k' id'
    rw [cell_put, upd, h]

theorem fold_mark_cell (k : Nat) (docs : List (Nat × Nat)) (s : Store) (a : Abs)
    (h : ∀ k' id', cell s k' id' = a k' id') :
    ∀ k' id', cell (docs.foldl (fun s d => markTombstone s k d.1 d.2) s) k' id'
      = (docs.foldl (fun a d => upd a k d.1 (.dead d.2)) a) k' id' := by
  induction docs generalizing s a with
  | nil => exact h
  | cons d ds ih =>
    simp only [List.foldl_cons]
    apply ih
    intro k' id'
    rw [cell_mark, upd, h]

theorem fold_absent (k : Nat) (ids : List Nat) (a : Abs) (k' id' : Nat) :
    (ids.foldl (fun a id => upd a k id .absent) a) k' id' = if k' = k ∧ id' ∈ ids then .absent else a k' id' := by
  induction ids generalizing a with
  | nil => simp
  | cons x xs ih =>
    simp only [List.foldl_cons, ih, upd, List.mem_cons]
    by_cases hk : k' = k
    · by_cases hx : id' = x
      · by_cases hm : id' ∈ xs <;> simp [hk, hx, hm]
      · by_cases hm : id' ∈ xs <;> simp [hk, hx, hm]
    · simp [hk]

/-- One call: invariant and refinement are preserved. -/
theorem step_refines (s : Store) (a : Abs) (op : Op) (hwf : WF s) (h : ∀ k id, cell s k id = a k id)
    (hl : Legal a op) : WF (step s op) ∧ ∀ k id, cell (step s op) k id = absStep a op k id := by
  cases op with
  | put k id ts b =>
    exact ⟨wf_put s k id ts b hwf, fun k' id' => by simp only [step, absStep]; rw [cell_put, upd, h]⟩
  | multiPut k docs =>
    refine ⟨?_, ?_⟩
    · exact wf_foldl _ (fun s d hs => wf_put s k d.1 d.2.1 d.2.2 hs) docs _ (wf_touch s k hwf)
    · exact fold_put_cell k docs (s.touch k) a (fun k' id' => by rw [cell_touch, h])
  | mark k id ts =>
    exact ⟨wf_mark s k id ts hwf, fun k' id' => by simp only [step, absStep]; rw [cell_mark, upd, h]⟩
  | markMany k docs =>
    refine ⟨?_, ?_⟩
    · exact wf_foldl _ (fun s d hs => wf_mark s k d.1 d.2 hs) docs _ (wf_touch s k hwf)
    · exact fold_mark_cell k docs (s.touch k) a (fun k' id' => by rw [cell_touch, h])
  | remove k ids =>
    have hl' : ∀ id ∈ ids, ∀ ts b, cell s k id ≠ .live ts b := by
      intro id hid ts b; rw [h]; exact hl id hid ts b
    refine ⟨wf_remove s k ids hl' hwf, ?_⟩
    intro k' id'
    simp only [step, absStep]
    rw [cell_remove s k ids k' id' hl' hwf, fold_absent, h]

theorem runFrom_refines (ops : List Op) (s : Store) (a : Abs) (hwf : WF s) (h : ∀ k id, cell s k id = a k id)
    (hl : LegalRun a ops) :
    WF (ops.foldl step s) ∧ ∀ k id, cell (ops.foldl step s) k id = (ops.foldl absStep a) k id := by
  induction ops generalizing s a with
  | nil => exact ⟨hwf, h⟩
  | cons op rest ih =>
    simp only [List.foldl_cons]
    obtain ⟨w, r⟩ := step_refines s a op hwf h hl.1
    exact ih _ _ w r hl.2

/-- **refines**: after ANY history of calls the contract allows, the reference model holds, for every
keyspace and id, exactly what the abstract map holds - and is well-formed. -/
theorem refines (ops : List Op) (hl : LegalRun (fun _ _ => .absent) ops) :
    WF (run ops) ∧ ∀ k id, cell (run ops) k id = absRun ops k id := by
  apply runFrom_refines ops {} _ wf_empty _ hl
  intro k id
  unfold cell Store.ks
  simp [aget]

theorem run_wf (ops : List Op) (hl : LegalRun (fun _ _ => .absent) ops) : WF (run ops) := (refines ops hl).1

/-! ### observations in terms of the cells -/

/-- **get_abs**: `get` returns the live document of the cell, or nothing. -/
theorem get_abs (s : Store) (k id : Nat) (hwf : WF s) :
    get s k id = match cell s k id with | .live ts b => some (id, ts, b) | _ => none := by
  have w := hwf k
  unfold Storage.get cell
  cases hr : aget (s.ks k).rows id with
  | none =>
    have : aget (s.ks k).data id = none := by
      cases hd : aget (s.ks k).data id with
      | none => rfl
      | some b =>
        have := (w.docIffLive id).1 (by simp [hd])
        obtain ⟨ts, hts⟩ := this; rw [hr] at hts; cases hts
    simp [this]
  | some p =>
    obtain ⟨ts, t⟩ := p
    cases t with
    | true =>
      have : aget (s.ks k).data id = none := by
        cases hd : aget (s.ks k).data id with
        | none => rfl
        | some b =>
          have := (w.docIffLive id).1 (by simp [hd])
          obtain ⟨ts', hts⟩ := this; rw [hr] at hts; cases hts
      simp [this]
    | false =>
      cases hd : aget (s.ks k).data id with
      | none => simp only [hd, hr]
      | some b => simp only [hd, hr]

theorem mem_iff_aget {α : Type} (m : List (Nat × α)) (h : (keys m).Nodup) (k : Nat) (v : α) :
    (k, v) ∈ m ↔ aget m k = some v := by
  induction m with
  | nil => simp [aget]
  | cons p ps ih =>
    obtain ⟨a, b⟩ := p
    simp only [keys, List.map_cons, List.nodup_cons] at h
    have ih' := ih h.2
    simp only [List.mem_cons, aget, Prod.mk.injEq]
    by_cases e : a = k
    · subst e
      simp only [if_true, Option.some.injEq, true_and]
      constructor
      · rintro (h1 | h2)
        · exact h1.symm
        · exact absurd (List.mem_map.2 ⟨(a, v), h2, rfl⟩) h.1
      · intro h1; exact Or.inl h1.symm
    · simp only [if_neg e]
      constructor
      · rintro (h1 | h2)
        · exact absurd h1.1.symm e
        · exact ih'.1 h2
      · intro h1; exact Or.inr (ih'.2 h1)

/-- **iter_abs**: `iter_metadata` lists `(id, ts, flag)` exactly for the rows the model holds … -/
theorem iter_abs (s : Store) (k : Nat) (hwf : WF s) (id ts : Nat) (t : Bool) :
    (id, ts, t) ∈ iterMetadata s k ↔ aget (s.ks k).rows id = some (ts, t) := by
  unfold iterMetadata
  rw [← mem_iff_aget _ (hwf k).rowsNodup]
  constructor
  · intro h
    rcases List.mem_map.1 h with ⟨p, hp, he⟩
    obtain ⟨a, b, c⟩ := p
    simp only [Prod.mk.injEq] at he
    obtain ⟨rfl, rfl, rfl⟩ := he
    exact hp
  · intro h; exact List.mem_map.2 ⟨(id, ts, t), h, rfl⟩

/-- … and every id once. -/
theorem iter_nodup (s : Store) (k : Nat) (hwf : WF s) : ((iterMetadata s k).map (·.1)).Nodup := by
  unfold iterMetadata
  have := (hwf k).rowsNodup
  unfold keys at this
  simpa [List.map_map, Function.comp_def] using this

/-- `multi_get` is `get` per requested id, in request order. -/
theorem multi_get_is_get (s : Store) (k : Nat) (ids : List Nat) : multiGet s k ids = ids.filterMap (get s k) := rfl

/-! ### keyspaces never affect one another - for whole histories -/

def Op.ks : Op → Nat
  | .put k _ _ _ => k
  | .multiPut k _ => k
  | .mark k _ _ => k
  | .markMany k _ => k
  | .remove k _ => k

theorem foldl_upd_other {β : Type} (f : β → Nat × Cell) (k k' : Nat) (hk : k' ≠ k) (l : List β) (a : Abs) (id : Nat) :
    (l.foldl (fun a d => upd a k (f d).1 (f d).2) a) k' id = a k' id := by
  induction l generalizing a with
  | nil => rfl
  | cons x xs ih => simp only [List.foldl_cons]; rw [ih]; simp [upd, hk]

theorem foldl_upd_congr {β : Type} (f : β → Nat × Cell) (k : Nat) (l : List β) (a a' : Abs)
    (h : ∀ id, a k id = a' k id) (id : Nat) :
    (l.foldl (fun a d => upd a k (f d).1 (f d).2) a) k id = (l.foldl (fun a d => upd a k (f d).1 (f d).2) a') k id := by
  induction l generalizing a a' with
  | nil => exact h id
  | cons x xs ih =>
    simp only [List.foldl_cons]
    apply ih
    intro id'
    simp only [upd]
    by_cases e : id' = (f x).1 <;> simp [e, h]

/-- a call that names another keyspace changes no cell of this one -/
theorem absStep_other (a : Abs) (op : Op) (k : Nat) (h : op.ks ≠ k) (id : Nat) : absStep a op k id = a k id := by
  have hk : k ≠ op.ks := fun e => h e.symm
  cases op with
  | put k0 i ts b => simp only [Op.ks] at hk; simp [absStep, upd, hk]
  | mark k0 i ts => simp only [Op.ks] at hk; simp [absStep, upd, hk]
  | multiPut k0 docs =>
    simp only [Op.ks] at hk
    exact foldl_upd_other (fun d : Nat × Nat × List Nat => (d.1, Cell.live d.2.1 d.2.2)) k0 k hk docs a id
  | markMany k0 docs =>
    simp only [Op.ks] at hk
    exact foldl_upd_other (fun d : Nat × Nat => (d.1, Cell.dead d.2)) k0 k hk docs a id
  | remove k0 ids =>
    simp only [Op.ks] at hk
    exact foldl_upd_other (fun i : Nat => (i, Cell.absent)) k0 k hk ids a id

/-- what a call does to its own keyspace depends on that keyspace only -/
theorem absStep_congr (a a' : Abs) (op : Op) (k : Nat) (h : ∀ id, a k id = a' k id) (hk : op.ks = k) (id : Nat) :
    absStep a op k id = absStep a' op k id := by
  cases op with
  | put k0 i ts b => simp only [Op.ks] at hk; subst hk; simp only [absStep, upd]; by_cases e : id = i <;> simp [e, h]
  | mark k0 i ts => simp only [Op.ks] at hk; subst hk; simp only [absStep, upd]; by_cases e : id = i <;> simp [e, h]
  | multiPut k0 docs =>
    simp only [Op.ks] at hk; subst hk
    exact foldl_upd_congr (fun d : Nat × Nat × List Nat => (d.1, Cell.live d.2.1 d.2.2)) k0 docs a a' h id
  | markMany k0 docs =>
    simp only [Op.ks] at hk; subst hk
    exact foldl_upd_congr (fun d : Nat × Nat => (d.1, Cell.dead d.2)) k0 docs a a' h id
  | remove k0 ids =>
    simp only [Op.ks] at hk; subst hk
    exact foldl_upd_congr (fun i : Nat => (i, Cell.absent)) k0 ids a a' h id

theorem isolation_from (ops : List Op) (k : Nat) (a a' : Abs) (h : ∀ id, a k id = a' k id) (id : Nat) :
    (ops.foldl absStep a) k id = ((ops.filter (fun o => o.ks == k)).foldl absStep a') k id := by
  induction ops generalizing a a' with
  | nil => exact h id
  | cons op rest ih =>
    simp only [List.foldl_cons, List.filter_cons]
    by_cases hk : op.ks = k
    · simp only [hk, beq_self_eq_true, if_true, List.foldl_cons]
      exact ih _ _ (fun id' => absStep_congr a a' op k h hk id')
    · have : (op.ks == k) = false := by simp [hk]
      simp only [this, Bool.false_eq_true, if_false]
      exact ih _ _ (fun id' => by rw [absStep_other a op k hk id']; exact h id')

/-- **history_isolation**: after ANY history, what a keyspace holds is what the calls that NAMED it
produce on their own - the calls on every other keyspace, in whatever number and order they were
interleaved, might as well not have happened.  With `refines` this is a statement about the reference
model's observations (`get`, `iter_metadata`) for every legal history. -/
theorem history_isolation (ops : List Op) (k id : Nat) :
    absRun ops k id = absRun (ops.filter (fun o => o.ks == k)) k id :=
  isolation_from ops k _ _ (fun _ => rfl) id

/-! ### non-vacuity: a legal history with a bulk put naming an id twice, a tombstone, a purge -/

def exOps : List Op :=
  [.multiPut 0 [(1, 10, [7]), (2, 11, []), (1, 12, [8, 9])], .mark 0 2 20, .put 1 1 5 [1], .remove 0 [2]]

/-- the abstract map before the purge of the example -/
def exA : Abs := absStep (absStep (absStep (fun _ _ => .absent) (.multiPut 0 [(1, 10, [7]), (2, 11, []), (1, 12, [8, 9])])) (.mark 0 2 20)) (.put 1 1 5 [1])

example : LegalRun (fun _ _ => .absent) exOps := by
  refine ⟨trivial, trivial, trivial, ?_, trivial⟩
  intro id hid ts b
  simp only [List.mem_singleton] at hid
  subst hid
  show exA 0 2 ≠ Cell.live ts b
  have h : exA 0 2 = Cell.dead 20 := by decide
  rw [h]
  intro hc; cases hc

example : get (run exOps) 0 1 = some (1, 12, [8, 9]) ∧ get (run exOps) 0 2 = none
    ∧ iterMetadata (run exOps) 0 = [(1, 12, false)] ∧ get (run exOps) 1 1 = some (1, 5, [1]) := by decide

end Datacake.C17b
