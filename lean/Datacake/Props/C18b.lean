/-
C18 with several keyspace names in use at once (`Group.stepN`: the map the group really holds,
name ↦ actor).  `Props/C18.lean` proves the property for the tasks of ONE name; the first uses of
OTHER fresh keyspaces going on at the same time are part of "every schedule" too - they share the
map and the write lock.  `one_state_each`: for every assignment of names to tasks and every
schedule, every task holds the actor registered under ITS name, and every mutation whose send
completed is in the set peers obtain for that name.  `cow_loses_other_keyspace`: a copy-on-write
map built from the snapshot of the lookup (seeded change C18-rBm1) loses the registration of
another name.
-/
import Datacake.Model.Group

namespace Datacake.C18b
open Datacake.Group

structure InvN (name : Nat → Nat) (g : GN) : Prop where
  held : ∀ t a, g.held t = some a → g.map (name t) = some a
  ready : ∀ t, 3 ≤ g.pc t → ∃ a, g.held t = some a
  sent : ∀ t, g.pc t = 4 → ∃ a, g.map (name t) = some a ∧ t ∈ g.sets a
  onlySent : ∀ a t, t ∈ g.sets a → g.pc t = 4

theorem inv_stepN (name : Nat → Nat) (g : GN) (t : Nat) (h : InvN name g) : InvN name (stepN name g t) := by
  obtain ⟨h1, h2, h3, h4⟩ := h
  unfold stepN
  split
  · cases hm : g.map (name t) <;> constructor <;> simp only [upd] <;> grind
  · constructor <;> simp only [upd] <;> grind
  · cases hm : g.map (name t) <;> constructor <;> simp only [upd] <;>
      first
        | grind
        | (intro t' hp
           by_cases e : t' = t
           · exact ⟨g.created t, by simp [e]⟩
           · simp only [e, if_false] at hp ⊢; exact h2 t' hp)
  · cases hh : g.held t <;> constructor <;> simp only [upd] <;> grind
  · exact ⟨h1, h2, h3, h4⟩

theorem inv_runN (name : Nat → Nat) (schedule : List Nat) : InvN name (runN name schedule) := by
  unfold runN
  have h0 : InvN name ({} : GN) :=
    ⟨fun _ _ h => (by cases h), fun _ h => (by simp at h), fun _ h => (by simp at h), fun _ _ h => (by cases h)⟩
  generalize ({} : GN) = g at h0
  induction schedule generalizing g with
  | nil => exact h0
  | cons t ts ih => exact ih _ (inv_stepN name g t h0)

/-- **one_state_each**: any number of tasks, any assignment of keyspace names to them, any schedule:
(1) whatever mailbox a task obtained is the one registered under its keyspace's name, (2) two tasks
of one name never hold different instances, (3) every mutation whose send completed is in the set
peers obtain for that name. -/
theorem one_state_each (name : Nat → Nat) (schedule : List Nat) :
    let g := runN name schedule
    (∀ t a, g.held t = some a → g.map (name t) = some a) ∧
    (∀ t t' a a', name t = name t' → g.held t = some a → g.held t' = some a' → a = a') ∧
    (∀ t, g.pc t = 4 → t ∈ visibleN g (name t)) := by
  intro g
  have h := inv_runN name schedule
  refine ⟨h.held, ?_, ?_⟩
  · intro t t' a a' hn ht ht'
    have e1 := h.held t a ht
    have e2 := h.held t' a' ht'
    rw [hn] at e1; rw [e1] at e2; injection e2
  · intro t hp
    obtain ⟨a, ha, hm⟩ := h.sent t hp
    unfold visibleN; rw [ha]; exact hm

/-- Witness for the seeded change C18-rBm1: task 0 first uses keyspace 0, task 1 keyspace 1; both miss
(holding the same empty snapshot), both spawn; 0 publishes {0 ↦ a0}, 1 publishes {1 ↦ a1} built from
ITS snapshot - the registration of keyspace 0 is gone; task 0's acknowledged write went to an actor
no lookup finds any more.  The current tree, same schedule: both registered, both writes visible. -/
theorem cow_loses_other_keyspace :
    let name : Nat → Nat := fun t => t
    let sched := [0, 1, 0, 1, 0, 1, 0, 1]
    (runCow name sched).pc 0 = 4 ∧ (runCow name sched).map 0 = none ∧ visibleN (runCow name sched) 0 = [] ∧
    visibleN (runN name sched) 0 = [0] ∧ visibleN (runN name sched) 1 = [1] := by decide

/-- Non-vacuity: three tasks on two names complete under an interleaved schedule. -/
example :
    let name : Nat → Nat := fun t => t % 2
    let g := runN name [0, 1, 2, 0, 1, 2, 0, 1, 2, 0, 1, 2]
    g.pc 0 = 4 ∧ g.pc 1 = 4 ∧ g.pc 2 = 4 ∧ visibleN g 0 = [2, 0] ∧ visibleN g 1 = [1] := by decide

end Datacake.C18b
