/-
C01, an exchange whose document fetch the peer refuses (`Cluster.repairFetchFail`: the peer's
`fetch_docs` is answered with an error).  What the convergence argument needs from such an exchange:

* it teaches the repairing node nothing that is not true - its set moves by the removal half of the
  difference only, i.e. by operations the peer has applied (`fetchFail_sets`: the same
  `removalOps` the complete exchange applies first), every other node is untouched;
* it does NOT count as a synchronisation: the tracker entry for the peer keeps its value
  (`fetchFail_tracker_kept`), so the skip rule of the poller (Props/C01b `skip_safe`: skipping is
  safe when the tracker equals the peer's stamp BECAUSE a recorded stamp means the snapshot was
  learnt) is not handed a stamp whose snapshot was never learnt, and the next poll asks again
  (`fetchFail_then_not_skipped`).

A change that records the peer's stamp after a refused fetch (seeded change C01-rAm1) breaks the
second point: the correspondence run shows `synced` / `skipped` where the model says `err` /
`synced`, and the quiescent exchanges no longer converge.
-/
import Datacake.Model.Cluster
import Datacake.Lemmas.ClusterSets
import Datacake.Props.C01d
import Datacake.Props.C01e

namespace Datacake.C01d
open Datacake.Lww Datacake.OrSwot Datacake.Keyspace Datacake.Storage Datacake.Cluster Datacake.C01 Datacake.C05

theorem touch_tracker (c : Cluster) (i x : Nat) : (getNode (touch c i) x).tracker = (getNode c x).tracker := by
  rw [getNode_def, touch_nodes]
  by_cases h : (getNode c i).exists_ = true
  · rw [if_pos h]; rfl
  · rw [if_neg h, getD_set]
    split
    · rename_i hx; rw [hx.1]
    · rfl

theorem touch_change_of_exists (c : Cluster) (i x : Nat) (h : (getNode c x).exists_ = true) :
    (getNode (touch c i) x).change = (getNode c x).change ∧ (getNode (touch c i) x).exists_ = true := by
  rw [getNode_def, touch_nodes]
  by_cases hi : (getNode c i).exists_ = true
  · rw [if_pos hi]; exact ⟨rfl, h⟩
  · rw [if_neg hi, getD_set]
    split
    · rename_i hx
      have : x = i := hx.1
      subst this
      exact absurd h hi
    · exact ⟨rfl, h⟩

/-- **fetchFail_sets**: the sets after an exchange whose fetch was refused - the repairing node applied
the removal half of the difference (operations the peer holds), nobody else moved. -/
theorem fetchFail_sets (c : Cluster) (j i : Nat) (h : j < c.nodes.length)
    (hf : (getNode c j).failNext = false)
    (hex : (getNode c i).exists_ = true)
    (htr : ((getNode c j).tracker.getD i none == some (getNode c i).change) = false)
    (hfetch : (diff (getNode (touch c j) j).ks.set (getNode c i).ks.set).1.isEmpty = false) (x : Nat) :
    absSet (repairFetchFail c j i).1 x =
      if x = j then applyAll Cluster.F (absSet c j)
        (removalOps (absSet c j) (diff (getNode (touch c j) j).ks.set (getNode c i).ks.set).2)
      else absSet c x := by
  unfold repairFetchFail
  simp only [hex, Bool.not_true, Bool.false_eq_true, if_false, htr, hfetch]
  have hl0 : j < (touch c j).nodes.length := by rw [touch_length]; exact h
  have hf0 : (getNode (touch c j) j).failNext = false := by rw [touch_failNext]; exact hf
  rw [applyRemovals_sets (touch c j) j _ hl0 hf0 x]
  have hks : ∀ y, absSet (touch c j) y = absSet c y := fun y => by unfold absSet; rw [touch_ks]
  rw [hks j, hks x]

/-- **fetchFail_reports_failure**: such an exchange is reported as failed - never as synchronised. -/
theorem fetchFail_reports_failure (c : Cluster) (j i : Nat)
    (hex : (getNode c i).exists_ = true)
    (htr : ((getNode c j).tracker.getD i none == some (getNode c i).change) = false)
    (hfetch : (diff (getNode (touch c j) j).ks.set (getNode c i).ks.set).1.isEmpty = false) :
    (repairFetchFail c j i).2 = .failed := by
  unfold repairFetchFail
  simp only [hex, Bool.not_true, Bool.false_eq_true, if_false, htr, hfetch]

theorem applyAt_tracker (c : Cluster) (i src : Nat) (iss : Issued) (h : i < c.nodes.length) (x : Nat) :
    (getNode (applyAt c i src iss).1 x).tracker = (getNode c x).tracker := by
  by_cases hx : x = i
  · subst hx
    unfold applyAt
    simp only []
    have htr : (getNode (touch c x) x).tracker = (getNode c x).tracker := touch_tracker c x x
    have hl : x < (touch c x).nodes.length := by rw [touch_length]; exact h
    cases iss with
    | put d =>
      simp only
      split
      · exact htr
      · split
        · simpa [getNode_def, bump_nodes, setNode, hl] using htr
        · simpa [getNode_def, setNode, hl] using htr
    | del id ts =>
      simp only
      split
      · exact htr
      · split
        · simpa [getNode_def, bump_nodes, setNode, hl] using htr
        · simpa [getNode_def, setNode, hl] using htr
    | mput ds => simpa [getNode_def, bump_nodes, setNode, hl] using htr
    | mdel ds => simpa [getNode_def, bump_nodes, setNode, hl] using htr
  · rw [getNode_applyAt_other c i src iss x hx]

theorem applyRemovals_tracker (c : Cluster) (j : Nat) (removed : List (Nat × Nat)) (h : j < c.nodes.length) (x : Nat) :
    (getNode (applyRemovals c j removed).1 x).tracker = (getNode c x).tracker := by
  unfold applyRemovals
  match removed with
  | [] => rfl
  | [r] => exact applyAt_tracker c j 1 _ h x
  | r1 :: r2 :: rest => exact applyAt_tracker c j 1 _ h x

/-- **fetchFail_tracker_kept**: an exchange whose fetch was refused records nothing - every tracker of
every node is what it was. -/
theorem fetchFail_tracker_kept (c : Cluster) (j i : Nat) (h : j < c.nodes.length)
    (hex : (getNode c i).exists_ = true)
    (htr : ((getNode c j).tracker.getD i none == some (getNode c i).change) = false)
    (hfetch : (diff (getNode (touch c j) j).ks.set (getNode c i).ks.set).1.isEmpty = false) (x : Nat) :
    (getNode (repairFetchFail c j i).1 x).tracker = (getNode c x).tracker := by
  unfold repairFetchFail
  simp only [hex, Bool.not_true, Bool.false_eq_true, if_false, htr, hfetch]
  have hl0 : j < (touch c j).nodes.length := by rw [touch_length]; exact h
  rw [applyRemovals_tracker (touch c j) j _ hl0 x, touch_tracker]

/-- **fetchFail_then_not_skipped**: after a refused fetch the poller does not skip the peer as long as
the peer's change stamp is what it was: the very next poll asks for the state again.  (`j ≠ i`: a node
does not repair from itself.) -/
theorem fetchFail_then_not_skipped (c : Cluster) (j i : Nat) (h : j < c.nodes.length) (hji : i ≠ j)
    (hex : (getNode c i).exists_ = true)
    (htr : ((getNode c j).tracker.getD i none == some (getNode c i).change) = false)
    (hfetch : (diff (getNode (touch c j) j).ks.set (getNode c i).ks.set).1.isEmpty = false) :
    let c' := (repairFetchFail c j i).1
    ((getNode c' j).tracker.getD i none == some (getNode c' i).change) = false ∧ (getNode c' i).exists_ = true := by
  intro c'
  have ht := fetchFail_tracker_kept c j i h hex htr hfetch j
  have hpeer : getNode c' i = getNode (touch c j) i := by
    show getNode (repairFetchFail c j i).1 i = _
    unfold repairFetchFail
    simp only [hex, Bool.not_true, Bool.false_eq_true, if_false, htr, hfetch]
    exact applyRemovals_other (touch c j) j _ i hji
  have hc := touch_change_of_exists c j i hex
  show ((getNode (repairFetchFail c j i).1 j).tracker.getD i none == some (getNode c' i).change) = false ∧ _
  rw [ht, hpeer, hc.1]
  exact ⟨htr, hc.2⟩

/-- **fetchFail_good**: set and store of every node still agree (C02's `Good`: set = store, exact
cut-offs) after an exchange whose fetch was refused - the half that ran is a removal request like any
other. -/
theorem fetchFail_good (c : Cluster) (j i : Nat) (h : j < c.nodes.length)
    (hf : (getNode c j).failNext = false) (hg : NodesGood c)
    (hex : (getNode c i).exists_ = true)
    (htr : ((getNode c j).tracker.getD i none == some (getNode c i).change) = false)
    (hfetch : (diff (getNode (touch c j) j).ks.set (getNode c i).ks.set).1.isEmpty = false)
    (hvr : ∀ p ∈ (diff (absSet c j) (absSet c i)).2, ValidStamp p.2) :
    NodesGood (repairFetchFail c j i).1 := by
  unfold repairFetchFail
  simp only [hex, Bool.not_true, Bool.false_eq_true, if_false, htr, hfetch]
  have hl0 : j < (touch c j).nodes.length := by rw [touch_length]; exact h
  have hf0 : (getNode (touch c j) j).failNext = false := by rw [touch_failNext]; exact hf
  have hg0 : NodesGood (touch c j) := nodesGood_of_ks c _ (fun x => touch_ks c j x) hg
  have hs0 : (getNode (touch c j) j).ks.set = absSet c j := by unfold absSet; rw [touch_ks]
  have hpi : (getNode c i).ks.set = absSet c i := rfl
  rw [hs0, hpi]
  exact applyRemovals_good (touch c j) j _ hl0 hf0 hg0 (diff_nodup (absSet c j) (absSet c i)).2 hvr

/-! ### non-vacuity: two nodes, node 1 holds a document node 0 lacks; node 1 refuses the fetch -/

/-- node 1 has applied a put of document 7 (stamp 5 000 000 s, origin 1, three bytes) -/
def exC : Cluster := (applyAt { nodes := [{}, {}] } 1 0 (.put (7, 5000000 * 4294967296 + 1, [1, 2, 3]))).1

example : (getNode exC 1).exists_ = true
    ∧ ((getNode exC 0).tracker.getD 1 none == some (getNode exC 1).change) = false
    ∧ (diff (getNode (touch exC 0) 0).ks.set (getNode exC 1).ks.set).1.isEmpty = false := by decide

example : (repairFetchFail exC 0 1).2 = .failed := by rfl
example : (repair exC 0 1 true).2 = .synced 1 0 := by rfl

end Datacake.C01d
