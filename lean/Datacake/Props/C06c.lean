/-
C06, last clause: "... and the local write is still in place and still replicated later".

The later replication of a write is the batch of the task distributor (`execute_batch`): every
live member is sent `apply_batch` (one bulk request per keyspace), whatever happened to the write at
its consistency level.  Over the executable model (`Cluster.broadcast` = what the driver runs for a
distributor tick):

  broadcast_reaches_responsive — whatever the other members do (fail, refuse connections, stay
                                 silent), every member that answers holds the batch afterwards;
  broadcastAll_step            — the batch of the NEXT tick is sent whatever the replies to this one
                                 were (fix D32: every request of the batch has a deadline);
  legacy_broadcast_blocks      — the pinned `execute_batch` joined the requests without a deadline:
                                 with one silent member the second batch reached nobody.
-/
import Datacake.Props.C06b

namespace Datacake.C06
open Datacake.Lww Datacake.OrSwot Datacake.Storage Datacake.Keyspace Datacake.Cluster Datacake.C01d

/-- The requests of a distributor batch are bulk requests (`BatchPayload`: multi-put / multi-del). -/
def IsBulk : Issued → Prop
  | .mput _ => True
  | .mdel _ => True
  | _ => False

/-- A member that answers: it accepts connections, its keyspace actor is not parked inside a hung
storage call, and its next storage call returns and succeeds. -/
def Responsive (c : Cluster) (down hangNext stuck : List Nat) (t : Nat) : Prop :=
  down.contains t = false ∧ stuck.contains t = false ∧ hangNext.contains t = false ∧
    (getNode c t).failNext = false

/-- A bulk request at a node whose storage works is acknowledged. -/
theorem applyAt_bulk_ok (c : Cluster) (t src : Nat) (iss : Issued) (hb : IsBulk iss) (h : t < c.nodes.length)
    (hf : (getNode c t).failNext = false) : (applyAt c t src iss).2 = true := by
  cases iss with
  | put _ => exact absurd hb (by simp [IsBulk])
  | del _ _ => exact absurd hb (by simp [IsBulk])
  | mput ds =>
    rw [(applyAt_mput_ks c t src ds h t).2, hf]
    rfl
  | mdel ds =>
    rw [(applyAt_mdel_ks c t src ds h t).2, hf]
    rfl

/-- The request to a member that answers is acknowledged. -/
theorem replicate_responsive (c : Cluster) (down hangNext stuck : List Nat) (t : Nat) (iss : Issued)
    (hb : IsBulk iss) (h : t < c.nodes.length) (hr : Responsive c down hangNext stuck t) :
    (replicate c down hangNext stuck t iss).2.2 = .ack := by
  obtain ⟨h1, h2, h3, h4⟩ := hr
  unfold replicate
  simp only [h1, h2, h3, Bool.false_eq_true, if_false, Bool.false_and]
  rw [applyAt_bulk_ok c t 0 iss hb h h4]
  rfl

/-- One request adds at most its own target to the parked members. -/
theorem replicate_stuck (c : Cluster) (down hangNext stuck : List Nat) (t : Nat) (iss : Issued) (x : Nat)
    (hx : x ≠ t) : (replicate c down hangNext stuck t iss).2.1.contains x = stuck.contains x := by
  unfold replicate
  split
  · rfl
  · split
    · rfl
    · split
      · simp only [List.contains_cons]
        have : (x == t) = false := by simpa using hx
        rw [this, Bool.false_or]
      · rfl

theorem replicate_failNext_other (c : Cluster) (down hangNext stuck : List Nat) (t : Nat) (iss : Issued)
    (x : Nat) (hx : x ≠ t) :
    (getNode (replicate c down hangNext stuck t iss).1 x).failNext = (getNode c x).failNext := by
  rw [replicate_other c down hangNext stuck t iss x hx]

/-- Among the requests of one batch, the one to a member that answers is acknowledged - whatever the
other members do. -/
theorem replicateAll_responsive (down hangNext : List Nat) (iss : Issued) (hb : IsBulk iss) :
    ∀ (targets : List Nat) (c : Cluster) (stuck : List Nat), targets.Nodup →
    (∀ t ∈ targets, t < c.nodes.length) →
    ∀ t ∈ targets, Responsive c down hangNext stuck t →
      (t, Reply.ack) ∈ targets.zip (replicateAll c down hangNext stuck targets iss).2.2 := by
  intro targets
  induction targets with
  | nil => intro c stuck _ _ t ht; simp at ht
  | cons t0 ts ih =>
    intro c stuck hnd hlen t ht hr
    rw [replicateAll_cons]
    simp only [List.zip_cons_cons]
    rw [List.nodup_cons] at hnd
    rcases List.mem_cons.1 ht with rfl | hts
    · rw [replicate_responsive c down hangNext stuck t iss hb (hlen t (List.mem_cons_self ..)) hr]
      exact List.mem_cons_self ..
    · have hne : t ≠ t0 := fun e => hnd.1 (e ▸ hts)
      refine List.mem_cons_of_mem _ (ih _ _ hnd.2 ?_ t hts ?_)
      · intro t' ht'
        rw [replicate_length]; exact hlen t' (List.mem_cons_of_mem _ ht')
      · obtain ⟨h1, h2, h3, h4⟩ := hr
        exact ⟨h1, by rw [replicate_stuck c down hangNext stuck t0 iss t hne]; exact h2, h3,
          by rw [replicate_failNext_other c down hangNext stuck t0 iss t hne]; exact h4⟩

/-- **broadcast_reaches_responsive** ("still replicated later"): after a tick of the distributor
every live member that answers holds the batch (or newer records of its documents) - whichever
of the other members fail, refuse connections or stay silent. -/
theorem broadcast_reaches_responsive (c : Cluster) (down hangNext stuck : List Nat) (targets : List Nat)
    (iss : Issued) (hb : IsBulk iss) (hnd : targets.Nodup) (hlen : ∀ t ∈ targets, t < c.nodes.length)
    (hag : ∀ t ∈ targets, Agree (getNode c t).ks) (hfr : ∀ t ∈ targets, Fresh (getNode c t).ks.set iss)
    (t : Nat) (ht : t ∈ targets) (hr : Responsive c down hangNext stuck t) :
    HoldsAt (broadcast c down hangNext stuck targets iss).1 t iss := by
  obtain ⟨_, _, _, s4⟩ := replicateAll_spec down hangNext iss targets c stuck hnd hlen hag hfr
  exact s4 (t, .ack) (replicateAll_responsive down hangNext iss hb targets c stuck hnd hlen t ht hr) rfl

/-- The members a batch was not addressed to are untouched by it. -/
theorem broadcast_other (c : Cluster) (down hangNext stuck : List Nat) (targets : List Nat) (iss : Issued)
    (hnd : targets.Nodup) (hlen : ∀ t ∈ targets, t < c.nodes.length)
    (hag : ∀ t ∈ targets, Agree (getNode c t).ks) (hfr : ∀ t ∈ targets, Fresh (getNode c t).ks.set iss)
    (x : Nat) (hx : x ∉ targets) :
    getNode (broadcast c down hangNext stuck targets iss).1 x = getNode c x :=
  (replicateAll_spec down hangNext iss targets c stuck hnd hlen hag hfr).2.1 x hx

/-- **broadcastAll_step**: the ticks of the distributor are independent - the next batch is sent to
the members whatever the replies to this one were (with fix D32 a tick ends at the deadline of its
requests at the latest). -/
theorem broadcastAll_step (c : Cluster) (down hangNext stuck : List Nat) (targets : List Nat)
    (iss : Issued) (rest : List Issued) :
    broadcastAll c down hangNext stuck targets (iss :: rest) =
      broadcastAll (broadcast c down hangNext stuck targets iss).1 down
        (hangNext.filter (fun t => !(broadcast c down hangNext stuck targets iss).2.contains t))
        (broadcast c down hangNext stuck targets iss).2 targets rest := rfl

/-! ### The tree before the fix for D32 -/

private def two : Cluster := { nodes := [{}, {}, {}] }
private def b1 : Issued := .mput [(6, 100, [1])]
private def b2 : Issued := .mput [(7, 200, [2])]

/-- Three nodes, the issuer 0 and the members 1 and 2; member 2's storage call never returns.  The
repaired distributor delivers the second batch to member 1; the pinned one never sent it: member 1
does not hold document 7. -/
theorem legacy_broadcast_blocks :
    (Storage.aget (getNode (broadcastAll two [] [2] [] [1, 2] [b1, b2]).1 1).ks.store.rows 7).isSome = true ∧
    (Storage.aget (getNode (broadcastAllLegacy two [] [2] [] [1, 2] [b1, b2]).1 1).ks.store.rows 7).isSome = false ∧
    (Storage.aget (getNode (broadcastAllLegacy two [] [2] [] [1, 2] [b1, b2]).1 1).ks.store.rows 6).isSome = true := by
  decide

/-- Non-vacuity: in that cluster member 1 is responsive, member 2 is not, and the hypotheses of
`broadcast_reaches_responsive` hold. -/
example : Responsive two [] [2] [] 1 ∧ ¬ Responsive two [] [2] [] 2 ∧ IsBulk b1 ∧ [1, 2].Nodup := by
  refine ⟨⟨rfl, rfl, rfl, rfl⟩, ?_, trivial, by decide⟩
  intro h
  exact absurd h.2.2.1 (by decide)

end Datacake.C06
