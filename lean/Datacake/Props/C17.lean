/-
C17 — Every bundled storage backend behaves like the reference key-value model.

What can be *proved* here is about the reference model itself (`Model/Storage.lean`): that it is a
sensible specification — keyspaces are isolated, a document and its metadata read back exactly,
bulk calls are the folds of the single calls.  That SQLite, LMDB and the in-memory store *refine*
it is established differentially on every run (the backends are external programs; see DESIGN §8
C17): `dcharness` drives the three real backends, `dcdriver` this model, on the same call
sequences, including close/reopen of the persistent ones.
-/
import Datacake.Model.Storage

namespace Datacake.C17
open Datacake.Storage

theorem aget_aset {α : Type} (m : List (Nat × α)) (k k' : Nat) (v : α) :
    aget (aset m k v) k' = if k' = k then some v else aget m k' := by
  unfold aset aerase
  simp only [aget]
  by_cases h : k = k'
  · simp [h]
  · have h' : ¬ k' = k := fun e => h e.symm
    simp only [if_neg h, if_neg h']
    induction m with
    | nil => rfl
    | cons p ps ih =>
      obtain ⟨a, b⟩ := p
      by_cases e : a = k
      · subst e
        have hd : decide (a ≠ a) = false := by simp
        simp only [List.filter_cons, hd, Bool.false_eq_true, if_false, aget, if_neg h, ih]
      · have hd : decide (a ≠ k) = true := by simp [e]
        simp only [List.filter_cons, hd, if_true, aget, ih]

theorem aget_aerase {α : Type} (m : List (Nat × α)) (k k' : Nat) :
    aget (aerase m k) k' = if k' = k then none else aget m k' := by
  unfold aerase
  induction m with
  | nil => simp [aget]
  | cons p ps ih =>
    obtain ⟨a, b⟩ := p
    by_cases e : a = k
    · subst e
      have hd : decide (a ≠ a) = false := by simp
      simp only [List.filter_cons, hd, Bool.false_eq_true, if_false, ih, aget]
      by_cases h : k' = a
      · simp [h]
      · have : ¬ a = k' := fun e => h e.symm
        simp [h, this]
    · have hd : decide (a ≠ k) = true := by simp [e]
      simp only [List.filter_cons, hd, if_true, aget, ih]
      by_cases h : a = k'
      · have : ¬ k' = k := fun e2 => e (h.trans e2)
        simp [h, this]
      · simp [h]

theorem ks_setKs (s : Store) (k k' : Nat) (x : Keyspace) :
    (s.setKs k x).ks k' = if k' = k then x else s.ks k' := by
  unfold Store.setKs Store.ks Store.touch
  by_cases h : k' = k
  · subst h; split <;> simp [aget_aset]
  · split <;> simp [aget_aset, h]

/-- **keyspace_isolation**: a mutating call on keyspace `a` changes no observation
(`get`, `iter_metadata`) on another keyspace `b`. -/
theorem keyspace_isolation (s : Store) (a b : Nat) (hab : b ≠ a) (id ts : Nat) (bytes : List Nat)
    (ids : List Nat) :
    (put s a id ts bytes).ks b = s.ks b ∧ (markTombstone s a id ts).ks b = s.ks b ∧
    (removeTombstones s a ids).ks b = s.ks b := by
  refine ⟨?_, ?_, ?_⟩
  · unfold put; simp only [ks_setKs, if_neg hab]
  · unfold markTombstone; simp only [ks_setKs, if_neg hab]
  · unfold removeTombstones
    simp only
    split
    · simp only [ks_setKs, if_neg hab]
    · unfold Store.touch Store.ks; split <;> rfl

/-- **put_get_exact**: after `put`, `get` returns exactly those bytes (of any length, the empty
payload included) and that stamp; the metadata row says "live at `ts`"; other ids are untouched. -/
theorem put_get_exact (s : Store) (k id ts : Nat) (bytes : List Nat) :
    get (put s k id ts bytes) k id = some (id, ts, bytes) ∧
    aget ((put s k id ts bytes).ks k).rows id = some (ts, false) ∧
    (∀ id', id' ≠ id → get (put s k id ts bytes) k id' = get s k id') := by
  unfold Storage.get put
  simp only [ks_setKs, if_true, aget_aset]
  refine ⟨by simp, by simp, ?_⟩
  intro id' h
  simp [h]

/-- **tombstone_exact**: after `mark_as_tombstone` the document is gone, the metadata row says
"tombstone at `ts`" — whether or not a document existed —, other ids are untouched; and
`remove_tombstones` drops exactly the listed rows. -/
theorem tombstone_exact (s : Store) (k id ts : Nat) :
    get (markTombstone s k id ts) k id = none ∧
    aget ((markTombstone s k id ts).ks k).rows id = some (ts, true) ∧
    (∀ id', id' ≠ id → get (markTombstone s k id ts) k id' = get s k id') := by
  unfold Storage.get markTombstone
  simp only [ks_setKs, if_true, aget_aset, aget_aerase]
  refine ⟨by simp, by simp, ?_⟩
  intro id' h
  simp [h]

/-- Bulk calls are the folds of the single calls, in request order (so a batch that mentions an id
twice ends with the later entry). -/
theorem multi_is_fold (s : Store) (k : Nat) (docs : List (Nat × Nat × List Nat))
    (tombs : List (Nat × Nat)) :
    multiPut s k docs = docs.foldl (fun s d => put s k d.1 d.2.1 d.2.2) (s.touch k) ∧
    markManyTombstone s k tombs = tombs.foldl (fun s d => markTombstone s k d.1 d.2) (s.touch k) :=
  ⟨rfl, rfl⟩

/-- Non-vacuity: a tombstone in a keyspace that never held a document is recorded and listed
(the scenario of defect D5). -/
example : iterMetadata (markManyTombstone {} 0 [(2, 77)]) 0 = [(2, 77, true)] ∧
    listOk (markManyTombstone {} 0 [(2, 77)]) [0] = true ∧
    listOk (markManyTombstone {} 0 [(2, 77)]) [] = false := by decide

end Datacake.C17
